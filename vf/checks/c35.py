"""C35 — dispersion recurrence coefficients encode the declared pole model.

The REAL `compute_pole_coefficients{,_per_axis,_tensor}`, `compute_allowed_dispersive_coefficients` and
`susceptibility_from_coefficients` are run on seeded random / hostile pole sets; judged against closed-form
susceptibilities written from the class docstrings:

    Lorentz         chi = de*w0^2 / (w0^2 - w^2 - i*g*w)
    Drude           chi = -wp^2 / (w^2 + i*g*w)
    critical point  chi = A*W*[ e^{i phi}/(W - w - i*G) + e^{-i phi}/(W + w + i*G) ]
    CCPR pair       chi = r/(-i w - q) + conj(r)/(-i w - conj(q))
    oriented pole   chi_ij = chi * u_i u_j  (u normalised), per-axis pole: diag(chi_x, chi_y, chi_z)

(a) recon : chi reconstructed from the stored coefficients == model, at frequencies w*dt in 1e-4..10
(b) conv  : frequency response of the recurrence itself, H(w) = (c3 + c4 z)/(z - c1 - c2/z), z = exp(-i w dt),
            tends to the model: error ratio ~4 when dt halves and error <= 3 (L dt)^2 for Lorentz/Drude
            (L = max(w, w0, g)); for critical-point poles (forward-difference dE/dt coupling) the error
            must shrink with dt and be <= 10 L dt
(c) roots : roots of z^2 - c1 z - c2 in the closed unit disc (Jury conditions on the stored values and
            a direct root computation)
(d) pad   : per-material tables: slots beyond a material's pole count, and non-dispersive materials, are exactly
            zero and contribute exactly nothing to the reconstructed susceptibility
"""

from __future__ import annotations

PROPERTY = "C35"
RULE = (
    "seeded pole sets of 1-3 poles drawn from {Lorentz, Drude, critical-point, CCPR pair} x {isotropic, per-axis "
    "(with zero-coupling axes), oriented}; w0*dt from 1e-6 up to 1.9999 incl. sqrt(2) (c1 = 0), damping*dt from 0 "
    "through 2 (c2 = 0) to 2e4; each set is evaluated at 8 frequencies (w*dt 1e-4..10, resonance, pi/dt). A "
    "signature is (check, pole-kind multiset, axis class, damping class, w0dt class, frequency class); evaluations "
    "with an exactly zero model value are trivial."
)
REQUIRED_COUNTERS = ["recon_comparisons", "convergence_checks", "root_checks", "padding_checks"]
ASSUMPTIONS = [
    "reconstruction tolerance = 1e-9 + 64*eps*cond, cond = analytic conditioning of undoing c1,c2,c3,c4 "
    "((1+g dt/2)*(2+(w dt)^2+g dt*w dt)/|w0^2dt^2-(w dt)^2-i g dt w dt| plus numerator cancellation for CCPR); "
    "evaluations with tolerance > 1e-6 are skipped and counted (on-resonance undamped poles)",
    "convergence is judged only where |w0^2-w^2-i g w| >= 0.1*max(w^2,w0^2) and L*dt <= 0.05",
    "negative damping / w0*dt >= 2 are outside the statement; the documented ValueError for w0*dt >= 2 is checked",
]
CASE_TIMEOUT = {"quick": 600, "thorough": 1800}


def cases(tier, rng):
    out = []
    n = 10 if tier == "quick" else 100
    for i in range(n):
        out.append({"kind": "poles", "groups": 3 if tier == "quick" else 12, "sets": 16})
    for i in range(3 if tier == "quick" else 20):
        out.append({"kind": "conv", "n": 60 if tier == "quick" else 400})
    for i in range(3 if tier == "quick" else 16):
        out.append({"kind": "pad", "n": 12 if tier == "quick" else 60})
    out.append({"kind": "edge"})
    return out


# ------------------------------------------------------------------------------------------------
# oracle
# ------------------------------------------------------------------------------------------------
def chi_pole(spec, w):
    """3x3 complex susceptibility of one pole spec at angular frequency w (closed forms from the docstrings)."""
    import cmath

    import numpy as np

    out = np.zeros((3, 3), dtype=np.complex128)

    def scalar(par):
        k = spec["kind"]
        if k == "lorentz":
            w0, g, de = par
            if de == 0.0:
                return 0.0j
            return de * w0 * w0 / (w0 * w0 - w * w - 1j * g * w)
        if k == "drude":
            wp, g = par
            if wp == 0.0:
                return 0.0j
            return -(wp * wp) / (w * w + 1j * g * w)
        if k == "cp":
            A, phi, W, G = par
            return A * W * (cmath.exp(1j * phi) / (W - w - 1j * G) + cmath.exp(-1j * phi) / (W + w + 1j * G))
        if k == "ccpr":
            q, r = par
            q = complex(*q)
            r = complex(*r)
            return r / (-1j * w - q) + r.conjugate() / (-1j * w - q.conjugate())
        raise ValueError(k)

    if spec["axes"] == "oriented":
        u = np.asarray(spec["u"], dtype=float)
        u = u / np.linalg.norm(u)
        return scalar(spec["par"][0]) * np.outer(u, u)
    for ax in range(3):
        out[ax, ax] = scalar(spec["par"][ax if spec["axes"] == "per_axis" else 0])
    return out


def unified(spec, ax):
    """(w0, gamma, a, b) of the unified form (a - i w b)/(w0^2 - w^2 - i gamma w) for tolerance/conditioning only."""
    import cmath

    par = spec["par"][ax if spec["axes"] == "per_axis" else 0]
    k = spec["kind"]
    if k == "lorentz":
        w0, g, de = par
        return w0, g, de * w0 * w0, 0.0
    if k == "drude":
        wp, g = par
        return 0.0, g, wp * wp, 0.0
    if k == "cp":
        A, phi, W, G = par
        q = complex(-G, -W)
        r = 1j * A * W * cmath.exp(1j * phi)
    else:
        q = complex(*par[0])
        r = complex(*par[1])
    return abs(q), -2.0 * q.real, -2.0 * (r * q.conjugate()).real, 2.0 * r.real


def recon_tolerance(spec, ax, w, dt):
    """relative tolerance for the value rebuilt from float64 coefficients (analytic conditioning)."""
    import numpy as np

    eps = float(np.finfo(np.float64).eps)
    w0, g, a, b = unified(spec, ax)
    th = w * dt
    gd = g * dt
    D = 1.0 + 0.5 * gd
    den = (w0 * dt) ** 2 - th * th - 1j * gd * th
    num = a * dt * dt - 1j * th * b * dt
    if a == 0.0 and b == 0.0:
        return 1e-9
    if den == 0 or num == 0:
        return float("inf")
    cond = D * (2.0 + th * th + gd * th) / abs(den) + D * (abs(a) * dt * dt + 2.0 * abs(b) * dt) / abs(num) + D
    # frequencies far beyond the grid's Nyquist limit (w*dt >> 1) are still judged, but rebuilding chi from the
    # coefficients subtracts numbers of size (w*dt)^2 there (observed 1.4e-9 at w*dt = 30)
    return (1e-9 + 64.0 * eps * cond) * max(1.0, th * th)


# ------------------------------------------------------------------------------------------------
# generators
# ------------------------------------------------------------------------------------------------
def _theta0(rng):
    c = int(rng.integers(8))
    if c == 0:
        return 2.0**0.5, "sqrt2"
    if c == 1:
        return float(rng.choice([1.9999, 1.999999, 1.99])), "near2"
    if c == 2:
        return float(10.0 ** rng.uniform(-6, -3)), "tiny"
    if c <= 4:
        return float(rng.uniform(0.5, 1.95)), "coarse"
    return float(10.0 ** rng.uniform(-3, -0.3)), "resolved"


def _gdt(rng):
    c = int(rng.integers(8))
    if c == 0:
        return 0.0, "g=0"
    if c == 1:
        return 2.0, "gdt=2"
    if c == 2:
        return float(10.0 ** rng.uniform(1, 4.3)), "huge"
    if c == 3:
        return float(10.0 ** rng.uniform(-12, -6)), "tiny"
    return float(10.0 ** rng.uniform(-4, 0.5)), "normal"


def _make_spec(rng, dt, kind=None, axes=None):
    """JSON-able spec of one pole; parameters in rad/s built from dimensionless draws."""
    import numpy as np

    kind = kind or ["lorentz", "lorentz", "drude", "cp", "ccpr"][int(rng.integers(5))]
    axes = axes or ["iso", "iso", "per_axis", "oriented"][int(rng.integers(4))]
    tags = []

    def one(zero_ok):
        th0, t0 = _theta0(rng)
        gd, tg = _gdt(rng)
        tags.append(t0)
        tags.append(tg)
        if kind == "lorentz":
            de = float(rng.choice([1e-6, 0.3, 2.25, 11.7, 1e3])) * (1.0 if (axes == "oriented" or rng.random() < 0.8) else -1.0)
            if zero_ok and rng.random() < 0.3:
                de = 0.0
                th0 = float(rng.uniform(2.0, 50.0))  # inactive axis: unused resonance may violate the bound
                tags.append("zero_coupling_axis")
            return [th0 / dt, gd / dt, de]
        if kind == "drude":
            thp = float(10.0 ** rng.uniform(-3, 0.5))
            if zero_ok and rng.random() < 0.3:
                thp = 0.0
                tags.append("zero_coupling_axis")
            return [thp / dt, gd / dt]
        if kind == "cp":
            W = min(th0, 1.2)
            G = min(gd / 2.0, 1.5)
            return [float(rng.uniform(0.1, 5.0)), float(rng.uniform(-np.pi, np.pi)), W / dt, G / dt]
        # general CCPR pair: q = -G - iW, r complex
        W = min(th0, 1.2)
        G = min(gd / 2.0, 1.5)
        rr = float(rng.normal()) * W / dt if axes != "oriented" else 0.0  # oriented CCPR needs Re(r) = 0
        ri = float(rng.normal()) * W / dt
        if axes == "oriented":
            # K = -2 Re(r conj(q)) must be >= 0 for oriented poles: r = i*ri, q = -G - iW -> K = 2*ri*W
            ri = abs(ri)
        return [[-G / dt, -W / dt], [rr, ri]]

    if kind in ("cp",) and axes == "per_axis":
        axes = "iso"  # from_critical_point builds scalar poles only
    spec = {"kind": kind, "axes": axes}
    if axes == "per_axis":
        spec["par"] = [one(True), one(True), one(True)]
    else:
        spec["par"] = [one(False)]
    if axes == "oriented":
        c = int(rng.integers(4))
        if c == 0:
            u = [0.0, 0.0, 0.0]
            u[int(rng.integers(3))] = float(rng.choice([-1.0, 1.0, 5.0]))
            tags.append("u_axis_aligned")
        elif c == 1:
            u = [1e150, -1e150, 1e150]
            tags.append("u_huge")
        else:
            u = [float(x) for x in rng.normal(size=3)]
        spec["u"] = u
    spec["tags"] = sorted(set(tags))
    return spec


def _build_pole(spec):
    from fdtdx.dispersion import CCPRPole, DrudePole, LorentzPole

    k, ax = spec["kind"], spec["axes"]
    par = spec["par"]
    ori = tuple(spec["u"]) if ax == "oriented" else None

    def col(i):
        return tuple(p[i] for p in par) if ax == "per_axis" else par[0][i]

    if k == "lorentz":
        return LorentzPole(resonance_frequency=col(0), damping=col(1), delta_epsilon=col(2), orientation=ori)
    if k == "drude":
        return DrudePole(plasma_frequency=col(0), damping=col(1), orientation=ori)
    if k == "cp":
        A, phi, W, G = par[0]
        p = CCPRPole.from_critical_point(amplitude=A, phase=phi, resonance_frequency=W, damping=G)
        if ori is not None:
            p = CCPRPole(pole=p.pole, residue=p.residue, orientation=ori)
        return p
    if ax == "per_axis":
        return CCPRPole(pole=tuple(complex(*p[0]) for p in par), residue=tuple(complex(*p[1]) for p in par))
    return CCPRPole(pole=complex(*par[0][0]), residue=complex(*par[0][1]), orientation=ori)


def _omegas(rng, specs, dt):
    import numpy as np

    ws = [(float(10.0 ** rng.uniform(-4, 1)) / dt, "random") for _ in range(5)]
    ws.append((np.pi / dt, "nyquist"))
    ws.append((float(10.0 ** rng.uniform(-4, -2)) / dt, "low"))
    w0 = unified(specs[0], 0)[0]
    ws.append(((w0 if w0 > 0 else 1.0 / dt) * (1.0 + 1e-3), "near_resonance"))
    return ws


# ------------------------------------------------------------------------------------------------
def run_case(case):
    from vf import bootstrap
    from vf.result import Res

    bootstrap.ensure()
    from vf.oracles import xla_cache

    xla_cache.enable("c35")
    r = Res()
    {"poles": _poles, "conv": _conv, "pad": _pad, "edge": _edge}[case["kind"]](case, r)
    return r.to_dict()


def _cp_spec_ok(spec):
    """oriented critical-point poles with Re(r) != 0 are documented as unsupported (NotImplementedError)."""
    import cmath

    if spec["kind"] == "cp" and spec["axes"] == "oriented":
        A, phi, W, G = spec["par"][0]
        return (1j * A * W * cmath.exp(1j * phi)).real == 0.0
    return True


def _roots_ok(c1, c2, r, ctx):
    """Jury conditions on the stored values + direct roots."""
    import numpy as np

    r.count("root_checks")
    tol = 1e-12
    jury = (abs(c2) <= 1.0 + tol) and (abs(c1) <= 1.0 - c2 + tol)
    disc = c1 * c1 + 4.0 * c2
    if disc < 0:
        mags = [float(np.sqrt(max(-c2, 0.0)))] * 2
    else:
        s = float(np.sqrt(disc))
        # stable quadratic formula
        qq = 0.5 * (c1 + (s if c1 >= 0 else -s))
        z1 = qq
        z2 = (-c2 / qq) if qq != 0 else 0.0
        mags = [abs(z1), abs(z2)]
    direct = max(mags) <= 1.0 + 1e-7  # nearly double roots move by sqrt(eps) under coefficient rounding
    r.worst("max_root_modulus", max(mags))
    if jury and direct:
        r.ok(None)
        return True
    r.violate("recurrence root outside the unit circle", {**ctx, "c1": c1, "c2": c2, "root_moduli": mags, "jury": bool(jury)})
    return False


def _sig_of(specs, extra):
    kinds = "+".join(sorted(s["kind"] + ":" + s["axes"] for s in specs))
    tg = ",".join(sorted({t for s in specs for t in s["tags"]}))
    return f"{extra}|{kinds}|{tg}"


def _poles(case, r):
    import numpy as np

    from fdtdx.dispersion import (
        compute_pole_coefficients,
        compute_pole_coefficients_per_axis,
        compute_pole_coefficients_tensor,
        susceptibility_from_coefficients,
    )

    rng = np.random.default_rng(case["seed"])
    last = None
    for gi in range(case["groups"]):
        dt = float(10.0 ** rng.uniform(-18, -14.5))
        P = int(rng.integers(1, 4))
        sets = []
        while len(sets) < case["sets"]:
            specs = [_make_spec(rng, dt) for _ in range(P)]
            if all(_cp_spec_ok(s) for s in specs):
                sets.append(specs)
        # --- real code: coefficients of every set through every applicable entry point -------------
        per_axis, tensor, iso = [], [], []
        for specs in sets:
            poles = tuple(_build_pole(s) for s in specs)
            t = compute_pole_coefficients_tensor(poles, dt)
            tensor.append(t)
            if not any(s["axes"] == "oriented" for s in specs):
                per_axis.append(compute_pole_coefficients_per_axis(poles, dt))
                r.branch("entry:per_axis")
            else:
                per_axis.append(None)
                try:
                    compute_pole_coefficients_per_axis(poles, dt)
                except ValueError:
                    r.ok(None)
                    r.count("rejections")
                else:
                    r.violate("per-axis coefficients accepted an oriented pole", {"specs": specs, "dt": dt})
            if all(s["axes"] == "iso" for s in specs):
                iso.append(compute_pole_coefficients(poles, dt))
                r.branch("entry:isotropic")
            else:
                iso.append(None)
            r.branch("entry:tensor")
            for s in specs:
                r.branch(f"pole:{s['kind']}:{s['axes']}")
                for t_ in s["tags"]:
                    r.branch(f"class:{t_}")
        # --- (c) roots on every active (pole, axis) ----------------------------------------------------
        for si, specs in enumerate(sets):
            c1, c2, c3, c4 = tensor[si]
            for pi, s in enumerate(specs):
                for ax in range(3):
                    w0, g, a, b = unified(s, ax)
                    if a == 0.0 and b == 0.0:
                        continue
                    _roots_ok(float(c1[pi, ax]), float(c2[pi, ax]), r, {"spec": s, "dt": dt, "axis": ax})
        # --- (a) reconstruction: stack the sets into the trailing 'cell' axis as the simulation stores them ----
        N = len(sets)
        T1 = np.stack([t[0] for t in tensor], axis=-1)  # (P,3,N)
        T2 = np.stack([t[1] for t in tensor], axis=-1)
        T3 = np.stack([t[2] for t in tensor], axis=-1)  # (P,9,N)
        T4 = np.stack([t[3] for t in tensor], axis=-1)
        ws = _omegas(rng, sets[0], dt)
        for w, wtag in ws:
            got9 = np.asarray(_sfc(T1, T2, T3, w, dt, c4=T4))  # (9,N)
            if got9.shape != (9, N):
                r.violate("tensor reconstruction has wrong shape", {"shape": list(got9.shape), "want": [9, N]})
                continue
            for si, specs in enumerate(sets):
                want = sum(chi_pole(s, w) for s in specs)
                # elementwise tolerance: sum over poles of tol_p * |chi_p entry|
                tol = np.zeros((3, 3))
                finite = True
                for s in specs:
                    cp = np.abs(chi_pole(s, w))
                    for i in range(3):
                        tp = recon_tolerance(s, i if s["axes"] == "per_axis" else 0, w, dt)
                        if not np.isfinite(tp) or tp > 1e-6:
                            finite = False
                        tol[i, :] += (tp if np.isfinite(tp) else 0.0) * cp[i, :]
                if not finite:
                    r.count("recon_skipped_ill_conditioned")
                    continue
                g = got9[:, si].reshape(3, 3)
                _cmp(r, "tensor", g, want, tol, specs, dt, w, wtag)
                pa = per_axis[si]
                if pa is not None:
                    gd = np.asarray(_sfc(pa[0], pa[1], pa[2], w, dt, c4=pa[3]))
                    if gd.shape != (3,):
                        r.violate("per-axis reconstruction has wrong shape", {"shape": list(gd.shape)})
                    else:
                        _cmp(r, "per_axis", np.diag(gd), np.diag(np.diag(want)), tol, specs, dt, w, wtag)
                    if np.any(np.abs(want - np.diag(np.diag(want))) > 0):
                        r.violate("oracle inconsistency", {})
                isoc = iso[si]
                if isoc is not None:
                    gs = np.asarray(_sfc(isoc[0], isoc[1], isoc[2], w, dt, c4=isoc[3]))
                    _cmp(r, "isotropic", np.eye(3) * complex(gs), np.diag(np.diag(want)), tol, specs, dt, w, wtag)
                    # c4=None is documented as 'all zero' (Lorentz/Drude)
                    if all(s["kind"] in ("lorentz", "drude") for s in specs):
                        gs2 = np.asarray(_sfc(isoc[0], isoc[1], isoc[2], w, dt))
                        _cmp(r, "isotropic_c4None", np.eye(3) * complex(gs2), np.diag(np.diag(want)), tol, specs, dt, w, wtag)
        last = {"dt": dt, "poles_per_set": P, "example_set": sets[0], "omega": ws[0][0]}
    r.sample = last


_JIT = {}


def _sfc(c1, c2, c3, w, dt, c4=None):
    """the real susceptibility_from_coefficients under jax.jit (as the simulation calls it; one compilation per
    shape instead of one per primitive)."""
    import jax

    from fdtdx.dispersion import susceptibility_from_coefficients

    if "f" not in _JIT:
        _JIT["f"] = jax.jit(lambda a, b, c, w_, dt_, d: susceptibility_from_coefficients(a, b, c, w_, dt_, c4=d))
        _JIT["g"] = jax.jit(lambda a, b, c, w_, dt_: susceptibility_from_coefficients(a, b, c, w_, dt_))
    if c4 is None:
        return _JIT["g"](c1, c2, c3, w, dt)
    return _JIT["f"](c1, c2, c3, w, dt, c4)


def _cmp(r, entry, got, want, tol, specs, dt, w, wtag):
    import numpy as np

    r.count("recon_comparisons")
    err = np.abs(got - want)
    lim = tol + 1e-300
    with np.errstate(divide="ignore", invalid="ignore"):
        rel = np.where(np.abs(want) > 0, err / np.where(np.abs(want) > 0, np.abs(want), 1.0), 0.0)
    r.worst("worst_rel_err_recon", float(np.max(rel)))
    nontriv = bool(np.any(np.abs(want) > 0))
    if np.all(err <= lim) and np.all(np.isfinite(got)):
        r.ok(_sig_of(specs, f"recon:{entry}:{wtag}") if nontriv else None)
        return
    idx = np.unravel_index(int(np.argmax(np.nan_to_num(err - lim, nan=np.inf))), err.shape)
    r.violate(
        f"chi rebuilt from the stored coefficients ({entry}) != declared pole model",
        {
            "entry_point": entry,
            "specs": specs,
            "dt": dt,
            "omega": w,
            "omega_dt": w * dt,
            "component": [int(i) for i in idx],
            "got": [float(got[idx].real), float(got[idx].imag)],
            "want": [float(want[idx].real), float(want[idx].imag)],
            "tolerance_abs": float(lim[idx]),
        },
    )


# ---- (b) convergence of the recurrence's own response ---------------------------------------------
def _H(c1, c2, c3, c4, th):
    import cmath

    z = cmath.exp(-1j * th)
    return (c3 + c4 * z) / (z - c1 - c2 / z)


def _conv(case, r):
    import numpy as np

    from fdtdx.dispersion import compute_pole_coefficients, compute_pole_coefficients_per_axis

    rng = np.random.default_rng(case["seed"])
    last = None
    for i in range(case["n"]):
        kind = ["lorentz", "drude", "lorentz", "drude", "cp"][i % 5]
        scale = float(10.0 ** rng.uniform(13, 16.5))  # rad/s
        w = scale * float(10.0 ** rng.uniform(-1.5, 0))
        if kind == "lorentz":
            w0 = scale * float(10.0 ** rng.uniform(-1.5, 0))
            g = float(rng.choice([0.0, 1.0])) * scale * float(10.0 ** rng.uniform(-3, 0))
            spec = {"kind": kind, "axes": "iso", "par": [[w0, g, float(rng.uniform(0.1, 12))]], "tags": ["g=0" if g == 0 else "g>0"]}
        elif kind == "drude":
            g = float(rng.choice([0.0, 1.0])) * scale * float(10.0 ** rng.uniform(-3, 0))
            spec = {"kind": kind, "axes": "iso", "par": [[scale * float(rng.uniform(0.1, 3)), g]], "tags": ["g=0" if g == 0 else "g>0"]}
        else:
            W = scale * float(10.0 ** rng.uniform(-1.5, 0))
            G = scale * float(10.0 ** rng.uniform(-3, -0.3))
            spec = {"kind": kind, "axes": "iso", "par": [[float(rng.uniform(0.2, 4)), float(rng.uniform(-3, 3)), W, G]], "tags": ["g>0"]}
        w0u, gu, a, b = unified(spec, 0)
        den = w0u * w0u - w * w - 1j * gu * w
        if abs(den) < 0.1 * max(w * w, w0u * w0u):
            r.count("convergence_skipped_near_resonance")
            continue
        lam = max(w, w0u, gu)
        dt0 = float(rng.uniform(0.01, 0.05)) / lam
        want = chi_pole(spec, w)[0, 0]
        errs = []
        pole = _build_pole(spec)
        use_axis = bool(i % 2)
        for dt in (dt0, dt0 / 2, dt0 / 4):
            if use_axis:
                c = compute_pole_coefficients_per_axis((pole,), dt)
                c1, c2, c3, c4 = (float(x[0, 1]) for x in c)
            else:
                c = compute_pole_coefficients((pole,), dt)
                c1, c2, c3, c4 = (float(x[0]) for x in c)
            errs.append(abs(_H(c1, c2, c3, c4, w * dt) - want) / abs(want))
        r.count("convergence_checks")
        ctx = {"spec": spec, "omega": w, "dt": dt0, "rel_errors_dt_dt/2_dt/4": errs, "L_dt": lam * dt0}
        r.worst("worst_rel_err_response_over_(Ldt)^2" if kind != "cp" else "worst_rel_err_response_over_Ldt_cp", errs[0] / ((lam * dt0) ** 2 if kind != "cp" else lam * dt0))
        if kind != "cp":
            good = errs[0] <= 3.0 * (lam * dt0) ** 2 + 1e-9
            for e_hi, e_lo in ((errs[0], errs[1]), (errs[1], errs[2])):
                if e_lo > 1e-9:
                    ratio = e_hi / e_lo
                    r.worst("max_|ratio-4|", abs(ratio - 4.0))
                    good = good and 3.5 <= ratio <= 4.5
            what = "recurrence response does not approach the pole model at second order in w*dt"
        else:
            good = errs[0] <= 10.0 * lam * dt0 + 1e-9 and errs[2] < errs[0]
            what = "critical-point recurrence response does not approach the pole model as dt -> 0"
        if good:
            r.ok(f"conv:{kind}:{spec['tags'][0]}:{'axis' if use_axis else 'iso'}:w/w0={'lt' if w < w0u else 'gt'}:{int(np.log10(lam * dt0) * 4)}")
        else:
            r.violate(what, ctx)
        r.branch(f"conv:{kind}")
        last = ctx
    r.sample = last


# ---- (d) zero padded slots ---------------------------------------------------------------------------
def _pad(case, r):
    import numpy as np

    from fdtdx.dispersion import DispersionModel, susceptibility_from_coefficients
    from fdtdx.materials import Material, compute_allowed_dispersive_coefficients, compute_max_dispersive_poles

    rng = np.random.default_rng(case["seed"])
    last = None
    for it in range(case["n"]):
        dt = float(10.0 ** rng.uniform(-18, -15))
        cls = ["iso", "per_axis", "oriented"][it % 3]
        nm = int(rng.integers(2, 6))
        eps = rng.permutation(np.arange(1, nm + 1)).astype(float) + rng.uniform(0, 0.5, size=nm)
        mats, specs_by = {}, {}
        for m in range(nm):
            npoles = int(rng.integers(0, 4))
            if m == 0:
                npoles = 0
            specs = []
            while len(specs) < npoles:
                ax = "iso" if cls == "iso" else ["iso", "per_axis", "oriented"][int(rng.integers(2 if cls == "per_axis" else 3))]
                s = _make_spec(rng, dt, axes=ax)
                if _cp_spec_ok(s) and (cls != "iso" or s["axes"] == "iso"):
                    specs.append(s)
            name = f"m{m}"
            disp = None
            if npoles > 0 or rng.random() < 0.3:
                disp = DispersionModel(poles=tuple(_build_pole(s) for s in specs))
            mats[name] = Material(permittivity=float(eps[m]), dispersion=disp)
            specs_by[name] = specs
        order = sorted(mats, key=lambda n_: mats[n_].permittivity[0])  # documented: ascending permittivity
        maxp_want = max(len(v) for v in specs_by.values())
        maxp = compute_max_dispersive_poles(mats)
        if maxp != maxp_want:
            r.violate("compute_max_dispersive_poles wrong", {"got": maxp, "want": maxp_want})
            continue
        extra = int(rng.integers(0, 3))
        slots = maxp + extra
        has_or = any(s["axes"] == "oriented" for v in specs_by.values() for s in v)
        has_ax = any(s["axes"] != "iso" for v in specs_by.values() for s in v)
        ncomp = 3 if has_ax else int(rng.choice([1, 3]))
        ccomp = 9 if has_or else (ncomp if rng.random() < 0.5 else int(rng.choice([c for c in (1, 3, 9) if c >= ncomp])))
        c1, c2, c3, c4 = compute_allowed_dispersive_coefficients(mats, dt, slots, ncomp, ccomp)
        ctx = {"dt": dt, "materials": {n_: {"eps": mats[n_].permittivity[0], "poles": specs_by[n_]} for n_ in order}, "slots": slots, "num_components": ncomp, "coupling_components": ccomp}
        want_shapes = [(nm, slots, ncomp), (nm, slots, ncomp), (nm, slots, ccomp), (nm, slots, ccomp)]
        if [tuple(x.shape) for x in (c1, c2, c3, c4)] != want_shapes:
            r.violate("coefficient table has wrong shape", {**ctx, "got": [list(x.shape) for x in (c1, c2, c3, c4)]})
            continue
        w = float(10.0 ** rng.uniform(-3, 0.5)) / dt
        for row, name in enumerate(order):
            n_p = len(specs_by[name])
            r.count("padding_checks")
            pad_zero = all(np.all(x[row, n_p:] == 0.0) for x in (c1, c2, c3, c4))
            if not pad_zero:
                r.violate("a padded pole slot holds a non-zero coefficient", {**ctx, "material": name})
                continue
            if slots == 0:
                r.ok(None)
                continue
            full = np.asarray(_sfc(c1[row], c2[row], c3[row], w, dt, c4=c4[row]))
            if n_p == 0:
                if np.all(full == 0.0):
                    r.ok(f"pad:empty:{ncomp}/{ccomp}")
                else:
                    r.violate("zero-padded slots contribute a non-zero susceptibility", {**ctx, "material": name, "got": [[float(v.real), float(v.imag)] for v in np.ravel(full)]})
                continue
            own = np.asarray(_sfc(c1[row, :n_p], c2[row, :n_p], c3[row, :n_p], w, dt, c4=c4[row, :n_p]))
            # zero slots add exact zeros, but they may change the association of the float sum (1 ulp)
            if full.shape == own.shape and np.allclose(full, own, rtol=1e-13, atol=0.0):
                r.ok(f"pad:{cls}:{ncomp}/{ccomp}:pad={slots - n_p}")
            else:
                r.violate("zero-padded slots change the reconstructed susceptibility", {**ctx, "material": name, "omega": w, "with_padding": [[float(v.real), float(v.imag)] for v in np.ravel(full)], "without": [[float(v.real), float(v.imag)] for v in np.ravel(own)]})
                continue
            # and the row really is this material's model
            want = sum(chi_pole(s, w) for s in specs_by[name])
            tol = np.zeros((3, 3))
            okc = True
            for s in specs_by[name]:
                cp = np.abs(chi_pole(s, w))
                for i in range(3):
                    tp = recon_tolerance(s, i if s["axes"] == "per_axis" else 0, w, dt)
                    okc = okc and np.isfinite(tp) and tp <= 1e-6
                    tol[i, :] += (tp if np.isfinite(tp) else 0.0) * cp[i, :]
            if not okc:
                r.count("recon_skipped_ill_conditioned")
                continue
            if ccomp == 9:
                g = full.reshape(3, 3)
            elif ccomp == 3:
                g = np.diag(full)
            else:
                g = np.eye(3) * complex(np.ravel(full)[0])
            _cmp(r, f"table{ncomp}/{ccomp}", g, want, tol, specs_by[name], dt, w, "random")
        r.branch(f"pad:{cls}:c{ncomp}/{ccomp}")
        last = ctx
    r.sample = last


# ---- hand-picked edges ---------------------------------------------------------------------------------
def _edge(case, r):
    import numpy as np

    from fdtdx.dispersion import (
        DrudePole,
        LorentzPole,
        compute_pole_coefficients,
        compute_pole_coefficients_per_axis,
        compute_pole_coefficients_tensor,
        susceptibility_from_coefficients,
    )

    dt = 1e-17
    # documented rejection: w0*dt >= 2 on an active axis
    for th in (2.0, 2.0000001, 5.0, 1e3):
        for fn in (compute_pole_coefficients, compute_pole_coefficients_per_axis, compute_pole_coefficients_tensor):
            try:
                fn((LorentzPole(resonance_frequency=th / dt, damping=0.0, delta_epsilon=1.0),), dt)
            except ValueError:
                r.ok(f"edge:reject:{fn.__name__}")
                r.count("rejections")
            else:
                r.violate("w0*dt >= 2 accepted", {"w0dt": th, "fn": fn.__name__})
    # inactive axis is exempt, and contributes exactly nothing
    p = LorentzPole(resonance_frequency=(0.5 / dt, 30.0 / dt, 0.5 / dt), damping=(0.0, 1e20, 1e13), delta_epsilon=(2.0, 0.0, 1.0))
    c = compute_pole_coefficients_per_axis((p,), dt)
    chi = np.asarray(susceptibility_from_coefficients(c[0], c[1], c[2], 0.3 / dt, dt, c4=c[3]))
    if chi[1] == 0.0 and chi[0] != 0.0:
        r.ok("edge:inactive_axis")
    else:
        r.violate("inactive (zero-coupling) axis contributes to chi", {"chi": [[float(v.real), float(v.imag)] for v in chi]})
    # empty pole tuple
    for fn, shp in ((compute_pole_coefficients, (0,)), (compute_pole_coefficients_per_axis, (0, 3))):
        c = fn((), dt)
        if all(tuple(x.shape) == shp for x in c):
            r.ok("edge:empty")
        else:
            r.violate("empty pole tuple: wrong shapes", {"fn": fn.__name__, "shapes": [list(x.shape) for x in c]})
    # all-zero coefficient cells contribute exactly zero, mixed with live cells
    live = compute_pole_coefficients((DrudePole(plasma_frequency=1.0 / dt, damping=0.1 / dt),), dt)
    cells = [np.stack([np.asarray(x), np.zeros_like(x)], axis=-1) for x in live]  # (1, 2): cell 0 live, cell 1 empty
    chi = np.asarray(susceptibility_from_coefficients(cells[0], cells[1], cells[2], 0.2 / dt, dt, c4=cells[3]))
    r.count("padding_checks")
    if chi.shape == (2,) and chi[1] == 0.0 and chi[0] != 0.0:
        r.ok("edge:empty_cell")
    else:
        r.violate("cell with all-zero coefficients contributes to chi", {"chi": [[float(v.real), float(v.imag)] for v in np.ravel(chi)]})
    # undamped pole exactly on the unit circle, Drude root at z = 1
    for pole, tag in ((LorentzPole(resonance_frequency=1.9999999 / dt, damping=0.0, delta_epsilon=1.0), "lorentz_near2"), (DrudePole(plasma_frequency=1 / dt, damping=0.0), "drude_g0"), (DrudePole(plasma_frequency=1 / dt, damping=2.0 / dt), "drude_gdt2")):
        c = compute_pole_coefficients((pole,), dt)
        if _roots_ok(float(c[0][0]), float(c[1][0]), r, {"pole": tag}):
            r.sigs.add(f"edge:roots:{tag}")
    r.sample = {"dt": dt, "edges": "rejections, inactive axis, empty tuples, empty cells, unit-circle roots"}

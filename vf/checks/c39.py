"""C39 — material descriptions are normalised and classified consistently.

Real `fdtdx.Material` objects are built from seeded random / hostile values in every accepted spelling and judged
by a plain-python oracle:

(a) forms   : scalar s == (s,s,s) == 9-tuple diag(s) == nested diag(s); (a,b,c) == 9-tuple diag(a,b,c) == nested;
              9-tuple == nested 3x3 (row major) - for all four properties
(b) preds   : is_isotropic_* / is_diagonally_anisotropic_* / is_all_* (and is_magnetic / is_*_conductive) equal the
              predicate evaluated on the oracle's own 3x3 tensor; diagonal entries that differ by less than 1e-8
              relative (but are not equal) accept either answer
(c) order   : compute_ordered_names / _materials / _material_name_tuples, the twelve compute_allowed_* lists and the
              rows of compute_allowed_dispersive_coefficients all enumerate the materials in one common order
              (each material carries unique fingerprints in components that are not part of the sort key, so the
              material sitting at index i of every list can be identified), and that order is ascending in the
              documented key (eps_xx, mu_xx, sigma_xx, sigma_m_xx); dictionaries with ties and shuffled insertion
(d) complex : from_complex_permittivity(eps, reference) gives eps' + i*sigma/(w0*eps0) == eps and
              mu' + i*sigma_m/(w0*mu0) == mu component-wise for every input spelling and every way to state
              the reference; from_refractive_index / from_loss_tangent give n^2 and eps'(1 + i tan d)
"""

from __future__ import annotations

PROPERTY = "C39"
RULE = (
    "seeded materials over value classes {integers, zero, negative, 1e-30..1e30, diagonal entries equal / 1 ulp apart / "
    "1e-6 apart, off-diagonals zero / tiny / signed zero} x spellings {scalar, 3-tuple, 9-tuple, nested}; dictionaries "
    "of 1-7 materials with exact key ties, shuffled insertion order; complex tensors with loss, gain and Hermitian "
    "off-diagonals at references given as wavelength / frequency / WaveCharacter(period|wavelength|frequency). "
    "A signature is (sub-check, property, spelling, value class); comparisons of all-default values are trivial."
)
REQUIRED_COUNTERS = ["form_checks", "predicate_checks", "order_checks", "complex_checks"]
ASSUMPTIONS = [
    "3-tuples containing ints (documented as 'tuple of 3 floats') are rejected with ValueError by fdtdx; that "
    "rejection is accepted and counted, a silent mis-normalisation would be a violation",
    "vacuum constants are taken from fdtdx.constants after checking them against CODATA to 1e-8",
    "isotropy uses math.isclose semantics in fdtdx: differences below 1e-8 relative accept either verdict",
]
CASE_TIMEOUT = {"quick": 600, "thorough": 1800}

PROPS = ["permittivity", "permeability", "electric_conductivity", "magnetic_conductivity"]


def cases(tier, rng):
    n = 8 if tier == "quick" else 40
    out = []
    for i in range(n):
        out.append({"kind": "forms", "n": 120 if tier == "quick" else 500})
    for i in range(n):
        out.append({"kind": "order", "n": 60 if tier == "quick" else 300})
    for i in range(n):
        out.append({"kind": "complex", "n": 120 if tier == "quick" else 500})
    return out


def run_case(case):
    import warnings

    from vf import bootstrap
    from vf.result import Res

    bootstrap.ensure()
    r = Res()
    with warnings.catch_warnings():
        warnings.simplefilter("ignore")
        {"forms": _forms, "order": _order, "complex": _complex}[case["kind"]](case, r)
    return r.to_dict()


# ------------------------------------------------------------------------------------------------
def _val(rng, positive=False):
    """one hostile scalar, returned with its class tag"""
    c = int(rng.integers(9))
    if c == 0:
        v, t = float(rng.integers(1, 13)), "integer"
    elif c == 1:
        v, t = float(10.0 ** rng.uniform(-30, -10)), "tiny"
    elif c == 2:
        v, t = float(10.0 ** rng.uniform(10, 30)), "huge"
    elif c == 3 and not positive:
        v, t = 0.0, "zero"
    elif c == 4 and not positive:
        v, t = -float(rng.uniform(0.1, 20)), "negative"
    else:
        v, t = float(rng.uniform(1.0, 16.0)), "ordinary"
    return v, t


def _tensor(rng, prop):
    """random 3x3 (list of lists) for a property with a structure class"""
    import numpy as np

    positive = prop in ("permittivity", "permeability")
    c = int(rng.integers(8))
    a, ta = _val(rng, positive)
    m = [[0.0] * 3 for _ in range(3)]
    if c == 0:
        for i in range(3):
            m[i][i] = a
        return m, f"iso:{ta}"
    if c == 1:  # diagonal entries one ulp apart
        for i in range(3):
            m[i][i] = a
        m[1][1] = float(np.nextafter(a, np.inf))
        return m, "iso_1ulp"
    if c == 2:  # clearly different diagonal
        for i in range(3):
            m[i][i] = a * (1.0 + 1e-6 * i)
        return m, "diag_1e-6_apart" if a != 0 else "iso:zero"
    if c == 3:
        tags = []
        for i in range(3):
            m[i][i], t = _val(rng, positive)
            tags.append(t)
        return m, "diag:" + "/".join(sorted(set(tags)))
    if c == 4:  # tiny off-diagonal, must not count as diagonal
        for i in range(3):
            m[i][i] = a
        i, j = [(0, 1), (0, 2), (1, 0), (1, 2), (2, 0), (2, 1)][int(rng.integers(6))]
        m[i][j] = float(rng.choice([1e-300, -1e-30, 1e-12, 5e-324]))
        return m, f"offdiag_tiny[{i}{j}]"
    if c == 5:  # signed zeros off the diagonal are still diagonal
        for i in range(3):
            m[i][i] = a * (1 + i)
        m[0][1] = -0.0
        m[2][0] = -0.0
        return m, "offdiag_negzero"
    # full tensor
    for i in range(3):
        for j in range(3):
            m[i][j] = float(rng.normal()) * (0.3 if i != j else 1.0) + (3.0 if i == j else 0.0)
    if c == 6:
        for i in range(3):
            for j in range(i):
                m[i][j] = m[j][i]
        return m, "full_symmetric"
    return m, "full_general"


def _spellings(m):
    """all accepted spellings of tensor m -> {name: value}"""
    flat = tuple(m[i][j] for i in range(3) for j in range(3))
    nested = tuple(tuple(row) for row in m)
    out = {"flat9": flat, "nested": nested}
    offd = [m[i][j] for i in range(3) for j in range(3) if i != j]
    if all(v == 0.0 and str(v) == "0.0" for v in offd):
        out["tuple3"] = (m[0][0], m[1][1], m[2][2])
        if m[0][0] == m[1][1] == m[2][2]:
            out["scalar"] = m[0][0]
    return out


def _same(a, b):
    """exact equality of two 9-sequences, NaN-free values; 0.0 == -0.0 accepted"""
    return len(a) == len(b) == 9 and all(float(x) == float(y) for x, y in zip(a, b))


def _oracle_preds(flat):
    """(isotropic, diagonal, iso_ambiguous) from the 9 numbers"""
    off = [flat[i] for i in (1, 2, 3, 5, 6, 7)]
    diag = all(v == 0.0 for v in off)
    d = [flat[0], flat[4], flat[8]]
    equal = d[0] == d[1] == d[2]
    amb = False
    if not equal:
        mx = max(abs(x) for x in d)
        spread = max(d) - min(d)
        amb = mx > 0 and spread <= 1e-8 * mx
    return (diag and equal), diag, (diag and amb)


def _forms(case, r):
    import numpy as np

    from fdtdx.materials import Material

    rng = np.random.default_rng(case["seed"])
    last = None
    for it in range(case["n"]):
        tens = {}
        tags = {}
        for p in PROPS:
            if rng.random() < 0.6:
                tens[p], tags[p] = _tensor(rng, p)
        if not tens:
            tens["permittivity"], tags["permittivity"] = _tensor(rng, "permittivity")
        # (a) every spelling of one property (others left at their defaults) gives the same 9-tuple
        for p, m in tens.items():
            want = [float(m[i][j]) for i in range(3) for j in range(3)]
            for name, val in _spellings(m).items():
                r.count("form_checks")
                mat = Material(**{p: val})
                got = getattr(mat, p)
                ctx = {"property": p, "spelling": name, "input": _js(val), "got": _js(got), "want": want}
                if isinstance(got, tuple) and _same(got, want):
                    r.ok(f"form:{p}:{name}:{tags[p]}")
                else:
                    r.violate(f"{p} given as {name} does not normalise to the expected 9-tuple", ctx)
                # other properties keep their documented defaults
                for q in PROPS:
                    if q != p:
                        dflt = (1.0, 0, 0, 0, 1.0, 0, 0, 0, 1.0) if q in ("permittivity", "permeability") else (0.0,) * 9
                        if not _same(getattr(mat, q), dflt):
                            r.violate(f"setting {p} changed the default of {q}", {**ctx, "other": _js(getattr(mat, q))})
                last = ctx
            # integer spellings: scalar int is accepted; int 3-tuples may be rejected but never mis-normalised
            if "scalar" in _spellings(m) and float(m[0][0]).is_integer() and abs(m[0][0]) < 1e6:
                iv = int(m[0][0])
                for name, val in (("scalar_int", iv), ("tuple3_int", (iv, iv, iv)), ("flat9_int", (iv, 0, 0, 0, iv, 0, 0, 0, iv)), ("nested_int", ((iv, 0, 0), (0, iv, 0), (0, 0, iv)))):
                    r.count("form_checks")
                    try:
                        got = getattr(Material(**{p: val}), p)
                    except ValueError:
                        r.ok(None)
                        r.branch(f"rejected:{name}")
                        continue
                    if _same(got, want):
                        r.ok(f"form:{p}:{name}")
                    else:
                        r.violate(f"{p} given as {name} mis-normalised", {"property": p, "input": _js(val), "got": _js(got), "want": want})
        # malformed tuples must be rejected, not normalised into something
        for bad, name in (((1.0, 2.0), "len2"), ((1.0,) * 4, "len4"), (((1.0, 0.0), (0.0, 1.0), (0.0, 0.0)), "nested_3x2"), ((1.0,) * 8, "len8")):
            if it % 10 == 0:
                try:
                    Material(permittivity=bad)
                except (ValueError, TypeError, IndexError):
                    r.ok(f"form:reject:{name}")
                    r.count("rejections")
                else:
                    r.violate("malformed material tuple accepted", {"input": _js(bad)})
        # (b) predicates on a material with all chosen tensors at once
        mat = Material(**{p: tuple(tuple(row) for row in m) for p, m in tens.items()})
        short = {"permittivity": "permittivity", "permeability": "permeability", "electric_conductivity": "electric_conductivity", "magnetic_conductivity": "magnetic_conductivity"}
        all_iso, all_diag, any_amb = True, True, False
        for p in PROPS:
            flat = [float(v) for v in getattr(mat, p)]
            iso, diag, amb = _oracle_preds(flat)
            any_amb = any_amb or amb
            all_iso = all_iso and (iso or amb)
            all_diag = all_diag and diag
            gi = getattr(mat, f"is_isotropic_{short[p]}")
            gd = getattr(mat, f"is_diagonally_anisotropic_{short[p]}")
            r.count("predicate_checks", 2)
            tg = tags.get(p, "default")
            ctx = {"property": p, "tensor": flat, "class": tg}
            if amb or gi == iso:
                r.ok(f"pred:iso:{p}:{tg}:{iso}" if not amb else None)
                if amb:
                    r.branch("isotropy_ambiguous_band")
            else:
                r.violate(f"is_isotropic_{short[p]} disagrees with the normalised tensor", {**ctx, "got": bool(gi), "want": iso})
            if gd == diag:
                r.ok(f"pred:diag:{p}:{tg}:{diag}")
            else:
                r.violate(f"is_diagonally_anisotropic_{short[p]} disagrees with the normalised tensor", {**ctx, "got": bool(gd), "want": diag})
        r.count("predicate_checks", 2)
        ctx = {"tensors": {p: _js(getattr(mat, p)) for p in PROPS}}
        if any_amb:
            r.ok(None)
        elif mat.is_all_isotropic == all_iso:
            r.ok(f"pred:all_iso:{all_iso}")
        else:
            r.violate("is_all_isotropic disagrees with the per-property tensors", {**ctx, "got": bool(mat.is_all_isotropic), "want": all_iso})
        if mat.is_all_diagonally_anisotropic == all_diag:
            r.ok(f"pred:all_diag:{all_diag}")
        else:
            r.violate("is_all_diagonally_anisotropic disagrees with the per-property tensors", {**ctx, "got": bool(mat.is_all_diagonally_anisotropic), "want": all_diag})
        # activity predicates: exact (fdtdx uses isclose(x, const) which for 0.0 is exact; for 1.0 within 1e-9)
        mu = [float(v) for v in mat.permeability]
        ident = [1.0, 0, 0, 0, 1.0, 0, 0, 0, 1.0]
        mu_far = any(abs(a - b) > 1e-8 * max(1.0, abs(b)) for a, b in zip(mu, ident))
        mu_eq = all(a == b for a, b in zip(mu, ident))
        r.count("predicate_checks", 3)
        if (mu_far and mat.is_magnetic) or (mu_eq and not mat.is_magnetic) or (not mu_far and not mu_eq):
            r.ok(f"pred:magnetic:{bool(mat.is_magnetic)}")
        else:
            r.violate("is_magnetic disagrees with the permeability tensor", {"permeability": mu, "got": bool(mat.is_magnetic)})
        for p, attr in (("electric_conductivity", "is_electrically_conductive"), ("magnetic_conductivity", "is_magnetically_conductive")):
            want = any(float(v) != 0.0 for v in getattr(mat, p))
            if getattr(mat, attr) == want:
                r.ok(f"pred:{attr}:{want}")
            else:
                r.violate(f"{attr} disagrees with the tensor", {p: _js(getattr(mat, p)), "got": bool(getattr(mat, attr)), "want": want})
        for p in tens:
            r.branch(f"class:{tags[p].split('[')[0].split(':')[0]}")
    r.sample = last


def _js(v):
    if isinstance(v, (tuple, list)):
        return [_js(x) for x in v]
    if isinstance(v, complex):
        return [v.real, v.imag]
    return v


# ---- (c) one common order ------------------------------------------------------------------------------
def _order(case, r):
    import numpy as np

    from fdtdx import materials as M
    from fdtdx.dispersion import DispersionModel, LorentzPole

    rng = np.random.default_rng(case["seed"])
    last = None
    for it in range(case["n"]):
        nm = int(rng.integers(1, 8))
        style = ["distinct", "tie_eps", "tie_all", "tie_pairs"][it % 4]
        keys = []
        for m in range(nm):
            if style == "distinct" or m == 0:
                k = [float(rng.integers(1, 6)), float(rng.integers(1, 3)), float(rng.integers(0, 3)), float(rng.integers(0, 2))]
            elif style == "tie_eps":
                k = [keys[0][0], float(rng.integers(1, 4)), float(rng.integers(0, 3)), float(rng.integers(0, 3))]
            elif style == "tie_all":
                k = list(keys[0])
            else:
                k = list(keys[int(rng.integers(len(keys)))]) if rng.random() < 0.6 else [float(rng.integers(1, 6)), 1.0, 0.0, 0.0]
            keys.append(k)
        with_disp = bool(it % 2)
        names = [f"mat_{chr(97 + int(i))}" for i in rng.permutation(nm)]
        mats = {}
        finger = {}
        for m in rng.permutation(nm):
            m = int(m)
            f = 100.0 + m  # unique fingerprint outside the sort key (yy / zz / off-diagonal components)
            k = keys[m]
            full = bool(rng.random() < 0.4)
            off = 0.25 if full else 0.0
            kw = dict(
                permittivity=(k[0], off, 0.0, off, f, 0.0, 0.0, 0.0, f + 0.5),
                permeability=(k[1], 0.0, off, 0.0, f + 1000, 0.0, off, 0.0, f + 1000.5),
                electric_conductivity=(k[2], 0.0, 0.0, 0.0, f + 2000, off, 0.0, off, f + 2000.5),
                magnetic_conductivity=(k[3], off, 0.0, off, f + 3000, 0.0, 0.0, 0.0, f + 3000.5),
            )
            if with_disp and rng.random() < 0.7:
                # pole strength is the fingerprint: c3 = K dt^2 (gamma = 0)
                kw["dispersion"] = DispersionModel(poles=(LorentzPole(resonance_frequency=1e15, damping=0.0, delta_epsilon=float(m + 1)),))
            mats[names[m]] = M.Material(**kw)
            finger[names[m]] = f
        r.count("order_checks")
        ctx = {"materials": {n_: {"key": keys[names.index(n_)], "fingerprint": finger[n_]} for n_ in mats}, "insertion_order": list(mats), "style": style}
        order = M.compute_ordered_names(mats)
        if sorted(order) != sorted(mats):
            r.violate("compute_ordered_names is not a permutation of the material names", {**ctx, "got": order})
            continue
        skey = lambda n_: tuple(keys[names.index(n_)])  # noqa: E731
        if any(skey(order[i]) > skey(order[i + 1]) for i in range(len(order) - 1)):
            r.violate("material order is not ascending in (eps_xx, mu_xx, sigma_xx, sigma_m_xx)", {**ctx, "order": order})
        else:
            r.ok(None)
        want_f = [finger[n_] for n_ in order]
        bad = []

        def expect(label, got_f):
            r.count("order_checks")
            if list(got_f) != list(want_f_shift(label)):
                bad.append({"list": label, "material_fingerprints_in_list_order": [float(x) for x in got_f], "expected": [float(x) for x in want_f_shift(label)]})

        def want_f_shift(label):
            sh = {"permittivity": 0, "permeability": 1000, "electric_conductivity": 2000, "magnetic_conductivity": 3000}
            for p, s in sh.items():
                if label.startswith(p):
                    return [x + s for x in want_f]
            return want_f

        tup = M.compute_ordered_material_name_tuples(mats)
        expect("name_tuples.names", [finger[t[0]] for t in tup])
        expect("name_tuples.materials", [t[1].permittivity[4] for t in tup])
        expect("ordered_materials", [m_.permittivity[4] for m_ in M.compute_ordered_materials(mats)])
        if any(t[1] is not mats[t[0]] for t in tup):
            bad.append({"list": "name_tuples", "problem": "name paired with a different material object"})
        fns = {
            "permittivity": M.compute_allowed_permittivities,
            "permeability": M.compute_allowed_permeabilities,
            "electric_conductivity": M.compute_allowed_electric_conductivities,
            "magnetic_conductivity": M.compute_allowed_magnetic_conductivities,
        }
        for p, fn in fns.items():
            full_l = fn(mats)
            diag_l = fn(mats, diagonally_anisotropic=True)
            iso_l = fn(mats, isotropic=True)
            expect(f"{p}:full", [t[4] for t in full_l])
            expect(f"{p}:diag", [t[1] for t in diag_l])
            # projections carry the right components of the material at that index
            for i, n_ in enumerate(order):
                src = getattr(mats[n_], p)
                r.count("order_checks")
                if tuple(full_l[i]) != tuple(src) or tuple(diag_l[i]) != (src[0], src[4], src[8]) or tuple(iso_l[i]) != (src[0],):
                    bad.append({"list": p, "index": i, "material": n_, "full": _js(full_l[i]), "diag": _js(diag_l[i]), "iso": _js(iso_l[i]), "material_value": _js(src)})
        if with_disp:
            dt = 1e-17
            c1, c2, c3, c4 = M.compute_allowed_dispersive_coefficients(mats, dt, M.compute_max_dispersive_poles(mats) + 1, 1)
            for i, n_ in enumerate(order):
                r.count("order_checks")
                d = mats[n_].dispersion
                want_c3 = 0.0 if d is None else d.poles[0].delta_epsilon * (1e15 * dt) ** 2
                if abs(float(c3[i, 0, 0]) - want_c3) > 1e-12 * max(want_c3, 1e-30):
                    bad.append({"list": "dispersive_coefficients", "row": i, "material": n_, "c3": float(c3[i, 0, 0]), "want_c3": want_c3})
        if bad:
            r.violate("per-property material lists do not share one material order", {**ctx, "order": order, "mismatches": bad[:4]})
        else:
            ties = len({tuple(k) for k in keys}) < nm
            r.ok(f"order:{style}:n={nm}:ties={ties}:disp={with_disp}")
        r.branch(f"order:{style}")
        last = {**ctx, "order": order}
    r.sample = last


# ---- (d) complex permittivity at the reference frequency -----------------------------------------------
def _complex(case, r):
    import math

    import numpy as np

    from fdtdx import constants
    from fdtdx.core.wavelength import WaveCharacter
    from fdtdx.materials import Material

    # the constants the simulation uses must be the physical ones
    for name, val, ref in (("c", constants.c, 299792458.0), ("mu0", constants.mu0, 1.25663706212e-6), ("eps0", constants.eps0, 8.8541878128e-12)):
        if abs(val - ref) > 1e-8 * ref:
            r.violate("vacuum constant differs from CODATA", {"name": name, "got": val, "want": ref})
    rng = np.random.default_rng(case["seed"])
    last = None
    for it in range(case["n"]):
        how = ["wavelength", "frequency", "wc_period", "wc_wavelength", "wc_frequency"][it % 5]
        lam = float(10.0 ** rng.uniform(-8, -1))
        f0 = 299792458.0 / lam
        if how == "wavelength":
            kw = {"wavelength": lam}
        elif how == "frequency":
            kw = {"frequency": f0}
        elif how == "wc_period":
            kw = {"reference": WaveCharacter(period=1.0 / f0)}
        elif how == "wc_wavelength":
            kw = {"reference": WaveCharacter(wavelength=lam)}
        else:
            kw = {"reference": WaveCharacter(frequency=f0)}
        w0 = 2.0 * math.pi * f0
        form = ["scalar", "tuple3", "flat9", "nested", "scalar_real", "hermitian"][int(rng.integers(6))]

        def cval(loss_sign=1.0):
            re = float(rng.uniform(1.0, 16.0)) * float(rng.choice([1.0, 1.0, -1.0]))
            im = loss_sign * float(10.0 ** rng.uniform(-8, 2)) * float(rng.choice([1.0, 1.0, 1.0, -1.0, 0.0]))
            return complex(re, im)

        if form == "scalar":
            e = cval()
            eps_in, eps_m = e, [[e if i == j else 0j for j in range(3)] for i in range(3)]
        elif form == "scalar_real":
            e = float(rng.uniform(1, 12))
            eps_in, eps_m = e, [[complex(e) if i == j else 0j for j in range(3)] for i in range(3)]
        elif form == "tuple3":
            d = [cval() for _ in range(3)]
            eps_in, eps_m = tuple(d), [[d[i] if i == j else 0j for j in range(3)] for i in range(3)]
        else:
            mm = [[(cval() + 4.0 if i == j else complex(float(rng.normal()) * 0.2, float(rng.normal()) * 0.1)) for j in range(3)] for i in range(3)]
            if form == "hermitian":
                for i in range(3):
                    mm[i][i] = complex(abs(mm[i][i].real) + 2.0, 0.0)
                    for j in range(i):
                        mm[i][j] = mm[j][i].conjugate()
            eps_m = mm
            eps_in = tuple(mm[i][j] for i in range(3) for j in range(3)) if form == "flat9" else tuple(tuple(row) for row in mm)
        with_mu = bool(rng.random() < 0.4)
        mu_m = None
        extra = {}
        if with_mu:
            mu = cval()
            mu = complex(abs(mu.real), mu.imag)
            extra["permeability"] = mu
            mu_m = [[mu if i == j else 0j for j in range(3)] for i in range(3)]
        ctx = {"permittivity_in": _js(eps_in), "form": form, "reference": how, "wavelength": lam, "permeability_in": _js(extra.get("permeability"))}
        r.count("complex_checks")
        try:
            mat = Material.from_complex_permittivity(eps_in, **kw, **extra)
        except ValueError as e:
            re_m = np.array([[eps_m[i][j].real for j in range(3)] for i in range(3)])
            if abs(np.linalg.det(re_m)) < 1e-6 * max(1.0, np.abs(re_m).max() ** 3):
                r.ok(None)
                r.branch("complex:singular_real_part_rejected")
                continue
            r.violate(f"from_complex_permittivity rejected a regular tensor: {e}", ctx)
            continue
        ok = True
        worst = 0.0
        for (re_t, sg_t, vac, want_m, nm_) in (
            (mat.permittivity, mat.electric_conductivity, constants.eps0, eps_m, "permittivity"),
            (mat.permeability, mat.magnetic_conductivity, constants.mu0, mu_m, "permeability"),
        ):
            if want_m is None:
                want_m = [[complex(1.0) if i == j else 0j for j in range(3)] for i in range(3)]
            scale = max(abs(want_m[i][j]) for i in range(3) for j in range(3))
            for i in range(3):
                for j in range(3):
                    got = complex(float(re_t[3 * i + j]), float(sg_t[3 * i + j]) / (w0 * vac))
                    err = abs(got - want_m[i][j])
                    worst = max(worst, err / scale)
                    if err > 1e-9 * scale:
                        ok = False
                        r.violate(
                            f"material built from a complex {nm_} does not reproduce it at the reference frequency",
                            {**ctx, "component": [i, j], "got": [got.real, got.imag], "want": [want_m[i][j].real, want_m[i][j].imag], "omega0": w0},
                        )
        r.worst("worst_rel_err_complex_roundtrip", worst)
        if ok:
            r.ok(f"complex:{form}:{how}:mu={with_mu}")
        r.branch(f"complex:{form}")
        r.branch(f"reference:{how}")
        last = ctx
        # thin wrappers documented in terms of from_complex_permittivity
        if it % 3 == 0:
            n_c = complex(float(rng.uniform(1, 4)), float(rng.choice([0.0, 1.0])) * float(10.0 ** rng.uniform(-6, 0.5)))
            spell = n_c if it % 2 else (n_c, n_c * 1.1, n_c.conjugate())
            m2 = Material.from_refractive_index(spell, **kw)
            ns = [spell] * 3 if not isinstance(spell, tuple) else list(spell)
            good = True
            for i in range(3):
                got = complex(float(m2.permittivity[4 * i]), float(m2.electric_conductivity[4 * i]) / (w0 * constants.eps0))
                want = ns[i] ** 2
                good = good and abs(got - want) <= 1e-9 * abs(want)
            r.count("complex_checks")
            if good:
                r.ok(f"complex:refractive_index:{'tuple3' if isinstance(spell, tuple) else 'scalar'}")
            else:
                r.violate("from_refractive_index does not reproduce n^2 at the reference frequency", {"n": _js(spell), **{k: (v if not hasattr(v, 'get_frequency') else 'WaveCharacter') for k, v in kw.items()}})
            e_r = float(rng.uniform(1, 12))
            td = float(10.0 ** rng.uniform(-6, 0))
            m3 = Material.from_loss_tangent(e_r, td, **kw)
            got = complex(float(m3.permittivity[0]), float(m3.electric_conductivity[0]) / (w0 * constants.eps0))
            want = e_r * (1 + 1j * td)
            r.count("complex_checks")
            if abs(got - want) <= 1e-9 * abs(want):
                r.ok("complex:loss_tangent")
            else:
                r.violate("from_loss_tangent does not reproduce eps'(1 + i tan d)", {"eps": e_r, "tan_delta": td, "got": [got.real, got.imag]})
        if it % 25 == 0:
            for badkw in ({}, {"wavelength": lam, "frequency": f0}):
                try:
                    Material.from_complex_permittivity(2.0 + 0.1j, **badkw)
                except ValueError:
                    r.ok("complex:reference_arity_rejected")
                    r.count("rejections")
                else:
                    r.violate("from_complex_permittivity accepted zero / two reference specifications", {"kwargs": list(badkw)})
    r.sample = last

"""C31 — setups survive a JSON round trip.

A seeded generator draws a *setup specification* (pure python dict) from the kinds `JsonSetup.validate`
lists as serialisable: SimulationVolume, UniformMaterialObject, PerfectlyMatchedLayer, Uniform/Gaussian plane
sources with OnOffSwitch / SingleFrequencyProfile / GaussianPulseProfile / WaveCharacter, the seven
field/energy/flux/phasor detectors plus the three field-projection detectors, and all four constraint kinds
(Position, Size, SizeExtension, GridCoordinate) produced through the public helper methods.  The spec is turned
into (config, object_list, constraints) with the public constructors, exported with both documented routes

    JsonSetup(config, object_list, constraints, meta).dumps()  -> JsonSetup.loads()       (validated)
    export_json_str({"config", "object_list", "constraints"})  -> import_from_json()      (raw)

and *both* the original and the re-imported setup are handed to `place_objects` with the same key.
Oracle (the statement, nothing else): same number / order / type / name of placed objects, identical
grid slices, identical material arrays (inverse permittivity / permeability, conductivities, dispersive
coefficients), identical field and PML-auxiliary shapes and dtypes, identical detector-state layouts
(keys, shapes, dtypes), identical resolved grid, time step and step count.  If the original is rejected by
`place_objects`, the imported one must be rejected too (same exception type).
JSON text carries Python floats by shortest-repr, so equality is exact (`array_equal`).
"""

from __future__ import annotations

PROPERTY = "C31"
RULE = (
    "seeded random setups from the serialisable kinds: grid policy (uniform with/without centre, quasi-uniform, "
    "rectilinear uniform / non-uniform / float32 edges), dtype f32/f64, complex flag, courant, gradient config "
    "(none / checkpointed / reversible with recorder modules), volume by grid or real size, PML faces with default and "
    "custom profiles, 1-3 material boxes (scalar/diag/full tensors, conductive, magnetic, dispersive), 0-2 plane "
    "sources, 2-6 detectors, placed through every constraint helper; an evaluation is one compared attribute/array "
    "of one export route; distinct = (route, object kind, placement mode, grid kind) and (route, array class, grid kind, dtype)"
)
REQUIRED_COUNTERS = ["setups_placed", "slices_compared", "arrays_compared", "detector_layouts_compared"]
ASSUMPTIONS = [
    "both setups are placed with the same PRNG key",
    "ModePlaneSource / ModeOverlapDetector (external mode solver at placement/apply time) are not generated",
    "boundary kinds other than PerfectlyMatchedLayer are not in JsonSetup.validate's list and are not generated",
    "a spec that place_objects rejects must be rejected for the re-imported setup as well (counted as 'both_rejected')",
]
CASE_TIMEOUT = {"quick": 900, "thorough": 2400}

FACE_NAMES = ("min_x", "max_x", "min_y", "max_y", "min_z", "max_z")


def cases(tier, rng):
    n_cases, per = (8, 2) if tier == "quick" else (56, 8)
    return [{"kind": "setups", "n": per, "spec_seed": int(rng.integers(1 << 30)), "force": i % 8} for i in range(n_cases)]


# ------------------------------------------------------------------------------------------------
# specification generator (pure python / numpy)
# ------------------------------------------------------------------------------------------------
def _i(rng, lo, hi):
    return int(rng.integers(lo, hi + 1))


def _mat_spec(rng):
    import numpy as np

    k = _i(rng, 0, 7)
    m = {}
    if k == 0:
        m["permittivity"] = float(rng.uniform(1.0, 12.0))
    elif k == 1:
        m["permittivity"] = [float(x) for x in rng.uniform(1.0, 6.0, 3)]
    elif k == 2:
        a = rng.normal(size=(3, 3))
        t = a @ a.T / 3 + 2.0 * np.eye(3)
        m["permittivity"] = [[float(t[i, j]) for j in range(3)] for i in range(3)]
    elif k == 3:
        m["permittivity"] = float(rng.uniform(1.0, 4.0))
        m["electric_conductivity"] = float(10 ** rng.uniform(0, 5))
    elif k == 4:
        m["permittivity"] = float(rng.uniform(1.0, 4.0))
        m["permeability"] = [float(x) for x in rng.uniform(1.0, 3.0, 3)] if rng.random() < 0.5 else float(rng.uniform(1.0, 3.0))
        m["magnetic_conductivity"] = float(10 ** rng.uniform(0, 5))
    elif k == 5:
        m["permittivity"] = float(rng.uniform(1.5, 4.0))
        w = 2 * 3.141592653589793 * 299792458.0 / 1e-6
        if rng.random() < 0.5:
            m["dispersion"] = [{"kind": "lorentz", "w0": float(w * rng.uniform(0.5, 2)), "gamma": float(w * rng.uniform(0.01, 0.2)), "deps": float(rng.uniform(0.1, 1.0))}]
        else:
            m["dispersion"] = [{"kind": "drude", "wp": float(w * rng.uniform(0.1, 0.5)), "gamma": float(w * rng.uniform(0.01, 0.2))}]
    elif k == 6:
        # values whose decimal representation is long / tiny / huge
        m["permittivity"] = float(1.0 + rng.random() * 1e-9) if rng.random() < 0.5 else float(1.0 / 3.0 + 2.0)
        m["electric_conductivity"] = [float(x) for x in 10 ** rng.uniform(-12, 7, 3)]
    else:
        m["permittivity"] = [float(x) for x in rng.uniform(1.0, 6.0, 3)]
        m["permeability"] = float(rng.uniform(1.0, 2.0))
        m["electric_conductivity"] = float(10 ** rng.uniform(0, 4))
    return m


def _switch_spec(rng, T, dt, never_empty=False):
    # phasor-type detectors document that they reject a recording interval without any step
    k = _i(rng, 0, 3 if never_empty else 5)
    if k == 0:
        return None
    if k == 1:
        return {"interval": _i(rng, 2, 4)}
    if k == 2:
        return {"start_time": float(_i(rng, 1, T // 2) * dt), "end_time": float((_i(rng, T // 2, T) + 0.5) * dt)}
    if k == 3:
        return {"fixed_on_time_steps": sorted({int(x) for x in rng.integers(0, T, size=_i(rng, 1, 5))})}
    if k == 4:
        return {"start_after_periods": float(rng.uniform(0, 2)), "period": float(rng.uniform(2, 6) * dt), "on_for_periods": float(rng.uniform(1, 3))}
    return {"is_always_off": True}


def gen_spec(rng, force=0):
    import numpy as np

    spec = {}
    gk = ("uniform", "uniform_center", "quasi", "rect_uniform", "rect_nonuniform", "rect_f32", "uniform", "quasi")[force % 8]
    even = gk == "quasi"
    shape = [_i(rng, 4, 8) * 2 if even else _i(rng, 8, 16) for _ in range(3)]
    s = float(rng.choice([25e-9, 40e-9, 50e-9])) if rng.random() < 0.5 else float(rng.uniform(20e-9, 90e-9))
    g = {"kind": gk, "spacing": s}
    if gk == "uniform_center":
        g["center"] = [float(x) for x in rng.uniform(-1e-6, 1e-6, 3)]
    elif gk == "quasi":
        g["d"] = [float(s * rng.uniform(0.6, 1.6)) for _ in range(3)]
        if rng.random() < 0.3:
            g["center"] = [float(x) for x in rng.uniform(-1e-6, 1e-6, 3)]
    elif gk in ("rect_nonuniform", "rect_f32"):
        edges = []
        for n in shape:
            w = s * rng.uniform(0.6, 1.6, size=n) if gk == "rect_nonuniform" else np.full(n, s)
            e = np.concatenate([[0.0], np.cumsum(w)]) - 0.5 * float(np.sum(w))
            edges.append([float(x) for x in e])
        g["edges"] = edges
    spec["grid"] = g
    spec["shape"] = shape
    spec["dtype"] = "f64" if rng.random() < 0.5 else "f32"
    spec["complex"] = [None, None, True, False][_i(rng, 0, 3)]
    spec["courant"] = float(rng.choice([0.99, 0.9, 0.5]))
    T = _i(rng, 6, 40)
    spec["steps"] = T
    dmin = min(g["d"]) if gk == "quasi" else (s * 0.6 if gk == "rect_nonuniform" else s)
    dt = spec["courant"] / np.sqrt(3.0) * dmin / 299792458.0  # only used to size switch / time parameters
    dmax = max(g["d"]) if gk == "quasi" else (s * 1.6 if gk == "rect_nonuniform" else s)
    # at least T steps whatever the resolved CFL step turns out to be (fixed_on_time_steps index < T)
    spec["time"] = float((T + 0.3) * spec["courant"] / np.sqrt(3.0) * dmax / 299792458.0)
    spec["gradient"] = [None, None, "checkpointed", "reversible", "reversible_rec"][_i(rng, 0, 4)]
    real_ok = gk in ("uniform", "uniform_center", "rect_uniform")
    nonuni = gk in ("quasi", "rect_nonuniform")
    spec["nonuniform"] = nonuni
    spec["volume"] = {"by": "real" if (gk in ("uniform", "uniform_center") and rng.random() < 0.4) else "grid", "mat": _mat_spec(rng) if rng.random() < 0.4 else {"permittivity": 1.0}}
    if spec["gradient"] in ("reversible", "reversible_rec"):
        spec["volume"]["mat"].pop("dispersion", None)
    if rng.random() < 0.3:
        spec["volume"]["name"] = "the volume"

    # PML faces
    pml = []
    for ax in range(3):
        for side in ("min", "max"):
            if rng.random() < 0.45:
                tmax = max(2, min(4, (shape[ax] - 4) // 2))
                p = {"face": f"{side}_{'xyz'[ax]}", "thickness": _i(rng, 2, tmax)}
                if rng.random() < 0.35:
                    p["params"] = {k: float(v) for k, v in (("alpha_start", rng.uniform(0, 0.1)), ("kappa_end", rng.uniform(1, 5)), ("sigma_order", rng.uniform(2, 4)))}
                if real_ok and rng.random() < 0.3:
                    p["by"] = "real"
                pml.append(p)
    spec["pml"] = pml
    spec["use_boundary_config"] = bool(rng.random() < 0.15)

    # boxes
    boxes = []
    for b in range(_i(rng, 1, 3)):
        o = {"mat": _mat_spec(rng), "place": _place_spec(rng, shape, s, real_ok, n_prev=b, min_size=1, max_size=6, nonuniform=nonuni)}
        if spec["gradient"] in ("reversible", "reversible_rec"):
            o["mat"].pop("dispersion", None)  # documented: dispersive media need the checkpointed method
        if rng.random() < 0.6:
            o["name"] = ["Cube", "slab-1", "ü box", "b"][_i(rng, 0, 3)] + str(b)
        if rng.random() < 0.3:
            o["order"] = _i(rng, -3, 5)
        if rng.random() < 0.2:
            o["color"] = [float(x) for x in rng.random(3)]
        boxes.append(o)
    spec["boxes"] = boxes

    # sources
    srcs = []
    for k in range(_i(rng, 0, 2)):
        ax = _i(rng, 0, 2)
        lam = float(s * rng.uniform(8, 20))
        o = {"kind": "gaussian" if rng.random() < 0.5 else "uniform", "axis": ax, "direction": "+" if rng.random() < 0.5 else "-", "lam": lam}
        o["wc_by"] = ("wavelength", "frequency", "period")[_i(rng, 0, 2)]
        if rng.random() < 0.4:
            o["phase"] = float(rng.uniform(-3, 3))
        pol = [0.0, 0.0, 0.0]
        tr = [a for a in range(3) if a != ax]
        ang = float(rng.uniform(0, 6.28))
        pol[tr[0]], pol[tr[1]] = float(np.cos(ang)), float(np.sin(ang))
        o["pol"] = pol
        o["pol_field"] = "E" if rng.random() < 0.6 else "H"
        if o["kind"] == "gaussian":
            o["radius"] = float(s * rng.uniform(2, 5))
            if rng.random() < 0.5:
                o["std"] = float(rng.uniform(0.2, 0.6))
        else:
            o["amplitude"] = float(rng.uniform(0.1, 4))
        if rng.random() < 0.3:
            o["angles"] = [float(rng.uniform(-20, 20)), float(rng.uniform(-20, 20))]
        o["profile"] = (None, "cw", "pulse")[_i(rng, 0, 2)]
        o["switch"] = _switch_spec(rng, T, dt)
        o["factor"] = float(rng.uniform(0.5, 2))
        # plane position: grid coordinate along the axis, 2 cells away from both ends; transverse: full or centred
        o["pos"] = _i(rng, 2, shape[ax] - 3)
        o["pos_rel"] = float(rng.choice([-0.5, -0.25, 0.0, 0.25, 0.5]))
        o["transverse"] = ("full", "center_grid", "extend")[_i(rng, 0, 2)]
        o["tsize"] = [_i(rng, 2, max(2, shape[a] - 2)) for a in range(3)]
        srcs.append(o)
    spec["sources"] = srcs
    if srcs:
        # documented: plane sources inside anisotropic material are rejected
        for holder in [spec["volume"]] + boxes:
            for k in ("permittivity", "permeability", "electric_conductivity", "magnetic_conductivity"):
                v = holder["mat"].get(k)
                if isinstance(v, list):
                    holder["mat"][k] = float(v[0][0]) if isinstance(v[0], list) else float(v[0])

    # detectors
    dets = []
    kinds = ["field", "energy", "poynting", "phasor", "phasor_poynting", "closed_poynting", "closed_phasor_poynting", "proj_angle", "proj_cart", "proj_k"]
    must = [kinds[(force + 3 * q) % 10] for q in range(2)]
    n = _i(rng, 2, 6)
    chosen = must + [kinds[_i(rng, 0, 9)] for _ in range(max(0, n - 2))]
    for q, k in enumerate(chosen):
        o = {"kind": k, "switch": _switch_spec(rng, T, dt, never_empty=k not in ("field", "energy", "poynting", "closed_poynting")), "ddtype": ("default", "match")[_i(rng, 0, 1)]}
        if rng.random() < 0.7:
            o["name"] = f"det {q} {k}"
        if rng.random() < 0.3:
            o["exact"] = False
        if rng.random() < 0.15:
            o["inverse"] = True
        planar = k in ("poynting", "phasor_poynting", "proj_angle", "proj_cart", "proj_k")
        if planar:
            ax = _i(rng, 0, 2)
            if k in ("proj_cart", "proj_k"):
                ax = _i(rng, 0, 2)
                o["projection_axis"] = ax
            o["axis"] = ax
            o["direction"] = "+" if rng.random() < 0.5 else "-"
            o["place"] = _place_spec(rng, shape, s, real_ok, n_prev=len(boxes), min_size=2, max_size=8, plane_axis=ax, nonuniform=nonuni)
        elif k.startswith("closed"):
            o["place"] = _place_spec(rng, shape, s, real_ok, n_prev=len(boxes), min_size=2, max_size=6, nonuniform=nonuni)
            o["orientation"] = "outward" if rng.random() < 0.5 else "inward"
            if rng.random() < 0.3:
                o["axes"] = sorted({_i(rng, 0, 2) for _ in range(2)})
        else:
            o["place"] = _place_spec(rng, shape, s, real_ok, n_prev=len(boxes), min_size=1, max_size=8, allow_full=True, nonuniform=nonuni)
        if k == "field":
            o["reduce"] = bool(rng.random() < 0.4)
            if rng.random() < 0.4:
                o["components"] = [["Ex", "Ey", "Ez", "Hx", "Hy", "Hz"][c] for c in sorted({_i(rng, 0, 5) for _ in range(3)})]
        elif k == "energy":
            md = _i(rng, 0, 3)
            o["reduce"] = md == 1
            o["as_slices"] = md >= 2
            if md == 3:
                o["slice_pos"] = [float(x) for x in rng.uniform(-3, 3, 3) * s]
                o["aggregate"] = None if rng.random() < 0.5 else "mean"
        elif k == "poynting":
            o["reduce"] = bool(rng.random() < 0.6)
            if rng.random() < 0.3:
                o["fixed_axis"] = o["axis"]
        if k in ("phasor", "phasor_poynting", "closed_phasor_poynting", "proj_angle", "proj_cart", "proj_k"):
            o["wcs"] = [{"by": ("wavelength", "frequency", "period")[_i(rng, 0, 2)], "lam": float(s * rng.uniform(8, 20))} for _ in range(_i(rng, 1, 3))]
            o["wcs_container"] = "list" if rng.random() < 0.5 else "tuple"
            if rng.random() < 0.3:
                o["scaling_mode"] = "pulse"
            if rng.random() < 0.3:
                o["dft_subsample"] = 2 if rng.random() < 0.6 else "auto"
            if rng.random() < 0.3 and (o["switch"] is None or "interval" in o["switch"]):
                o["window"] = (
                    {"kind": "tukey", "start_time": float(-2 * dt), "end_time": float((T + 2) * dt), "alpha": float(rng.uniform(0.1, 0.9))}
                    if rng.random() < 0.5
                    else {"kind": "gaussian", "center_time": float(0.5 * T * dt), "sigma_time": float(0.2 * T * dt)}
                )
            if k == "phasor":
                o["reduce"] = bool(rng.random() < 0.3)
                if rng.random() < 0.4:
                    o["components"] = [["Ex", "Ey", "Ez", "Hx", "Hy", "Hz"][c] for c in sorted({_i(rng, 0, 5) for _ in range(3)})]
            if k.startswith("proj"):
                o["projection_distance"] = float(rng.uniform(0.5, 3.0))
                if rng.random() < 0.3:
                    o["far_field_approx"] = False
                    o["batch"] = _i(rng, 8, 64)
                if rng.random() < 0.3:
                    o["medium_index"] = float(rng.uniform(1, 2))
        dets.append(o)
    spec["detectors"] = dets
    spec["meta"] = {"seed": _i(rng, 0, 10**6), "note": "round trip"} if rng.random() < 0.5 else None
    return spec


def _place_spec(rng, shape, s, real_ok, n_prev, min_size, max_size, plane_axis=None, allow_full=False, nonuniform=False):
    """how an object gets its size and position; every mode maps onto one of the constraint helper methods.

    fdtdx documents that index-space placement (GridCoordinateConstraint, grid margins / grid offsets) is
    rejected on non-uniform grids, so those modes are only drawn for uniform spacings."""
    if nonuniform:
        modes = ["center", "relative_anchor", "relative_real_margin", "size_relative", "extend_rel"]
    else:
        modes = ["grid_coords", "center", "relative_margin", "relative_anchor", "size_relative", "extend", "extend_rel", "grid_coords_plus"]
    if allow_full:
        modes.append("same_as_volume")
    if real_ok:
        modes += ["center_real", "relative_real_margin"]
    mode = modes[_i(rng, 0, len(modes) - 1)]
    size = []
    for a in range(3):
        if plane_axis is not None and a == plane_axis:
            size.append(1)
        else:
            size.append(_i(rng, min(min_size, shape[a]), min(max_size, shape[a] - 2)))
    lo = [_i(rng, 1, shape[a] - size[a] - 1) for a in range(3)]
    p = {"mode": mode, "size": size, "lo": lo}
    if mode in ("relative_margin", "relative_real_margin", "relative_anchor", "extend_rel"):
        p["anchor"] = [int(rng.choice([-1, 0, 1])) for _ in range(3)]
        p["margin"] = float(s * rng.uniform(0.6, 1.4))
    if mode == "size_relative":
        p["prop"] = [float(rng.choice([0.25, 0.5, 0.75])) for _ in range(3)]
        p["grid_off"] = [0, 0, 0] if nonuniform else [_i(rng, -1, 1) for _ in range(3)]
        p["swap_axes"] = bool(rng.random() < 0.3)
    if mode in ("extend", "extend_rel"):
        p["ext_axis"] = _i(rng, 0, 2) if plane_axis is None else [a for a in range(3) if a != plane_axis][_i(rng, 0, 1)]
        p["ext_to"] = "volume_edge" if (rng.random() < 0.6 or nonuniform) else "volume_inner"
    if not nonuniform and rng.random() < 0.15:
        p["rand_grid_off"] = [_i(rng, 0, 1) for _ in range(3)]
    return p


# ------------------------------------------------------------------------------------------------
# spec -> fdtdx objects (public constructors and helper methods only)
# ------------------------------------------------------------------------------------------------
def build(spec):
    from vf import bootstrap

    fdtdx = bootstrap.ensure()
    import jax.numpy as jnp

    f64 = spec["dtype"] == "f64"
    rdt = jnp.float64 if f64 else jnp.float32
    cdt = jnp.complex128 if f64 else jnp.complex64
    g = spec["grid"]
    shape = tuple(spec["shape"])
    if g["kind"] == "uniform":
        grid = fdtdx.UniformGrid(spacing=g["spacing"])
    elif g["kind"] == "uniform_center":
        grid = fdtdx.UniformGrid(spacing=g["spacing"], center=tuple(g["center"]))
    elif g["kind"] == "quasi":
        kw = {"center": tuple(g["center"])} if "center" in g else {}
        grid = fdtdx.QuasiUniformGrid(dx=g["d"][0], dy=g["d"][1], dz=g["d"][2], **kw)
    elif g["kind"] == "rect_uniform":
        grid = fdtdx.RectilinearGrid.uniform(shape=shape, spacing=g["spacing"])
    else:
        edt = jnp.float32 if g["kind"] == "rect_f32" else jnp.float64
        ex, ey, ez = (jnp.asarray(e, dtype=edt) for e in g["edges"])
        grid = fdtdx.RectilinearGrid(x_edges=ex, y_edges=ey, z_edges=ez)
    grad = None
    if spec["gradient"] == "checkpointed":
        grad = fdtdx.GradientConfig(method="checkpointed", num_checkpoints=3)
    elif spec["gradient"] == "reversible":
        grad = fdtdx.GradientConfig(method="reversible", recorder=fdtdx.Recorder(modules=[]), num_checkpoints_reversible=1)
    elif spec["gradient"] == "reversible_rec":
        grad = fdtdx.GradientConfig(
            method="reversible",
            recorder=fdtdx.Recorder(modules=[fdtdx.LinearReconstructEveryK(k=2), fdtdx.DtypeConversion(dtype=jnp.float32)]),
        )
    config = fdtdx.SimulationConfig(
        time=spec["time"], grid=grid, backend="cpu", dtype=rdt, use_complex_fields=spec["complex"],
        courant_factor=spec["courant"], gradient_config=grad,
    )
    objs, cons, modes = [], [], {}
    v = spec["volume"]
    vkw = {"name": v["name"]} if "name" in v else {}
    if v["by"] == "real":
        volume = fdtdx.SimulationVolume(partial_real_shape=tuple(n * g["spacing"] for n in shape), material=_material(fdtdx, v["mat"]), **vkw)
    else:
        volume = fdtdx.SimulationVolume(partial_grid_shape=shape, material=_material(fdtdx, v["mat"]), **vkw)
    objs.append(volume)
    modes[volume.name] = "volume:" + v["by"]

    if spec.get("use_boundary_config") and spec["pml"]:
        kw = {}
        for f in FACE_NAMES:
            key = f.replace("_", "")
            p = [q for q in spec["pml"] if q["face"] == f]
            # BoundaryConfig has no "none": faces without a PML become PEC, which is not a serialisable kind,
            # so the helper is only used when all six faces are absorbing
            if not p:
                kw = None
                break
            kw[f"boundary_type_{key}"] = "pml"
            kw[f"thickness_grid_{key}"] = p[0]["thickness"]
        if kw is not None:
            bdict, clist = fdtdx.boundary_objects_from_config(fdtdx.BoundaryConfig(**kw), volume)
            objs += list(bdict.values())
            cons += list(clist)
            for b in bdict.values():
                modes[b.name] = "pml:boundary_config"
            spec = dict(spec)
            spec["pml"] = []
    for p in spec["pml"]:
        side, axn = p["face"].split("_")
        ax = "xyz".index(axn)
        d = "-" if side == "min" else "+"
        kw = dict(p.get("params", {}))
        if p.get("by") == "real":
            rs = [None, None, None]
            rs[ax] = p["thickness"] * g["spacing"]
            b = fdtdx.PerfectlyMatchedLayer(axis=ax, direction=d, partial_real_shape=tuple(rs), **kw)
        else:
            gs = [None, None, None]
            gs[ax] = p["thickness"]
            b = fdtdx.PerfectlyMatchedLayer(axis=ax, direction=d, partial_grid_shape=tuple(gs), **kw)
        other = [a for a in range(3) if a != ax]
        di = -1 if d == "-" else 1
        cons.append(b.place_relative_to(volume, axes=(ax, other[0], other[1]), own_positions=(di, 0, 0), other_positions=(di, 0, 0)))
        objs.append(b)
        modes[b.name] = "pml:" + p.get("by", "grid")

    placed_boxes = []
    for o in spec["boxes"]:
        kw = {}
        if "name" in o:
            kw["name"] = o["name"]
        if "order" in o:
            kw["placement_order"] = o["order"]
        if "color" in o:
            kw["color"] = tuple(o["color"])
        obj, cs = _place(fdtdx, spec, volume, placed_boxes, o["place"], lambda **k: fdtdx.UniformMaterialObject(material=_material(fdtdx, o["mat"]), **kw, **k))
        objs.append(obj)
        cons += cs
        placed_boxes.append(obj)
        modes[obj.name] = "box:" + o["place"]["mode"]

    for o in spec["sources"]:
        wc = _wc(fdtdx, o["wc_by"], o["lam"], o.get("phase"))
        kw = dict(wave_character=wc, direction=o["direction"], static_amplitude_factor=o["factor"])
        kw["fixed_E_polarization_vector" if o["pol_field"] == "E" else "fixed_H_polarization_vector"] = tuple(o["pol"])
        if o["profile"] == "cw":
            kw["temporal_profile"] = fdtdx.SingleFrequencyProfile(phase_shift=0.3, num_startup_periods=2)
        elif o["profile"] == "pulse":
            kw["temporal_profile"] = fdtdx.GaussianPulseProfile(
                spectral_width=fdtdx.WaveCharacter(wavelength=o["lam"] * 4), center_wave=fdtdx.WaveCharacter(wavelength=o["lam"])
            )
        if o["switch"]:
            kw["switch"] = fdtdx.OnOffSwitch(**o["switch"])
        if "angles" in o:
            kw["azimuth_angle"], kw["elevation_angle"] = o["angles"]
        ax = o["axis"]
        tr = [a for a in range(3) if a != ax]
        gs = [None, None, None]
        gs[ax] = 1
        if o["transverse"] == "center_grid":
            for a in tr:
                gs[a] = o["tsize"][a]
        if o["kind"] == "gaussian":
            extra = {"radius": o["radius"]}
            if "std" in o:
                extra["std"] = o["std"]
            src = fdtdx.GaussianPlaneSource(partial_grid_shape=tuple(gs), **extra, **kw)
        else:
            src = fdtdx.UniformPlaneSource(partial_grid_shape=tuple(gs), amplitude=o["amplitude"], **kw)
        if spec.get("nonuniform"):
            cons.append(src.place_relative_to(volume, axes=ax, own_positions=0, other_positions=o["pos_rel"]))
        else:
            cons.append(src.set_grid_coordinates(axes=ax, sides="-", coordinates=o["pos"]))
        if o["transverse"] == "full":
            cons.append(src.size_relative_to(volume, axes=tuple(tr)))
            cons.append(src.place_relative_to(volume, axes=tuple(tr), own_positions=(0, 0), other_positions=(0, 0)))
        elif o["transverse"] == "center_grid":
            cons.append(src.place_relative_to(volume, axes=tuple(tr), own_positions=(0, 0), other_positions=(0, 0)))
        else:
            for a in tr:
                cons.append(src.extend_to(None, a, "+"))
                cons.append(src.extend_to(None, a, "-"))
        objs.append(src)
        modes[src.name] = f"source:{o['kind']}:{o['transverse']}"

    for o in spec["detectors"]:
        k = o["kind"]
        kw = {}
        if "name" in o:
            kw["name"] = o["name"]
        if o["switch"]:
            kw["switch"] = fdtdx.OnOffSwitch(**o["switch"])
        if "exact" in o and not k.startswith("proj"):
            kw["exact_interpolation"] = o["exact"]
        if o.get("inverse"):
            kw["inverse"] = True
        match = o["ddtype"] == "match"
        if k in ("field", "energy", "poynting", "closed_poynting"):
            if match:
                kw["dtype"] = rdt
        else:
            if match:
                kw["dtype"] = cdt
            cont = list if o["wcs_container"] == "list" else tuple
            kw["wave_characters"] = cont(_wc(fdtdx, w["by"], w["lam"], None) for w in o["wcs"])
            for a, b in (("scaling_mode", "scaling_mode"), ("dft_subsample", "dft_subsample")):
                if a in o:
                    kw[b] = o[a]
            if "window" in o:
                w = dict(o["window"])
                wk = w.pop("kind")
                kw["apodization"] = fdtdx.TukeyWindow(**w) if wk == "tukey" else fdtdx.GaussianWindow(**w)
        if k == "field":
            ctor = lambda **q: fdtdx.FieldDetector(reduce_volume=o["reduce"], **({"components": tuple(o["components"])} if "components" in o else {}), **kw, **q)  # noqa: E731
        elif k == "energy":
            ekw = {"reduce_volume": o["reduce"], "as_slices": o["as_slices"]}
            if "slice_pos" in o:
                ekw.update(x_slice=o["slice_pos"][0], y_slice=o["slice_pos"][1], z_slice=o["slice_pos"][2], aggregate=o["aggregate"])
            ctor = lambda **q: fdtdx.EnergyDetector(**ekw, **kw, **q)  # noqa: E731
        elif k == "poynting":
            pkw = {"direction": o["direction"], "reduce_volume": o["reduce"]}
            if "fixed_axis" in o:
                pkw["fixed_propagation_axis"] = o["fixed_axis"]
            ctor = lambda **q: fdtdx.PoyntingFluxDetector(**pkw, **kw, **q)  # noqa: E731
        elif k == "phasor":
            ctor = lambda **q: fdtdx.PhasorDetector(reduce_volume=o["reduce"], **({"components": tuple(o["components"])} if "components" in o else {}), **kw, **q)  # noqa: E731
        elif k == "phasor_poynting":
            ctor = lambda **q: fdtdx.PhasorPoyntingFluxDetector(direction=o["direction"], **kw, **q)  # noqa: E731
        elif k == "closed_poynting":
            ctor = lambda **q: fdtdx.ClosedSurfacePoyntingFluxDetector(orientation=o["orientation"], **({"axes": tuple(o["axes"])} if "axes" in o else {}), **kw, **q)  # noqa: E731
        elif k == "closed_phasor_poynting":
            ctor = lambda **q: fdtdx.ClosedSurfacePhasorPoyntingFluxDetector(orientation=o["orientation"], **({"axes": tuple(o["axes"])} if "axes" in o else {}), **kw, **q)  # noqa: E731
        else:
            pkw = {"direction": o["direction"], "projection_distance": o["projection_distance"]}
            if "far_field_approx" in o:
                pkw["far_field_approx"] = o["far_field_approx"]
                pkw["exact_projection_batch_size"] = o["batch"]
            if "medium_index" in o:
                pkw["projection_medium_refractive_index"] = o["medium_index"]
            cls = {"proj_angle": "FieldProjectionAngleDetector", "proj_cart": "FieldProjectionCartesianDetector", "proj_k": "FieldProjectionKSpaceDetector"}[k]
            if k != "proj_angle":
                pkw["projection_axis"] = o["projection_axis"]
            ctor = lambda **q: getattr(fdtdx, cls)(**pkw, **kw, **q)  # noqa: E731
        obj, cs = _place(fdtdx, spec, volume, placed_boxes, o["place"], ctor)
        objs.append(obj)
        cons += cs
        modes[obj.name] = f"det:{k}:{o['place']['mode']}"
    return config, objs, cons, modes


def _wc(fdtdx, by, lam, phase):
    kw = {} if phase is None else {"phase_shift": phase}
    c = 299792458.0
    if by == "wavelength":
        return fdtdx.WaveCharacter(wavelength=lam, **kw)
    if by == "frequency":
        return fdtdx.WaveCharacter(frequency=c / lam, **kw)
    return fdtdx.WaveCharacter(period=lam / c, **kw)


def _material(fdtdx, m):
    kw = {}
    for k in ("permittivity", "permeability", "electric_conductivity", "magnetic_conductivity"):
        if k in m:
            v = m[k]
            if isinstance(v, list):
                v = tuple(tuple(r) for r in v) if isinstance(v[0], list) else tuple(v)
            kw[k] = v
    if "dispersion" in m:
        poles = []
        for p in m["dispersion"]:
            if p["kind"] == "lorentz":
                poles.append(fdtdx.LorentzPole(resonance_frequency=p["w0"], damping=p["gamma"], delta_epsilon=p["deps"]))
            else:
                poles.append(fdtdx.DrudePole(plasma_frequency=p["wp"], damping=p["gamma"]))
        kw["dispersion"] = fdtdx.DispersionModel(poles=tuple(poles))
    return fdtdx.Material(**kw)


def _place(fdtdx, spec, volume, boxes, p, ctor):
    """size + position through the helper that belongs to the placement mode."""
    mode, size, lo = p["mode"], p["size"], p["lo"]
    s = spec["grid"]["spacing"]
    kw = {}
    if "rand_grid_off" in p:
        kw["max_random_grid_offsets"] = tuple(p["rand_grid_off"])
    cs = []
    if mode == "grid_coords":
        o = ctor(partial_grid_shape=tuple(size), **kw)
        cs.append(o.set_grid_coordinates(axes=(0, 1, 2), sides=("-", "-", "-"), coordinates=tuple(lo)))
    elif mode == "grid_coords_plus":
        # mix of '+' sides and a size-less axis fixed by both sides
        o = ctor(partial_grid_shape=(size[0], size[1], None), **kw)
        cs.append(o.set_grid_coordinates(axes=(0, 1), sides=("+", "-"), coordinates=(lo[0] + size[0], lo[1])))
        cs.append(o.set_grid_coordinates(axes=(2, 2), sides=("-", "+"), coordinates=(lo[2], lo[2] + size[2])))
    elif mode == "center":
        o = ctor(partial_grid_shape=tuple(size), **kw)
        cs.append(o.place_at_center(volume))
    elif mode == "center_real":
        o = ctor(partial_real_shape=tuple(n * s for n in size), **kw)
        cs.append(o.place_at_center(volume))
    elif mode == "relative_anchor":
        o = ctor(partial_grid_shape=tuple(size), **kw)
        a = p["anchor"]
        cs.append(o.place_relative_to(volume, axes=(0, 1, 2), own_positions=tuple(a), other_positions=tuple(a)))
    elif mode == "relative_margin":
        o = ctor(partial_grid_shape=tuple(size), **kw)
        a = p["anchor"]
        cs.append(o.place_relative_to(volume, axes=(0, 1, 2), own_positions=tuple(a), other_positions=tuple(a), grid_margins=tuple(-x for x in a)))
    elif mode == "relative_real_margin":
        o = ctor(partial_grid_shape=tuple(size), **kw)
        a = p["anchor"]
        cs.append(o.place_relative_to(volume, axes=(0, 1, 2), own_positions=tuple(a), other_positions=tuple(a), margins=tuple(-x * p["margin"] for x in a)))
    elif mode == "size_relative":
        fixed = [a for a in range(3) if size[a] == 1]
        free = tuple(a for a in range(3) if a not in fixed)
        other_axes = (1, 2, 0) if p["swap_axes"] else (0, 1, 2)
        gs = [1 if a in fixed else None for a in range(3)]
        o = ctor(partial_grid_shape=tuple(gs), **kw) if fixed else ctor(**kw)
        cs.append(
            o.size_relative_to(
                volume, axes=free, other_axes=tuple(other_axes[a] for a in free),
                proportions=tuple(p["prop"][a] for a in free), grid_offsets=tuple(p["grid_off"][a] for a in free),
            )
        )
        cs.append(o.place_at_center(volume))
    elif mode in ("extend", "extend_rel"):
        ea = p["ext_axis"]
        gs = list(size)
        gs[ea] = None
        o = ctor(partial_grid_shape=tuple(gs), **kw)
        others = [a for a in range(3) if a != ea]
        if mode == "extend":
            cs.append(o.set_grid_coordinates(axes=tuple(others), sides=("-", "-"), coordinates=tuple(lo[a] for a in others)))
        else:
            an = tuple(p["anchor"][a] for a in others)
            cs.append(o.place_relative_to(volume, axes=tuple(others), own_positions=an, other_positions=an))
        if p["ext_to"] == "volume_edge":
            cs.append(o.extend_to(None, ea, "+"))
            cs.append(o.extend_to(None, ea, "-"))
        else:
            cs.append(o.extend_to(None, ea, "-"))
            cs.append(o.extend_to(volume, ea, "+", other_position=1.0, grid_offset=-1))
    elif mode == "same_as_volume":
        o = ctor(**kw)
        cs += list(o.same_position_and_size(volume))
    else:
        raise ValueError(mode)
    return o, cs


# ------------------------------------------------------------------------------------------------
# the check
# ------------------------------------------------------------------------------------------------
def run_case(case):
    import numpy as np

    from vf.result import Res

    r = Res()
    for j in range(case["n"]):
        rng = np.random.default_rng([case["spec_seed"], j])
        spec = gen_spec(rng, force=case.get("force", 0) + j)
        _one(r, spec, {"spec_seed": case["spec_seed"], "j": j, "force": case.get("force", 0)})
    return r.to_dict()


def _placement(fdtdx, config, objs, cons, key):
    try:
        return fdtdx.place_objects(object_list=objs, config=config, constraints=cons, key=key), None
    except Exception as e:  # noqa: BLE001 - a rejected setup is a legitimate outcome; it must be rejected on both sides
        return None, e


def _one(r, spec, ident):
    import jax
    import numpy as np

    from vf import bootstrap

    fdtdx = bootstrap.ensure()
    from fdtdx.conversion.json import JsonSetup, export_json_str, import_from_json

    wit = dict(ident)
    wit["spec"] = spec
    gk = spec["grid"]["kind"]
    config, objs, cons, modes = build(spec)
    r.branch("grid:" + gk)
    r.branch("dtype:" + spec["dtype"])
    r.branch("gradient:" + str(spec["gradient"]))
    for c in cons:
        r.branch("constraint:" + type(c).__name__)
    for o in objs:
        r.branch("object:" + type(o).__name__)
    key = jax.random.PRNGKey(int(ident["spec_seed"]) % 1000)

    # --- export / import through both documented routes ------------------------------------------
    imported = {}
    setup = JsonSetup(config=config, object_list=list(objs), constraints=list(cons), meta=spec.get("meta"))
    text = setup.dumps()
    back = JsonSetup.loads(text)
    imported["jsonsetup"] = (back.config, back.object_list, back.constraints)
    if spec.get("meta") and back.meta != spec["meta"]:
        r.count("meta_changed")  # not part of the statement; recorded only
    raw = export_json_str({"config": config, "object_list": list(objs), "constraints": list(cons)})
    d = import_from_json(raw)
    imported["raw"] = (d["config"], d["object_list"], d["constraints"])
    r.count("json_bytes", len(text))
    if back.dumps() != text:
        r.count("reexport_differs")  # observation only (fix-point of the exporter is not what C31 states)

    ref, ref_err = _placement(fdtdx, config, objs, cons, key)
    for route, (c2, o2, k2) in imported.items():
        w = dict(wit)
        w["route"] = route
        got, got_err = _placement(fdtdx, c2, o2, k2, key)
        if ref is None or got is None:
            if ref is None and got is None and type(ref_err) is type(got_err):
                r.ok(None)
                r.count("both_rejected")
                r.branch("rejected:" + type(ref_err).__name__)
                if r.counters.get("both_rejected", 0) <= 2:
                    r.count("note:" + _e(ref_err)[:150].replace("\n", " "), 1)
            else:
                r.violate(
                    f"{route}: placement outcome differs (original: {_e(ref_err)}; imported: {_e(got_err)})",
                    w, mechanism="roundtrip-placement-outcome",
                )
            continue
        r.count("setups_placed")
        # deterministic classifier for the one mechanism seen on the unchanged tree: the JSON array node has no
        # dtype, so float32 edge arrays of a RectilinearGrid come back as float64 (under x64) and coordinate ties
        # in centre/anchor placement resolve differently
        mech = None
        if _edge_dtypes(fdtdx, config) != _edge_dtypes(fdtdx, c2):
            mech = "json-array-dtype-not-preserved"
            r.branch("observed:grid-edge-dtype-changed-by-round-trip")
        _compare(r, ref, got, route, gk, spec, modes, w, mech)
    if r.sample is None and ref is not None:
        r.sample = {
            "grid": gk, "shape": spec["shape"], "dtype": spec["dtype"], "gradient": spec["gradient"],
            "objects": [f"{type(o).__name__}:{modes.get(o.name)}" for o in objs],
            "constraints": sorted({type(c).__name__ for c in cons}),
            "json_chars": len(text),
            "slices": {o.name: [list(t) for t in o.grid_slice_tuple] for o in ref[0].objects[:6]},
        }
    del np


def _edge_dtypes(fdtdx, config):
    import numpy as np

    g = config.grid
    if not isinstance(g, fdtdx.RectilinearGrid):
        return None
    return tuple(str(np.asarray(getattr(g, n)).dtype) for n in ("x_edges", "y_edges", "z_edges"))


def _e(e):
    return "placed" if e is None else f"{type(e).__name__}: {str(e)[:200]}"


def _compare(r, ref, got, route, gk, spec, modes, w, forced_mech=None):
    import numpy as np

    if forced_mech is not None:
        # route every verdict of this comparison through the classified mechanism
        class _R:
            def __getattr__(self, k):
                return getattr(r, k)

            def violate(self, what, witness=None, mechanism=None, sig=None):
                r.violate(what, witness, forced_mech, sig)

        return _compare(_R(), ref, got, route, gk, spec, modes, w, None)

    o1, a1, p1, c1, _ = ref
    o2, a2, p2, c2, _ = got
    l1, l2 = list(o1.objects), list(o2.objects)
    if len(l1) != len(l2):
        r.violate(f"{route}: {len(l2)} placed objects instead of {len(l1)}", w, mechanism="roundtrip-object-count")
        return
    for x, y in zip(l1, l2):
        md = modes.get(x.name, "?")
        sig = f"{route}|{type(x).__name__}|{md}|{gk}"
        r.count("slices_compared")
        if type(x) is not type(y) or x.name != y.name:
            r.violate(
                f"{route}: object {x.name!r} ({type(x).__name__}) came back as {y.name!r} ({type(y).__name__})",
                w, mechanism="roundtrip-object-identity", sig=sig,
            )
            continue
        if tuple(x.grid_slice_tuple) != tuple(y.grid_slice_tuple):
            ww = dict(w)
            ww.update({"object": x.name, "kind": type(x).__name__, "mode": md, "original": [list(t) for t in x.grid_slice_tuple], "imported": [list(t) for t in y.grid_slice_tuple]})
            r.violate(f"{route}: grid slice of {x.name!r} differs after the round trip", ww, mechanism="roundtrip-grid-slice:" + md.split(":")[0], sig=sig)
        else:
            r.ok(sig)
    # --- resolved grid / time discretisation --------------------------------------------------------
    for a in range(3):
        _eq(r, f"grid_edges{a}", np.asarray(c1.grid.edges(a)), np.asarray(c2.grid.edges(a)), route, gk, spec, w, "roundtrip-grid-edges", dtype_too=False)
    if c1.time_steps_total != c2.time_steps_total or float(c1.time_step_duration) != float(c2.time_step_duration):
        ww = dict(w)
        ww.update({"steps": [c1.time_steps_total, c2.time_steps_total], "dt": [float(c1.time_step_duration), float(c2.time_step_duration)]})
        r.violate(f"{route}: time discretisation differs after the round trip", ww, mechanism="roundtrip-time-discretisation")
    else:
        r.ok(f"{route}|time|{gk}")
    # --- material arrays -------------------------------------------------------------------------------
    for nm in ("inv_permittivities", "inv_permeabilities", "electric_conductivity", "magnetic_conductivity", "dispersive_c1", "dispersive_c2", "dispersive_c3", "dispersive_c4"):
        v1, v2 = getattr(a1, nm, None), getattr(a2, nm, None)
        if v1 is None or v2 is None:
            if (v1 is None) != (v2 is None):
                r.violate(f"{route}: material array {nm} present on one side only", w, mechanism="roundtrip-material-array:" + nm)
            continue
        r.count("arrays_compared")
        _eq(r, nm, np.asarray(v1), np.asarray(v2), route, gk, spec, w, "roundtrip-material-array:" + nm)
    # --- field arrays -------------------------------------------------------------------------------------
    f1 = {"E": a1.fields.E, "H": a1.fields.H}
    f2 = {"E": a2.fields.E, "H": a2.fields.H}
    for nm, dct1, dct2 in (("psi_E", a1.fields.psi_E, a2.fields.psi_E), ("psi_H", a1.fields.psi_H, a2.fields.psi_H)):
        if set(dct1) != set(dct2):
            r.violate(f"{route}: {nm} keys differ", {**w, "original": sorted(dct1), "imported": sorted(dct2)}, mechanism="roundtrip-field-layout")
            continue
        for k in dct1:
            for i in range(2):
                f1[f"{nm}/{k}/{i}"] = dct1[k][i]
                f2[f"{nm}/{k}/{i}"] = dct2[k][i]
    for nm in ("dispersive_P_curr", "dispersive_P_prev"):
        v1, v2 = getattr(a1.fields, nm, None), getattr(a2.fields, nm, None)
        if (v1 is None) != (v2 is None):
            r.violate(f"{route}: {nm} present on one side only", w, mechanism="roundtrip-field-layout")
        elif v1 is not None:
            f1[nm], f2[nm] = v1, v2
    for nm in f1:
        r.count("arrays_compared")
        _eq(r, nm.split("/")[0], np.asarray(f1[nm]), np.asarray(f2[nm]), route, gk, spec, w, "roundtrip-field-array")
    # --- detector state layouts ---------------------------------------------------------------------------
    d1, d2 = a1.detector_states, a2.detector_states
    if list(d1) != list(d2):
        r.violate(f"{route}: detector state names differ", {**w, "original": list(d1), "imported": list(d2)}, mechanism="roundtrip-detector-layout")
    else:
        for dn in d1:
            r.count("detector_layouts_compared")
            lay1 = {k: (tuple(v.shape), str(v.dtype)) for k, v in d1[dn].items()}
            lay2 = {k: (tuple(v.shape), str(v.dtype)) for k, v in d2[dn].items()}
            sig = f"{route}|layout|{modes.get(dn, '?')}|{spec['dtype']}"
            if lay1 != lay2:
                r.violate(
                    f"{route}: state layout of detector {dn!r} differs", {**w, "original": {k: list(map(str, v)) for k, v in lay1.items()}, "imported": {k: list(map(str, v)) for k, v in lay2.items()}},
                    mechanism="roundtrip-detector-layout", sig=sig,
                )
            else:
                r.ok(sig)
    # --- recording state / parameters -----------------------------------------------------------------
    if (a1.recording_state is None) != (a2.recording_state is None):
        r.violate(f"{route}: recording state present on one side only", w, mechanism="roundtrip-recording-state")
    if set(p1.keys()) != set(p2.keys()):
        r.violate(f"{route}: parameter containers differ", w, mechanism="roundtrip-params")


def _eq(r, name, x, y, route, gk, spec, w, mech, dtype_too=True):
    import numpy as np

    sig = f"{route}|{name}|{gk}|{spec['dtype']}|{x.shape[0] if x.ndim else 0}"
    if x.shape != y.shape or (dtype_too and x.dtype != y.dtype):
        r.violate(
            f"{route}: {name} is {y.shape}/{y.dtype} after the round trip, {x.shape}/{x.dtype} before",
            {**w, "array": name}, mechanism=mech, sig=sig,
        )
        return
    if np.array_equal(x, y, equal_nan=True):
        r.ok(sig)
        return
    diff = np.abs(x.astype(np.complex128) - y.astype(np.complex128))
    idx = np.unravel_index(int(np.argmax(diff)), diff.shape)
    r.worst("worst_abs_diff_" + name, float(diff.max()))
    r.violate(
        f"{route}: {name} differs after the round trip (max abs diff {float(diff.max()):.3e})",
        {**w, "array": name, "index": [int(i) for i in idx], "original": complex(x[idx]).real, "imported": complex(y[idx]).real},
        mechanism=mech, sig=sig,
    )

"""C24 — binary median filter and pillar discretisation match their definitions.

Median : `BinaryMedianFilterModule` output voxel == majority value of its (kx,ky,kz) box (all sizes odd) in the
         input extended by the configured `PaddingConfig`.  Oracle: numpy.pad (numpy's own per-axis semantics:
         axes in order, later axes overwrite corners) + sliding-window count > volume/2; repeated num_repeats times.
         Judged only when every padding width covers the kernel half-width (otherwise the neighbourhood leaves the
         configured padding and the definition is silent); the short-padding class is still run and must give a
         binary array of the same shape.
Pillars: `PillarDiscretization` output, per column along `axis`: (a) is an allowed column by the definition
         (background only as a suffix at the high-index end; at most one non-background material when
         single_polymer_columns), (b) its distance to the input column (recomputed in float64 from the documented
         metric) is minimal over ALL allowed columns enumerated from the definition; ties: any minimiser accepted.
"""

from __future__ import annotations

PROPERTY = "C24"
RULE = (
    "median: seeded (shape incl. size-1/2 axes, odd kernel per axis 1..7, per-edge padding mode in "
    "{constant0, constant1, edge, reflect, symmetric, wrap}, widths >= kernel half (judged) or shorter "
    "(shape/binary only), repeats 1..3, dtype) x designs (iid at several densities, checkerboard, stripes, single "
    "voxel, empty, full); sig = (kernel class, padding mode set, shape class, repeats) and only designs whose "
    "output differs from the input or whose border voxels depend on the padding count as non-trivial.  "
    "pillars: seeded (axis, column height 1..5, 2..4 materials, background choice, single_polymer, metric, dtype) "
    "x inputs (uniform in the 1/eps range, exactly allowed columns, exact midpoints = ties, forbidden columns "
    "with background below material, huge/negative values); sig = (axis, height, n materials, background index, "
    "single, metric, input class)"
)
REQUIRED_COUNTERS = ["median_judged", "pillar_calls_judged", "pillar_columns_judged"]
ASSUMPTIONS = [
    "padding semantics = numpy.pad applied axis by axis (x, then y, then z); constant pad values are 0/1",
    "median is judged only when each pad width >= (kernel-1)/2 on that edge",
    "pillar distance: euclidean = ||v - c||_2 ; permittivity_differences_plus_average_permittivity = "
    "mean|diff(v) - diff(c)| + |mean(v) - mean(c)| with c = 1/eps of the column's materials; height-1 columns use "
    "the euclidean metric (documented fallback)",
    "float64 inputs judged at rtol 1e-9 on the distance, float32 inputs at 1e-5",
]
CASE_TIMEOUT = {"quick": 600, "thorough": 1800}

INCLUDE_WRAP = True  # periodic padding is rare in practice; set False to leave the (defective) wrap mode out of the workload
MODES = ["constant0", "constant1", "edge", "reflect", "symmetric"] + (["wrap"] if INCLUDE_WRAP else ["edge"])
WRAP_KEY = "advanced-padding-wrap-sequential-edges"


def EXHAUSTIVE(tier):
    return False


def cases(tier, rng):
    quick = tier == "quick"
    out = []
    for i in range(8 if quick else 110):
        out.append({"kind": "median", "n_cfg": 12 if quick else 24, "n_arr": 5, "flavour": i % 4})
    for i in range(8 if quick else 110):
        out.append({"kind": "pillar", "n_cfg": 9 if quick else 18, "n_arr": 4, "flavour": i % 4})
    return out


# ------------------------------------------------------------------------------------------------
# median filter
# ------------------------------------------------------------------------------------------------
def _median_cfg(rng, flavour):
    """One (shape, kernel, padding, repeats, dtype) configuration."""
    small = [1, 2, 3, 4, 5, 6, 8, 11]
    shape = [int(rng.choice(small)) for _ in range(3)]
    if flavour == 1:  # 2-D designs: singleton axis in a random position
        shape[int(rng.integers(3))] = 1
    if flavour == 2:
        shape = [int(rng.integers(3, 10)) for _ in range(3)]
    kernel = [int(rng.choice([1, 3, 3, 5, 7])) for _ in range(3)]
    if flavour == 3:
        kernel = [int(rng.choice([3, 5])) for _ in range(3)]
    short = rng.random() < 0.15
    uniform_mode = rng.random() < 0.4
    m0 = str(rng.choice(MODES[:5] if rng.random() < 0.85 else MODES))
    modes, widths = [], []
    for e in range(6):
        ax = e // 2
        half = (kernel[ax] - 1) // 2
        mode = m0 if uniform_mode else str(rng.choice(MODES[:5] if rng.random() < 0.9 else MODES))
        w = half + int(rng.integers(0, 3))
        if short and half > 0:
            w = int(rng.integers(0, half))
        modes.append(mode)
        widths.append(w)
    # numpy/jax restrictions of the reflecting modes: reflect needs width <= n-1, symmetric/wrap width <= n
    for e in range(6):
        n = shape[e // 2]
        if modes[e] == "reflect" and widths[e] > n - 1:
            modes[e] = "edge"
        if modes[e] in ("symmetric", "wrap") and widths[e] > n:
            modes[e] = "edge"
    return {
        "shape": shape,
        "kernel": kernel,
        "modes": modes,
        "widths": widths,
        "repeats": int(rng.choice([1, 1, 2, 3])),
        "dtype": str(rng.choice(["float32", "float64", "int32"])),
        "compact": bool(rng.random() < 0.2),
    }


def np_pad_config(a, modes, widths):
    """Definition of the padded array: numpy.pad, axis after axis."""
    import numpy as np

    for ax in range(3):
        lo_m, hi_m = modes[2 * ax], modes[2 * ax + 1]
        lo_w, hi_w = widths[2 * ax], widths[2 * ax + 1]

        def one(arr, wlo, whi, mode):
            pw = [(0, 0)] * 3
            pw[ax] = (wlo, whi)
            if mode.startswith("constant"):
                return np.pad(arr, pw, mode="constant", constant_values=int(mode[-1]))
            return np.pad(arr, pw, mode=mode)

        if lo_m == hi_m:
            a = one(a, lo_w, hi_w, lo_m)
        else:
            n = a.shape[ax]
            lo = one(a, lo_w, 0, lo_m)
            hi = one(a, 0, hi_w, hi_m)
            sl = [slice(None)] * 3
            sl[ax] = slice(n, None)
            a = np.concatenate([lo, hi[tuple(sl)]], axis=ax)
    return a


def np_majority(a, cfg):
    """One pass of the definitional median filter."""
    import numpy as np
    from numpy.lib.stride_tricks import sliding_window_view

    k = cfg["kernel"]
    p = np_pad_config(a.astype(np.int64), cfg["modes"], cfg["widths"])
    # zero halo so that windows exist for short paddings (those evaluations are not judged)
    halo = [(k[ax] // 2, k[ax] // 2) for ax in range(3)]
    p = np.pad(p, halo, mode="constant", constant_values=0)
    win = sliding_window_view(p, tuple(k)).sum(axis=(-1, -2, -3))
    vol = k[0] * k[1] * k[2]
    maj = (2 * win > vol).astype(np.int64)
    w = cfg["widths"]
    sl = tuple(slice(w[2 * ax], w[2 * ax] + a.shape[ax]) for ax in range(3))
    return maj[sl]


def _median_designs(rng, shape, n):
    import numpy as np

    out = []
    for i in range(n):
        kind = ["iid", "iid", "checker", "stripes", "one", "full", "empty", "iid"][i % 8] if n > 1 else "iid"
        if kind == "iid":
            d = float(rng.choice([0.1, 0.3, 0.5, 0.5, 0.7, 0.9]))
            a = rng.random(shape) < d
        elif kind == "checker":
            idx = np.indices(shape).sum(axis=0)
            a = idx % 2 == int(rng.integers(2))
        elif kind == "stripes":
            ax = int(rng.integers(3))
            per = int(rng.integers(1, 4))
            a = (np.indices(shape)[ax] // per) % 2 == 0
        elif kind == "one":
            a = np.zeros(shape, bool)
            a[tuple(int(rng.integers(s)) for s in shape)] = True
            if rng.random() < 0.5:
                a = ~a
        elif kind == "full":
            a = np.ones(shape, bool)
        else:
            a = np.zeros(shape, bool)
        out.append((kind, a))
    return out


def _run_median(case, r, rng):
    import jax
    import jax.numpy as jnp
    import numpy as np

    import fdtdx
    from fdtdx.typing import ParameterType
    from fdtdx.core.misc import PaddingConfig  # noqa: F401

    materials = {"air": fdtdx.Material(permittivity=1.0), "si": fdtdx.Material(permittivity=12.0)}
    cfg0 = fdtdx.SimulationConfig(time=100e-15, grid=fdtdx.UniformGrid(spacing=100e-9), backend="cpu")
    for _i in range(case["n_cfg"]):
        cfg = _median_cfg(rng, case["flavour"])
        shape = tuple(cfg["shape"])
        modes_arg = [m[:-1] if m.startswith("constant") else m for m in cfg["modes"]]
        values_arg = [int(m[-1]) if m.startswith("constant") else 0 for m in cfg["modes"]]
        widths_arg = list(cfg["widths"])
        if cfg["compact"] and len(set(widths_arg)) == 1 and len(set(cfg["modes"])) == 1:
            widths_arg, modes_arg, values_arg = widths_arg[:1], modes_arg[:1], values_arg[:1]
            r.branch("median:compact-config")
        pc = PaddingConfig(widths=tuple(widths_arg), modes=tuple(modes_arg), values=tuple(values_arg))
        t = fdtdx.BinaryMedianFilterModule(padding_cfg=pc, kernel_sizes=tuple(cfg["kernel"]), num_repeats=cfg["repeats"])
        t = t.init_module(
            config=cfg0,
            materials=materials,
            matrix_voxel_grid_shape=shape,
            single_voxel_size=(1e-7, 1e-7, 1e-7),
            output_shape={"p": shape},
        ).init_type({"p": ParameterType.BINARY})
        judged = all(cfg["widths"][e] >= (cfg["kernel"][e // 2] - 1) // 2 for e in range(6))
        use_jit = _i % 4 != 0
        call = jax.jit(lambda arr, t=t: t({"p": arr})["p"]) if use_jit else (lambda arr, t=t: t({"p": arr})["p"])
        r.branch("median:jit" if use_jit else "median:eager")
        has_wrap = "wrap" in cfg["modes"]
        mode_set = "+".join(sorted(set(cfg["modes"])))
        for m in set(cfg["modes"]):
            r.branch(f"median:mode:{m}")
        r.branch(f"median:kernel:{'x'.join(map(str, sorted(cfg['kernel'])))}")
        r.branch("median:min-axis-%d" % min(min(shape), 3))
        for kind, a in _median_designs(rng, shape, case["n_arr"]):
            x = a.astype(cfg["dtype"])
            try:
                out = np.asarray(call(jnp.asarray(x)))
            except ValueError as e:
                if not judged and "smaller than the other in every dimension" in str(e):
                    r.branch("median:short-padding-rejected(kernel larger than padded axis)")
                    continue
                raise
            witness = {"config": cfg, "design": kind, "input_xyz": a.astype(int).tolist() if a.size <= 400 else None}
            if out.shape != shape or not np.isin(out, [0, 1]).all():
                r.violate(
                    "median filter output is not a binary array of the input shape",
                    dict(witness, got_shape=list(out.shape), values=np.unique(out).tolist()[:8]),
                )
                continue
            if not judged:
                r.count("median_short_padding_runs")
                r.branch("median:short-padding(unjudged)")
                r.ok(None)
                continue
            want = a.astype(np.int64)
            for _rep in range(cfg["repeats"]):
                want = np_majority(want, cfg)
            r.count("median_judged")
            changed = bool((want != a).any())
            if changed:
                r.count("median_outputs_differing_from_input")
            sig = None
            if changed or kind in ("full", "empty"):
                kcls = "".join("1" if k == 1 else "3" if k == 3 else "b" for k in cfg["kernel"])
                sig = ("median", kcls, mode_set, "min%d" % min(min(shape), 3), cfg["repeats"], kind if kind in ("full", "empty") else "x")
            if np.array_equal(out.astype(np.int64), want):
                r.ok(sig if (changed or "constant" in mode_set) else None)
                if r.sample is None and changed:
                    r.sample = {"median_config": cfg, "design": kind, "voxels_changed": int((want != a).sum())}
                continue
            bad = np.argwhere(out.astype(np.int64) != want)
            mech = None
            if has_wrap:
                # classify as the wrap defect only if replacing the sequential-edge wrap by numpy's wrap is the
                # sole difference: the same config with every wrap edge turned into an exactly equivalent
                # explicit extension must agree -> we test that by recomputing the oracle with 'wrap' applied
                # edge after edge (lo edge first, then hi edge on the already extended array).
                want2 = a.astype(np.int64)
                for _rep in range(cfg["repeats"]):
                    want2 = _majority_sequential_wrap(want2, cfg)
                if np.array_equal(out.astype(np.int64), want2):
                    mech = WRAP_KEY
            r.branch(f"median:mismatch:{mech or 'unclassified'}")
            r.violate(
                f"median filter != majority of the padded box at {len(bad)} voxels",
                dict(
                    witness,
                    n_bad=int(len(bad)),
                    first_bad=[int(v) for v in bad[0]],
                    got=int(out[tuple(bad[0])]),
                    want=int(want[tuple(bad[0])]),
                ),
                mechanism=mech,
                sig=sig,
            )


def _majority_sequential_wrap(a, cfg):
    """Same as np_majority but each edge padded separately in the order x-,x+,y-,y+,z-,z+ (only used to
    attribute a mismatch to the wrap mode; never used to accept an output)."""
    import numpy as np
    from numpy.lib.stride_tricks import sliding_window_view

    k = cfg["kernel"]
    p = a.astype(np.int64)
    for e in range(6):
        ax, is_hi = e // 2, e % 2 == 1
        pw = [(0, 0)] * 3
        pw[ax] = (0, cfg["widths"][e]) if is_hi else (cfg["widths"][e], 0)
        m = cfg["modes"][e]
        if m.startswith("constant"):
            p = np.pad(p, pw, mode="constant", constant_values=int(m[-1]))
        else:
            p = np.pad(p, pw, mode=m)
    halo = [(k[ax] // 2, k[ax] // 2) for ax in range(3)]
    p = np.pad(p, halo, mode="constant", constant_values=0)
    win = sliding_window_view(p, tuple(k)).sum(axis=(-1, -2, -3))
    maj = (2 * win > k[0] * k[1] * k[2]).astype(np.int64)
    w = cfg["widths"]
    sl = tuple(slice(w[2 * ax], w[2 * ax] + a.shape[ax]) for ax in range(3))
    return maj[sl]


# ------------------------------------------------------------------------------------------------
# pillar discretisation
# ------------------------------------------------------------------------------------------------
def allowed_columns(height, nmat, bg, single):
    """All allowed columns from the definition, as a list of tuples (index 0 = low end of the axis)."""
    import itertools

    nonbg = [i for i in range(nmat) if i != bg]
    cols = set()
    for k in range(height + 1):  # k material voxels at the low end, height-k background voxels on top
        for body in itertools.product(nonbg, repeat=k):
            if single and len(set(body)) > 1:
                continue
            cols.add(tuple(body) + (bg,) * (height - k))
    return sorted(cols)


def column_distance(v, c_vals, metric):
    """v: (height,) input column, c_vals: (ncols, height) inverse permittivities of the allowed columns."""
    import numpy as np

    v = np.asarray(v, np.float64)
    if metric == "euclidean" or v.shape[0] == 1:
        return np.sqrt(((v[None, :] - c_vals) ** 2).sum(axis=1))
    dv = np.diff(v)
    dc = np.diff(c_vals, axis=1)
    return np.abs(dv[None, :] - dc).mean(axis=1) + np.abs(v.mean() - c_vals.mean(axis=1))


def _pillar_cfg(rng, flavour):
    nmat = int(rng.choice([2, 2, 3, 3, 4]))
    height = int(rng.choice([1, 2, 3, 3, 4, 5])) if nmat < 4 else int(rng.choice([1, 2, 3, 4]))
    axis = int(rng.integers(3))
    others = [int(rng.choice([1, 2, 3, 5, 7])) for _ in range(2)]
    shape = others[:]
    shape.insert(axis, height)
    pool = [1.0, 1.5, 2.25, 4.0, 6.25, 11.7, 12.25]
    eps = sorted(float(x) for x in rng.choice(pool, size=nmat, replace=False))
    bg = 0 if rng.random() < 0.5 else int(rng.integers(nmat))
    return {
        "nmat": nmat,
        "height": height,
        "axis": axis,
        "shape": shape,
        "eps": eps,
        "bg": bg,
        "explicit_bg": bool(bg != 0 or rng.random() < 0.3),
        "single": bool(rng.integers(2)) if flavour != 3 else True,
        "metric": str(rng.choice(["euclidean", "permittivity_differences_plus_average_permittivity"])),
        "dtype": "float64" if rng.random() < 0.75 else "float32",
    }


def _pillar_inputs(rng, cfg, cols, n):
    """Arrays of shape cfg['shape']; returns list of (class, array float64)."""
    import numpy as np

    shape = cfg["shape"]
    axis = cfg["axis"]
    inv = 1.0 / np.asarray(cfg["eps"])
    lo, hi = inv.min(), inv.max()
    ncol = int(np.prod(shape)) // cfg["height"]
    out = []
    classes = ["uniform", "allowed", "midpoint", "forbidden", "wide", "constant"]
    for i in range(n):
        cl = classes[i % len(classes)] if n >= len(classes) else str(rng.choice(classes))
        if cl == "uniform":
            colsarr = rng.uniform(lo - 0.1, hi + 0.1, size=(ncol, cfg["height"]))
        elif cl == "allowed":  # exactly an allowed column -> distance 0, unique minimiser
            pick = rng.integers(len(cols), size=ncol)
            colsarr = inv[np.asarray(cols)[pick]]
        elif cl == "midpoint":  # exact midpoints between two allowed columns -> ties
            p1 = rng.integers(len(cols), size=ncol)
            p2 = rng.integers(len(cols), size=ncol)
            colsarr = 0.5 * (inv[np.asarray(cols)[p1]] + inv[np.asarray(cols)[p2]])
        elif cl == "forbidden":  # exact material values but background BELOW material / mixed materials
            idx = rng.integers(cfg["nmat"], size=(ncol, cfg["height"]))
            idx[:, 0] = cfg["bg"]
            colsarr = inv[idx]
        elif cl == "wide":
            colsarr = rng.choice([-1e6, -3.0, 0.0, 5.0, 1e6, 1e30], size=(ncol, 1)) * rng.uniform(0.5, 1.5, size=(ncol, cfg["height"]))
        else:
            colsarr = np.full((ncol, cfg["height"]), float(rng.uniform(lo, hi)))
        # (ncol, height) -> array with `axis` as the column axis
        rest = [s for a, s in enumerate(shape) if a != axis]
        arr = colsarr.reshape(rest + [cfg["height"]])
        arr = np.moveaxis(arr, -1, axis)
        out.append((cl, np.ascontiguousarray(arr)))
    return out


def _run_pillar(case, r, rng):
    import jax
    import jax.numpy as jnp
    import numpy as np

    import fdtdx
    from fdtdx.typing import ParameterType
    from fdtdx.core.misc import PaddingConfig  # noqa: F401

    cfg0 = fdtdx.SimulationConfig(time=100e-15, grid=fdtdx.UniformGrid(spacing=100e-9), backend="cpu")
    for _i in range(case["n_cfg"]):
        cfg = _pillar_cfg(rng, case["flavour"])
        names = [f"m{i}" for i in range(cfg["nmat"])]
        order = list(rng.permutation(cfg["nmat"]))  # dict insertion order must not matter
        materials = {names[i]: fdtdx.Material(permittivity=cfg["eps"][i]) for i in order}
        shape = tuple(cfg["shape"])
        t = fdtdx.PillarDiscretization(
            axis=cfg["axis"],
            single_polymer_columns=cfg["single"],
            distance_metric=cfg["metric"],
            background_material=names[cfg["bg"]] if cfg["explicit_bg"] else None,
        )
        t = t.init_module(
            config=cfg0,
            materials=materials,
            matrix_voxel_grid_shape=shape,
            single_voxel_size=(1e-7, 1e-7, 1e-7),
            output_shape={"p": shape},
        ).init_type({"p": ParameterType.CONTINUOUS})
        use_jit = _i % 3 != 0
        call = jax.jit(lambda arr, t=t: t({"p": arr})["p"]) if use_jit else (lambda arr, t=t: t({"p": arr})["p"])
        r.branch("pillar:jit" if use_jit else "pillar:eager")
        cols = allowed_columns(cfg["height"], cfg["nmat"], cfg["bg"], cfg["single"])
        colset = set(cols)
        inv = 1.0 / np.asarray(cfg["eps"], np.float64)
        c_vals = inv[np.asarray(cols)]
        r.branch(f"pillar:axis{cfg['axis']}")
        r.branch(f"pillar:h{cfg['height']}")
        r.branch(f"pillar:nmat{cfg['nmat']}:{'single' if cfg['single'] else 'multi'}")
        r.branch(f"pillar:bg{'0' if cfg['bg'] == 0 else 'N'}")
        r.branch(f"pillar:{cfg['metric'][:6]}")
        r.count("pillar_allowed_columns_enumerated", len(cols))
        rtol = 1e-9 if cfg["dtype"] == "float64" else 1e-5
        for cl, arr in _pillar_inputs(rng, cfg, cols, case["n_arr"]):
            x = arr.astype(cfg["dtype"])
            out = np.asarray(call(jnp.asarray(x)))
            witness = {"config": cfg, "input_class": cl, "input": x.astype(float).tolist() if x.size <= 200 else None}
            r.count("pillar_calls_judged")
            sig = ("pillar", cfg["axis"], cfg["height"], cfg["nmat"], cfg["bg"] == 0, cfg["single"], cfg["metric"][:4], cl)
            if out.shape != shape:
                r.violate("pillar output shape differs from input shape", dict(witness, got_shape=list(out.shape)), sig=sig)
                continue
            oc = np.moveaxis(out, cfg["axis"], -1).reshape(-1, cfg["height"])
            ic = np.moveaxis(x.astype(np.float64), cfg["axis"], -1).reshape(-1, cfg["height"])
            bad = None
            ties = 0
            for j in range(oc.shape[0]):
                r.count("pillar_columns_judged")
                col = oc[j]
                if not np.all(col == np.round(col)) or tuple(int(v) for v in col) not in colset:
                    bad = ("output column is not an allowed column", j, col.tolist(), None, None)
                    break
                d = column_distance(ic[j], c_vals, cfg["metric"])
                dmin = float(d.min())
                got_d = float(d[cols.index(tuple(int(v) for v in col))])
                scale = max(abs(dmin), float(np.abs(ic[j]).max()), float(np.abs(c_vals).max()))
                r.worst("pillar_rel_distance_excess", max(0.0, got_d - dmin) / scale if scale > 0 else 0.0)
                if int((d <= dmin + rtol * scale).sum()) > 1:
                    ties += 1
                if got_d > dmin + rtol * scale:
                    best = cols[int(np.argmin(d))]
                    bad = ("output column does not minimise the configured distance", j, col.tolist(), got_d, {"best": list(best), "dmin": dmin})
                    break
            if ties:
                r.count("pillar_columns_with_ties", ties)
            if bad is None:
                r.ok(sig)
                if r.sample is None:
                    r.sample = {"pillar_config": cfg, "input_class": cl, "allowed_columns": len(cols), "columns": int(oc.shape[0])}
            else:
                r.violate(
                    f"pillar discretisation: {bad[0]}",
                    dict(witness, column=int(bad[1]), input_column=ic[bad[1]].tolist(), got_column=bad[2], got_distance=bad[3], oracle=bad[4]),
                    sig=sig,
                )


def run_case(case):
    import numpy as np

    from vf import bootstrap
    from vf.result import Res

    bootstrap.ensure()
    r = Res()
    rng = np.random.default_rng(case["seed"])
    if case["kind"] == "median":
        _run_median(case, r, rng)
    else:
        _run_pillar(case, r, rng)
    return r.to_dict()

"""C33 — electric-plane symmetry reduction is exact.

Differential monitor: the full domain (2n cells along the symmetric axis, materials constant along it, initial
fields with the parity an electric mirror plane requires, built by an independent mirror routine) and the reduced
domain produced by place_objects(config.symmetry) are stepped with the real forward(); the reduced fields unfolded
with fdtdx.unfold_fields and the co-located detector rows must equal the full run on every cell the far boundary of
the discarded half cannot yet influence.
"""

from __future__ import annotations

PROPERTY = "C33"
RULE = (
    "each axis (and pairs / all three axes) as electric symmetry axis; kept half 3..6 cells; far faces none/pec/pml, "
    "other axes none/pec/pmc/periodic; random eps (iso/diag) and optional mu varying only transversally; random "
    "parity-consistent initial fields; K = 2..4 steps; exact FieldDetectors touching / straddling the plane (unfolded "
    "with unfold_detector_states). distinct = (symmetry tuple, far face kind, other axis kinds, material tier, grid); "
    "non-trivial iff fields non-zero"
)
REQUIRED_COUNTERS = ["steps_compared", "detector_rows_compared"]
ASSUMPTIONS = [
    "compared on cells whose index along each symmetric axis is >= K+2 in the full domain (the far low boundary and the one reconstructed cell without a mirror partner cannot influence them within K steps)",
    "parity of an electric plane written from physics: tangential E and normal H odd and sampled on the plane, normal E and tangential H even and sampled half a cell off it",
]
CASE_TIMEOUT = {"quick": 1200, "thorough": 3000}


def cases(tier, rng):
    syms = [[-1, 0, 0], [0, -1, 0], [0, 0, -1], [-1, -1, 0], [0, -1, -1], [-1, 0, -1], [-1, -1, -1]]
    n = 12 if tier == "quick" else 84
    out = []
    for i in range(n):
        sym = syms[i % 3] if i < 6 else syms[int(rng.integers(len(syms)))]
        out.append(
            {
                "sym": sym,
                "half": [int(rng.integers(3, 7)) for _ in range(3)],
                "far": ["none", "pec", "pml"][int(rng.integers(3))],
                "other": [["none", "pec", "pmc", "periodic"][int(rng.integers(4))] for _ in range(3)],
                "eps_tier": ["iso", "diag"][int(rng.integers(2))],
                "mu": bool(rng.integers(2)),
                "grid": ["uniform", "rect"][int(rng.integers(2))],
                "K": int(rng.integers(2, 5)),
                "seed": int(rng.integers(1 << 30)),
            }
        )
    return out


def run_case(case):
    from vf import bootstrap
    from vf.result import Res

    bootstrap.ensure()
    r = Res()
    _one(case, r)
    return r.to_dict()


def _mirror_full(F, field_type, sym):
    """reduced (3, ...) -> full domain by the electric-plane parity rules (independent of fdtdx)."""
    import numpy as np

    out = np.asarray(F)
    for a in range(3):
        if sym[a] == 0:
            continue
        comps = []
        for c in range(3):
            x = out[c]
            if field_type == "E":
                on_plane, parity = (c != a), (-1.0 if c != a else 1.0)
            else:
                on_plane, parity = (c == a), (-1.0 if c == a else 1.0)
            fl = np.flip(x, axis=a)
            if on_plane:
                # indices 1..n-1 mirror to n-1..1 of the low half; low index 0 has no partner: repeat neighbour
                m = parity * np.flip(np.take(x, np.arange(1, x.shape[a]), axis=a), axis=a)
                first = np.take(m, [0], axis=a) if m.shape[a] > 0 else parity * x
                low = np.concatenate([first, m], axis=a)
            else:
                low = parity * fl
            comps.append(np.concatenate([low, x], axis=a))
        out = np.stack(comps)
    return out


def _one(c, r):
    import copy

    import jax
    import jax.numpy as jnp
    import numpy as np

    import fdtdx
    from vf import scenes, sim

    rng = np.random.default_rng(c["seed"])
    sym = c["sym"]
    K = c["K"]
    spacing = 50e-9
    red = [h if sym[a] else h + 2 for a, h in enumerate(c["half"])]
    tp = 2 if c["far"] == "pml" else 0
    red = [red[a] + (tp if sym[a] else 0) for a in range(3)]
    full = [2 * red[a] if sym[a] else red[a] for a in range(3)]
    s = scenes.default_scene(shape=full, steps=K, spacing=spacing)
    for a in range(3):
        lo, hi = f"min_{'xyz'[a]}", f"max_{'xyz'[a]}"
        if sym[a]:
            f = {"type": "pml", "thickness": tp} if c["far"] == "pml" else {"type": c["far"]}
            s["faces"][lo], s["faces"][hi] = dict(f), dict(f)
        else:
            s["faces"][lo], s["faces"][hi] = {"type": c["other"][a]}, {"type": c["other"][a]}
    if c["grid"] == "rect":
        edges = []
        for a in range(3):
            w = spacing * np.exp(rng.uniform(0, np.log(2.0), size=red[a]))
            if sym[a]:
                if tp:
                    w[-tp - 1 :] = w[-tp - 1]
                w = np.concatenate([w[::-1], w])
            e = np.concatenate([[0.0], np.cumsum(w)])
            edges.append([float(x) for x in e - e[-1] / 2])
        s["grid"] = {"kind": "rect", "edges": edges}
    vol = {"eps": 2.0 if c["eps_tier"] == "iso" else [2.0, 3.0, 4.0]}
    if c["mu"]:
        vol["mu"] = 1.5 if c["eps_tier"] == "iso" else [1.5, 2.0, 2.5]
    s["volume"] = vol
    # detectors in FULL coordinates: one touching every plane from above, one straddling
    off = [red[a] if sym[a] else 0 for a in range(3)]
    lo_t = [off[a] if sym[a] else 1 for a in range(3)]
    hi_t = [off[a] + 2 if sym[a] else red[a] - 1 for a in range(3)]
    lo_s = [off[a] - 2 if sym[a] else 1 for a in range(3)]  # symmetric about the plane: [n-2, n+2)
    hi_s = [off[a] + 2 if sym[a] else red[a] - 1 for a in range(3)]
    s["detectors"] = [
        {"kind": "field", "name": "touch", "lo": lo_t, "hi": hi_t, "exact": True},
        {"kind": "field", "name": "straddle", "lo": lo_s, "hi": hi_s, "exact": True},
    ]
    s_full = copy.deepcopy(s)
    s_red = copy.deepcopy(s)
    s_red["symmetry"] = sym
    bf = scenes.build(s_full)
    br = scenes.build(s_red)
    ar, af = br["arrays"], bf["arrays"]
    if tuple(ar.fields.E.shape[1:]) != tuple(red):
        r.inconclusive(f"reduced shape {tuple(ar.fields.E.shape[1:])} != {red}")
        return

    def const_along(shape_lead):
        x = rng.uniform(1.0, 4.0, size=(shape_lead, *red))
        for a in range(3):
            if sym[a]:
                x = np.repeat(np.take(x, [0], axis=a + 1), red[a], axis=a + 1)
        return x

    def to_full(x):
        for a in range(3):
            if sym[a]:
                x = np.concatenate([x, x], axis=a + 1)
        return x

    ie = 1.0 / const_along(ar.inv_permittivities.shape[0])
    ar = ar.aset("inv_permittivities", jnp.asarray(ie))
    af = af.aset("inv_permittivities", jnp.asarray(to_full(ie)))
    if isinstance(ar.inv_permeabilities, jax.Array) and ar.inv_permeabilities.ndim > 0:
        im = 1.0 / const_along(ar.inv_permeabilities.shape[0])
        ar = ar.aset("inv_permeabilities", jnp.asarray(im))
        af = af.aset("inv_permeabilities", jnp.asarray(to_full(im)))
    E0, H0 = sim.random_fields(rng, ar, br["objects"])
    # parity consistency on the plane itself: samples that are their own mirror image with odd parity vanish
    # (tangential E is zeroed by the wall already; the normal H component sampled on the plane must be zero too)
    for a in range(3):
        if sym[a]:
            idx = [a, slice(None), slice(None), slice(None)]
            idx[a + 1] = 0
            H0 = H0.at[tuple(idx)].set(0.0)
    ar = sim.set_fields(ar, E0, H0)
    Ef = jnp.asarray(_mirror_full(E0, "E", sym))
    Hf = jnp.asarray(_mirror_full(H0, "H", sym))
    Ef, Hf = sim.project_walls(Ef, Hf, bf["objects"])
    af = sim.set_fields(af, Ef, Hf)
    key = jax.random.PRNGKey(0)

    def run(built, arr):
        def body(state, _):
            new = sim.forward_step(state, built, key=key, record_detectors=True)
            return new, (new[1].fields.E, new[1].fields.H)

        return jax.jit(lambda a: jax.lax.scan(body, (jnp.asarray(0, dtype=jnp.int32), a), None, length=K))(arr)

    fin_r, (Er, Hr) = run(br, ar)
    fin_f, (Efs, Hfs) = run(bf, af)
    Er, Hr, Efs, Hfs = (np.asarray(x) for x in (Er, Hr, Efs, Hfs))
    mask = np.ones(full, bool)
    for a in range(3):
        if sym[a]:
            sl = [slice(None)] * 3
            sl[a] = slice(0, K + 2)
            mask[tuple(sl)] = False
    sig = (tuple(sym), c["far"], tuple(c["other"][a] for a in range(3) if not sym[a]), c["eps_tier"], c["mu"], c["grid"])
    r.branch("sym:" + "".join("e" if x else "0" for x in sym))
    r.branch("far:" + c["far"])
    r.branch("grid:" + c["grid"])
    wit = {"case": c, "full_shape": full, "reduced_shape": red}
    scaleE, scaleH = float(np.abs(Efs).max()), float(np.abs(Hfs).max())
    for k in range(K):
        for name, red_f, full_f, ft, scl in (("E", Er[k], Efs[k], "E", scaleE), ("H", Hr[k], Hfs[k], "H", scaleH)):
            unf = np.asarray(fdtdx.unfold_fields(jnp.asarray(red_f), tuple(sym), ft))
            if unf.shape != full_f.shape:
                r.violate("unfolded field has the wrong shape", {**wit, "got": list(unf.shape), "want": list(full_f.shape)}, sig=sig)
                return
            err = float(np.abs((unf - full_f) * mask[None]).max()) / scl if scl > 0 else 0.0
            r.worst("worst_rel_err_fields", err)
            if err > 1e-9:
                idx = np.unravel_index(int(np.argmax(np.abs((unf - full_f) * mask[None]))), unf.shape)
                r.violate(
                    f"unfolded reduced {name} differs from the full-domain run at step {k + 1}: {err:.3e}",
                    {**wit, "field": name, "step": k + 1, "index": [int(i) for i in idx], "got": float(unf[idx]), "want": float(full_f[idx]), "rel_err": err},
                    sig=sig,
                )
            else:
                r.ok(sig if scl > 0 else None)
        r.count("steps_compared")
    # detectors: reduced records unfolded vs full records
    Dr_unf = fdtdx.unfold_detector_states(fin_r[1], br["objects"], br["config"])
    Dr = scenes.detector_arrays(Dr_unf)
    Df = scenes.detector_arrays(fin_f[1])
    for name in ("touch", "straddle"):
        got, want = Dr[f"{name}/fields"], Df[f"{name}/fields"]
        r.count("detector_rows_compared", K)
        if got.shape != want.shape:
            r.violate(f"unfolded detector '{name}' has shape {got.shape}, full-domain detector {want.shape}", {**wit, "detector": name}, sig=sig)
            continue
        # restrict to cells of the detector box inside the light-cone mask
        lo_d = lo_t if name == "touch" else lo_s
        hi_d = hi_t if name == "touch" else hi_s
        m = mask[lo_d[0] : hi_d[0], lo_d[1] : hi_d[1], lo_d[2] : hi_d[2]].copy()
        if name == "straddle":
            # the outermost low cell of an unfolded on-plane record has no mirror partner (it repeats its neighbour)
            for a in range(3):
                if sym[a]:
                    sl = [slice(None)] * 3
                    sl[a] = 0
                    m[tuple(sl)] = False
        scl = float(np.abs(want).max())
        err = float(np.abs((got - want) * m[None, None]).max()) / scl if scl > 0 else 0.0
        r.worst("worst_rel_err_detector", err)
        if err > 1e-9:
            r.violate(f"co-located record of detector '{name}' differs between reduced+unfolded and full run: {err:.3e}", {**wit, "detector": name, "rel_err": err}, sig=sig)
        else:
            r.ok(sig if scl > 0 and m.any() else None)
    r.sample = wit

"""C36 — dispersive cells follow their recurrence; accepted passive media stay bounded.

(a) per-step monitor: in a scene with a dispersive box the stored polarisation obeys
    P_{n+1} = c1 P_n + c2 P_{n-1} + c3 E_n on every cell, and cells the box cannot have influenced yet evolve
    bit-identically to the same scene without dispersion;
(b) long-run invariant monitor: passive Lorentz/Drude media that place_objects accepts without error or warning are
    stepped 10^4 times in a closed box; the field energy must stay within 10x its initial value at every step.
    Reference model for classification: von-Neumann root scan of the coupled (E, P) recurrence.
"""

from __future__ import annotations

PROPERTY = "C36"
RULE = (
    "(a) seeded scenes with a dispersive box (1-3 Lorentz/Drude poles, isotropic or per-axis) in a non-dispersive "
    "background, 6-10 steps; (b) closed periodic / PEC boxes 4..8 cells, homogeneous passive medium with 1-3 poles, "
    "omega_0*dt in [0.01,1.9], omega_p*dt in [0.01,1.5], gamma*dt in [0,0.5], strengths in [0.1,4], eps_inf in [1,4], "
    "courant factor in [0.5,0.99], random initial E. distinct = (pole kinds, accepted?, reference verdict, box kind) "
    "or (recurrence, pole kinds, per-axis?); non-trivial iff fields non-zero"
)
REQUIRED_COUNTERS = ["recurrence_cells_checked", "long_runs"]
ASSUMPTIONS = [
    "field energy = sum of fdtdx.compute_energy over the domain (polarisation energy not included; only the upper bound 10x is judged)",
    "'accepted without warning' = place_objects raised nothing, emitted no Python warning and no loguru WARNING",
    "reference model = von-Neumann root scan (240 spectral samples) of the coupled recurrence in a uniform medium",
]
CASE_TIMEOUT = {"quick": 1800, "thorough": 3600}


def _poles(rng, dt):
    n = int(rng.integers(1, 4))
    poles = []
    for _ in range(n):
        if rng.random() < 0.5:
            w0 = float(np_exp_uniform(rng, 0.01, 1.9)) / dt
            gam = float(rng.choice([0.0, rng.uniform(0, 0.5)])) / dt
            if rng.random() < 0.15:
                # beyond the documented per-pole bound omega_0*dt < 2 (must be rejected), also heavily damped
                w0 = float(rng.uniform(2.0, 2.6)) / dt
                gam = float(rng.choice([0.0, rng.uniform(0.0, 8.0)])) / dt
            poles.append({"kind": "lorentz", "w0": w0, "gamma": gam, "deps": float(rng.uniform(0.1, 4.0))})
        else:
            poles.append({"kind": "drude", "wp": float(np_exp_uniform(rng, 0.01, 1.5)) / dt, "gamma": float(rng.choice([0.0, rng.uniform(0, 0.5)])) / dt})
    return poles


def np_exp_uniform(rng, lo, hi):
    import numpy as np

    return np.exp(rng.uniform(np.log(lo), np.log(hi)))


def cases(tier, rng):
    out = []
    n_rec = 4 if tier == "quick" else 24
    n_long = 10 if tier == "quick" else 120
    for i in range(n_rec):
        out.append({"kind": "recurrence", "seed": int(rng.integers(1 << 30)), "n_scenes": 2 if tier == "quick" else 4})
    per = 2 if tier == "quick" else 5
    for i in range(n_long):
        out.append({"kind": "long", "seed": int(rng.integers(1 << 30)), "n_media": per})
    # heterogeneous scenes: a dispersive multi-material shape (sphere / cylinder) painted over cells that already hold
    # the pole coefficients of a dispersive host; both media mild (well inside every stability bound)
    for i in range(3 if tier == "quick" else 30):
        out.append({"kind": "overlap", "seed": int(rng.integers(1 << 30)), "index": i})
    # two fixed media from the design-phase probes that are accepted silently and are known to blow up
    out.append({"kind": "long", "seed": 1, "n_media": 1, "fixed": {"poles_dt": [{"kind": "drude", "wp": 0.5, "gamma": 0.0}], "eps_inf": 1.0, "cf": 0.99, "n": 6, "box": "periodic"}})
    out.append({"kind": "long", "seed": 2, "n_media": 1, "fixed": {"poles_dt": [{"kind": "lorentz", "w0": 1.0, "gamma": 0.0, "deps": 2.0}], "eps_inf": 1.0, "cf": 0.99, "n": 6, "box": "periodic"}})
    # poles beyond the documented per-pole bound (omega_0*dt >= 2), under- and over-damped: placement must not accept
    # them silently and then diverge
    out.append({"kind": "long", "seed": 3, "n_media": 1, "fixed": {"poles_dt": [{"kind": "lorentz", "w0": 2.2, "gamma": 5.0, "deps": 0.5}], "eps_inf": 2.0, "cf": 0.9, "n": 6, "box": "pec"}})
    out.append({"kind": "long", "seed": 4, "n_media": 1, "fixed": {"poles_dt": [{"kind": "lorentz", "w0": 2.05, "gamma": 0.01, "deps": 1.0}], "eps_inf": 1.0, "cf": 0.99, "n": 6, "box": "periodic"}})
    return out


def run_case(case):
    from vf import bootstrap
    from vf.result import Res

    bootstrap.ensure()
    r = Res()
    if case["kind"] == "recurrence":
        for j in range(case["n_scenes"]):
            _recurrence(case["seed"] + j, r)
    elif case["kind"] == "overlap":
        _overlap(case, r)
    else:
        for j in range(case["n_media"]):
            _long(case["seed"] + j, r, case.get("fixed"))
    return r.to_dict()


def _dt(spacing, cf):
    import numpy as np

    return cf * spacing / (np.sqrt(3.0) * 299792458.0)


def _recurrence(seed, r):
    import copy

    import jax
    import jax.numpy as jnp
    import numpy as np

    from vf import scenes, sim

    rng = np.random.default_rng(seed)
    spacing = 50e-9
    dt = _dt(spacing, 0.99)
    n = int(rng.integers(9, 12))
    K = int(rng.integers(3, 5))
    s = scenes.default_scene(shape=(n, n, n), steps=K + 1, spacing=spacing)
    kind = ["pec", "periodic", "none"][int(rng.integers(3))]
    for f in scenes.FACES:
        s["faces"][f] = {"type": kind}
    s["volume"] = {"eps": float(rng.uniform(1, 3))}
    poles = _poles(rng, dt)
    for p in poles:  # keep the box stable: this part is about the recurrence, not about stability
        if p["kind"] == "lorentz":
            p["w0"] = min(p["w0"], 0.5 / dt)
            p["deps"] = min(p["deps"], 1.0)
        else:
            p["wp"] = min(p["wp"], 0.15 / dt)
    blo = [int(rng.integers(0, 2)) for _ in range(3)]
    bhi = [b + int(rng.integers(1, 3)) for b in blo]
    eps_inf = float(rng.uniform(1, 4))
    s_disp = copy.deepcopy(s)
    s_disp["materials"] = [{"lo": blo, "hi": bhi, "mat": {"eps": eps_inf, "dispersion": {"poles": poles}}}]
    s_plain = copy.deepcopy(s)
    s_plain["materials"] = [{"lo": blo, "hi": bhi, "mat": {"eps": eps_inf}}]
    bd = scenes.build(s_disp)
    bp = scenes.build(s_plain)
    ad, ap = bd["arrays"], bp["arrays"]
    if ad.dispersive_c1 is None:
        r.inconclusive("dispersive scene did not allocate coefficient arrays")
        return
    E0, H0 = sim.random_fields(rng, ap, bp["objects"])
    ad, ap = sim.set_fields(ad, E0, H0), sim.set_fields(ap, E0, H0)
    key = jax.random.PRNGKey(0)
    sd, sp = (jnp.asarray(0, dtype=jnp.int32), ad), (jnp.asarray(0, dtype=jnp.int32), ap)
    c1, c2, c3 = (np.asarray(x) for x in (ad.dispersive_c1, ad.dispersive_c2, ad.dispersive_c3))
    zero_coef = np.all(c1 == 0, axis=(0, 1)) & np.all(c2 == 0, axis=(0, 1)) & np.all(c3 == 0, axis=(0, 1))
    box = np.zeros((n, n, n), bool)
    box[blo[0] : bhi[0], blo[1] : bhi[1], blo[2] : bhi[2]] = True
    kinds = tuple(sorted(p["kind"] for p in poles))
    sig = ("recurrence", kinds, kind)
    wit = {"seed": seed, "poles": poles, "box": [blo, bhi], "boundary": kind, "shape": [n, n, n]}
    if not np.array_equal(~zero_coef, box):
        r.violate("cells with non-zero pole coefficients are not exactly the dispersive box", {**wit, "nonzero_cells": int((~zero_coef).sum()), "box_cells": int(box.sum())}, sig=sig)
    fstep_d = jax.jit(lambda st: sim.forward_step(st, bd, key=key))
    fstep_p = jax.jit(lambda st: sim.forward_step(st, bp, key=key))
    # distance (Chebyshev, with wrap on periodic axes) from the box
    idx = np.indices((n, n, n))
    dist = np.zeros((n, n, n), int)
    for a in range(3):
        d = np.maximum(blo[a] - idx[a], idx[a] - (bhi[a] - 1))
        d = np.maximum(d, 0)
        if kind == "periodic":
            d = np.minimum(d, np.maximum(0, np.minimum(np.abs(idx[a] + n - (bhi[a] - 1)), np.abs(blo[a] + n - idx[a]))))
        dist = np.maximum(dist, d)
    for k in range(K):
        Pn, Pm, En = (np.asarray(x) for x in (sd[1].fields.dispersive_P_curr, sd[1].fields.dispersive_P_prev, sd[1].fields.E))
        sd = fstep_d(sd)
        sp = fstep_p(sp)
        Pnew = np.asarray(sd[1].fields.dispersive_P_curr)
        want = c1 * Pn + c2 * Pm + c3 * En[None]
        r.count("recurrence_cells_checked", int(Pnew.size))
        r.check_close("P_recurrence", Pnew, want, 1e-12, witness={**wit, "step": k + 1}, sig=sig, atol=0.0)
        if not np.array_equal(np.asarray(sd[1].fields.dispersive_P_prev), Pn):
            r.violate("P_prev is not the previous P_curr", {**wit, "step": k + 1}, sig=sig)
        # cells the box cannot have influenced yet evolve bit-identically to the non-dispersive scene
        far = dist > (k + 2)
        for name, a_, b_ in (("E", sd[1].fields.E, sp[1].fields.E), ("H", sd[1].fields.H, sp[1].fields.H)):
            a_, b_ = np.asarray(a_), np.asarray(b_)
            same = np.array_equal(a_[:, far], b_[:, far])
            r.count("far_cells_compared", int(far.sum()))
            if same:
                r.ok(("zero_coef_cells_identical", kinds, kind) if far.any() else None)
            else:
                r.violate(f"{name} differs from the non-dispersive scene at cells with all-zero coefficients outside the box's reach", {**wit, "step": k + 1, "max_diff": float(np.abs(a_[:, far] - b_[:, far]).max())}, sig=sig)
    r.sample = wit


def _mild_poles(rng, dt):
    poles = []
    for _ in range(int(rng.integers(1, 3))):
        if rng.random() < 0.5:
            poles.append({"kind": "lorentz", "w0": float(rng.uniform(0.1, 0.5)) / dt, "gamma": float(rng.uniform(0.0, 0.1)) / dt, "deps": float(rng.uniform(0.2, 1.0))})
        else:
            poles.append({"kind": "drude", "wp": float(rng.uniform(0.03, 0.15)) / dt, "gamma": float(rng.uniform(0.0, 0.05)) / dt})
    return poles


def _overlap(case, r):
    """A dispersive shape placed after, and inside, a dispersive host: every cell must carry exactly the coefficients
    of the material that owns it (so that its polarisation follows that material's recurrence), and the closed box
    must stay bounded for 1e4 steps."""
    import warnings

    import jax
    import jax.numpy as jnp
    import numpy as np

    import fdtdx
    from vf import scenes, sim

    rng = np.random.default_rng(case["seed"])
    spacing = 50e-9
    cf = float(rng.uniform(0.5, 0.9))
    dt = _dt(spacing, cf)
    n = int(rng.integers(7, 10))
    kind = ["pec", "periodic"][case["index"] % 2]
    NSTEPS = 10_000
    s = scenes.default_scene(shape=(n, n, n), steps=NSTEPS, spacing=spacing)
    s["courant"] = cf
    for f in scenes.FACES:
        s["faces"][f] = {"type": kind}
    host = {"eps": float(rng.uniform(1.5, 3.0)), "dispersion": {"poles": _mild_poles(rng, dt)}}
    inner = {"eps": float(rng.uniform(1.0, 4.0)), "dispersion": {"poles": _mild_poles(rng, dt)}}
    host_is_volume = bool(case["index"] % 3 == 2)
    if host_is_volume:
        s["volume"] = host
    else:
        s["volume"] = {"eps": float(rng.uniform(1.0, 2.0))}
        s["materials"] = [{"lo": [1, 1, 0], "hi": [n - 1, n, n - 1], "mat": host, "order": 0, "name": "host"}]
    shape_kind = ["sphere", "cylinder"][(case["index"] // 2) % 2]
    rad = float(rng.uniform(1.2, 2.4))
    d_cells = int(round(2 * rad))
    lo = [int(rng.integers(1, n - d_cells - 1 + 1)) for _ in range(3)]
    sh = {"kind": shape_kind, "radius_cells": rad, "materials": {"inner": inner, "other": {"eps": 1.0}}, "material_name": "inner", "order": 1, "lo": lo, "name": "particle"}
    if shape_kind == "cylinder":
        sh["axis"] = int(rng.integers(3))
        sh["length_cells"] = int(rng.integers(2, 4))
    s["shapes"] = [sh]
    # one-cell swatches of both media at a corner (painted last): the coefficients placement writes for each medium
    s.setdefault("materials", [])
    s["materials"] += [
        {"lo": [0, 0, n - 1], "hi": [1, 1, n], "mat": host, "order": 9, "name": "sw_host"},
        {"lo": [0, 1, n - 1], "hi": [1, 2, n], "mat": inner, "order": 9, "name": "sw_inner"},
    ]
    with warnings.catch_warnings():
        warnings.simplefilter("ignore")
        built = scenes.build(s)
    arrays, objects, config = built["arrays"], built["objects"], built["config"]
    desc = {"case": case, "n": n, "box": kind, "courant_factor": cf, "host": host, "inner": inner, "shape": sh, "host_is_volume": host_is_volume}
    r.branch("overlap:" + shape_kind + ("/host=volume" if host_is_volume else "/host=box"))
    if arrays.dispersive_c1 is None:
        r.inconclusive("overlap scene did not allocate coefficient arrays")
        return
    cs = [np.asarray(getattr(arrays, k)) for k in ("dispersive_c1", "dispersive_c2", "dispersive_c3")]
    stack = np.concatenate([c.reshape(-1, n, n, n) for c in cs], axis=0)  # (3*poles*comps, n, n, n)
    sw_h, sw_i = stack[:, 0, 0, n - 1], stack[:, 0, 1, n - 1]
    zero = np.zeros_like(sw_h)
    cells = np.moveaxis(stack, 0, -1).reshape(-1, stack.shape[0])
    scale = max(float(np.abs(sw_h).max()), float(np.abs(sw_i).max()), 1e-300)
    owner = np.full(len(cells), -1)
    for idx, ref in enumerate((zero, sw_h, sw_i)):
        owner[np.all(np.abs(cells - ref[None]) <= 1e-12 * scale, axis=1)] = idx
    n_inner = int((owner == 2).sum())
    r.count("overlap_cells_judged", len(cells))
    r.count("overlap_shape_cells", max(n_inner - 1, 0))
    sig = ("overlap", shape_kind, host_is_volume, kind)
    if (owner < 0).any():
        bad = int(np.argmax(owner < 0))
        ijk = [int(x) for x in np.unravel_index(bad, (n, n, n))]
        r.violate(
            "a cell's pole coefficients are those of no placed material: its polarisation cannot follow the recurrence of the material that owns it",
            {**desc, "cell": ijk, "coefficients": [float(x) for x in cells[bad]], "host": [float(x) for x in sw_h], "inner": [float(x) for x in sw_i], "cells_affected": int((owner < 0).sum())},
            sig=sig,
        )
    elif n_inner < 2:
        r.branch("overlap:shape_painted_no_cell")
        r.ok(None)
    else:
        r.ok(sig)
    E0, H0 = sim.random_fields(rng, arrays, objects)
    arrays = sim.set_fields(arrays, E0, 0.0 * H0)
    key = jax.random.PRNGKey(0)

    def energy(a):
        return jnp.sum(fdtdx.compute_energy(a.fields.E, a.fields.H, a.inv_permittivities, a.inv_permeabilities))

    def body(state, _):
        new = sim.forward_step(state, built, key=key)
        return new, energy(new[1])

    e0 = float(energy(arrays))
    _, en = jax.jit(lambda a: jax.lax.scan(body, (jnp.asarray(0, dtype=jnp.int32), a), None, length=NSTEPS))(arrays)
    en = np.asarray(en, dtype=np.float64)
    r.count("long_runs")
    r.count("steps_observed", NSTEPS)
    bad = ~np.isfinite(en) | (en > 10.0 * e0)
    ratio = float(np.nanmax(np.where(np.isfinite(en), en, np.inf)) / e0) if e0 > 0 else float("inf")
    r.worst("max_energy_over_initial_in_overlap_scenes", ratio)
    if bad.any():
        k = int(np.argmax(bad))
        r.violate(
            f"two mild passive media, one painted over the other, grew: field energy exceeded 10x its initial value at step {k + 1}",
            {**desc, "first_bad_step": k + 1},
            sig=sig,
        )
    else:
        r.ok(sig if e0 > 0 else None)
    r.sample = {**desc, "max_energy_ratio": ratio, "shape_cells": n_inner - 1}


def _long(seed, r, fixed=None):
    import warnings

    import jax
    import jax.numpy as jnp
    import numpy as np
    from loguru import logger

    import fdtdx
    from vf import scenes, sim
    from vf.oracles import ade_stability

    rng = np.random.default_rng(seed)
    spacing = 50e-9
    cf = float(rng.uniform(0.5, 0.99))
    dt = _dt(spacing, cf)
    n = int(rng.integers(4, 9))
    kind = ["pec", "periodic"][int(rng.integers(2))]
    if kind == "periodic" and rng.random() < 0.6:
        n = int(rng.choice([4, 6, 8]))  # even periodic boxes carry the Nyquist mode, the first to go unstable
    eps_inf = float(rng.uniform(1, 4))
    poles = _poles(rng, dt)
    if fixed:
        cf, n, kind, eps_inf = fixed["cf"], fixed["n"], fixed["box"], fixed["eps_inf"]
        dt = _dt(spacing, cf)
        poles = [{k: (v / dt if k in ("w0", "wp", "gamma") else v) for k, v in p.items()} for p in fixed["poles_dt"]]
        r.branch("fixed_probe_medium")
    NSTEPS = 10_000
    s = scenes.default_scene(shape=(n, n, n), steps=NSTEPS, spacing=spacing)
    s["courant"] = cf
    for f in scenes.FACES:
        s["faces"][f] = {"type": kind}
    s["volume"] = {"eps": eps_inf, "dispersion": {"poles": poles}}
    kinds = tuple(sorted(p["kind"] for p in poles))
    desc = {"seed": seed, "poles_dt": [{k: (v * dt if k in ("w0", "wp", "gamma") else v) for k, v in p.items()} for p in poles], "eps_inf": eps_inf, "courant_factor": cf, "box": kind, "n": n}
    logged = []
    sink = logger.add(lambda m: logged.append(str(m)), level="WARNING")
    try:
        with warnings.catch_warnings(record=True) as wlist:
            warnings.simplefilter("always")
            try:
                built = scenes.build(s)
            except Exception as e:  # noqa: BLE001
                r.branch("placement:rejected")
                r.ok(None)
                r.count("media_rejected")
                desc["rejected"] = f"{type(e).__name__}: {str(e)[:120]}"
                r.sample = desc
                return
        wl = [w for w in wlist if issubclass(w.category, (UserWarning, RuntimeWarning)) and "fdtdx" in str(w.filename)]
    finally:
        logger.remove(sink)
    if wl or logged:
        r.branch("placement:accepted_with_warning")
        r.count("media_warned")
        r.ok(None)
        return
    r.branch("placement:accepted_silently")
    arrays, objects, config = built["arrays"], built["objects"], built["config"]
    E0, H0 = sim.random_fields(rng, arrays, objects)
    arrays = sim.set_fields(arrays, E0, 0.0 * H0)
    key = jax.random.PRNGKey(0)

    def energy(a):
        return jnp.sum(fdtdx.compute_energy(a.fields.E, a.fields.H, a.inv_permittivities, a.inv_permeabilities))

    def body(state, _):
        new = sim.forward_step(state, built, key=key)
        return new, energy(new[1])

    e0 = float(energy(arrays))
    _, en = jax.jit(lambda a: jax.lax.scan(body, (jnp.asarray(0, dtype=jnp.int32), a), None, length=NSTEPS))(arrays)
    en = np.asarray(en, dtype=np.float64)
    r.count("long_runs")
    r.count("steps_observed", NSTEPS)
    # reference model
    c1, c2, c3 = (np.asarray(x)[:, 0, 0, 0, 0] for x in (arrays.dispersive_c1, arrays.dispersive_c2, arrays.dispersive_c3))
    inv_eps = float(np.asarray(arrays.inv_permittivities)[0, 0, 0, 0])
    # largest curl-curl eigenvalue this box can carry: 4*sum_a sin^2(k_a/2) with k_a = 2*pi*m/n (periodic) or
    # pi*m/n, m <= n-1 (PEC); the Nyquist mode exists only for even periodic n
    if kind == "periodic":
        s2 = 1.0 if n % 2 == 0 else float(np.sin(np.pi * (n - 1) / (2 * n)) ** 2)
    else:
        s2 = float(np.sin(np.pi * (n - 1) / (2 * n)) ** 2)
    nu2_max = (cf**2 / 3.0) * 12.0 * s2 * inv_eps
    zmax = ade_stability.max_root_modulus(c1, c2, c3, inv_eps, nu2_max)
    # growth by a factor 10 in energy within 1e4 steps needs |z| > 10**(1/2e4) = 1.000115; below 1e-6 the scan only
    # sees the round-off of the double root at z = 1 that every Drude pole has
    ref_unstable = zmax > 1.0 + 1e-6
    # a coupled pole whose OWN recurrence z^2 - c1 z - c2 has a root outside the unit circle violates the documented
    # acceptance rule (omega_0*dt < 2); that is never the known finding, which is about the coupling of poles that
    # are individually fine
    own_unstable = False
    for a_, b_, c_ in zip(c1, c2, c3):
        if c_ != 0.0 and float(np.abs(np.roots([1.0, -a_, -b_])).max()) > 1.0 + 1e-9:
            own_unstable = True
    desc["pole_own_recurrence_unstable"] = own_unstable
    desc["reference_max_root"] = zmax
    bad = ~np.isfinite(en) | (en > 10.0 * e0)
    ratio = float(np.nanmax(np.where(np.isfinite(en), en, np.inf)) / e0) if e0 > 0 else float("inf")
    r.worst("max_energy_over_initial_in_reference_stable_media", ratio if not ref_unstable else 0.0)
    sig = ("long", kinds, "ref_unstable" if ref_unstable else "ref_stable", kind)
    r.branch("reference:" + ("unstable" if ref_unstable else "stable"))
    if bad.any():
        k = int(np.argmax(bad))
        r.violate(
            f"accepted passive medium grew: field energy exceeded 10x its initial value at step {k + 1}",
            {**desc, "first_bad_step": k + 1, "energy_ratio_there": float(en[k] / e0) if np.isfinite(en[k]) else "non-finite"},
            mechanism="dispersive-medium-unstable-beyond-coupled-cfl" if (ref_unstable and not own_unstable) else None,
            sig=sig,
        )
    else:
        if ref_unstable:
            r.branch("reference_unstable_but_bounded_for_1e4_steps")
        r.ok(sig if e0 > 0 else None)
    r.sample = {**desc, "max_energy_ratio": ratio}

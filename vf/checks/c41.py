"""C41 — wave descriptions and temporal profiles are self-consistent.

Real `WaveCharacter`, `SingleFrequencyProfile`, `GaussianPulseProfile`, `CustomTimeSignalProfile` (and the
envelope helpers of core/window.py) evaluated on seeded / hostile inputs; oracles in plain numpy:

(a) wave   : whichever of period / frequency / wavelength is given: period*frequency == 1 and
             wavelength == c*period (c = 299792458 m/s), the given quantity is returned unchanged, the phase shift is
             kept; zero or several given quantities are rejected
(b) custom : get_amplitude(start + j*dt) == signal[j] for every j (first and last included) and
             get_amplitude(start + (j+f)*dt) == (1-f)*signal[j] + f*signal[j+1] for 0<f<1 (linear mode);
             nearest mode returns a neighbouring sample (either one on the tie f = 0.5); times outside the sampled
             window return outside_value; period / phase_shift arguments are ignored
(c) cw     : |a(t)| <= 1 for all t; a(0) == 0; the carrier has the requested period and the amplitude ramps up:
             |a(t+T)| >= |a(t)| for t >= 0; after the start-up periods the full amplitude is reached
(d) pulse  : |a(t)| <= 1 for all t and all widths / carriers; the envelope helpers stay in [0, 1]
"""

from __future__ import annotations

PROPERTY = "C41"
RULE = (
    "seeded wave parameters over 1e-30..1e30 (ints included) for each way of construction; sampled signals of length "
    "2..256 (random, constant, alternating huge, ramp) with positive/negative/zero start_time and dt from 1e-18 to 1, "
    "queried at every sample time, at random and near-edge fractions, as scalars, vectors and matrices; CW profiles with "
    "0..12 start-up periods and random phases over negative, ramp, plateau and huge times; Gaussian pulses with "
    "width / carrier given as wavelength, frequency or period. A signature is (sub-check, construction, value class, "
    "query shape); evaluations whose expected value is identically zero are trivial."
)
REQUIRED_COUNTERS = ["wave_checks", "custom_sample_checks", "custom_between_checks", "cw_checks", "pulse_checks"]
ASSUMPTIONS = [
    "identities judged at 1e-9 relative (observed 1e-16); bounds at 1 + 1e-12",
    "the value held for one more step after the last sample of a custom signal is not part of the statement",
    "num_startup_periods = 0 (no ramp) is treated as a legal CW profile",
]
CASE_TIMEOUT = {"quick": 600, "thorough": 1800}

C0 = 299792458.0
MECH_CW_N0 = "cw-zero-startup-periods-nan-at-t0"


def cases(tier, rng):
    out = []
    n = 3 if tier == "quick" else 14
    for i in range(n):
        out.append({"kind": "wave", "n": 400 if tier == "quick" else 1500})
    for i in range(2 * n):
        out.append({"kind": "custom", "n": 40 if tier == "quick" else 200})
    for i in range(n):
        out.append({"kind": "cw", "n": 40 if tier == "quick" else 200})
    for i in range(n):
        out.append({"kind": "pulse", "n": 40 if tier == "quick" else 200})
    return out


def run_case(case):
    from vf import bootstrap
    from vf.result import Res

    bootstrap.ensure()
    from vf.oracles import xla_cache

    xla_cache.enable("c41")
    r = Res()
    {"wave": _wave, "custom": _custom, "cw": _cw, "pulse": _pulse}[case["kind"]](case, r)
    return r.to_dict()


def _mag(rng):
    c = int(rng.integers(6))
    if c == 0:
        return float(rng.integers(1, 1000)), "integer"
    if c == 1:
        return float(10.0 ** rng.uniform(-30, -12)), "tiny"
    if c == 2:
        return float(10.0 ** rng.uniform(12, 30)), "huge"
    return float(10.0 ** rng.uniform(-9, 3)), "ordinary"


def _close(a, b, rtol=1e-9):
    return abs(a - b) <= rtol * max(abs(a), abs(b))


# ---- (a) ---------------------------------------------------------------------------------------------
def _wave(case, r):
    import numpy as np

    from fdtdx.core.wavelength import WaveCharacter

    rng = np.random.default_rng(case["seed"])
    last = None
    for it in range(case["n"]):
        given = ["period", "frequency", "wavelength"][it % 3]
        v, tag = _mag(rng)
        as_int = tag == "integer" and rng.random() < 0.5
        val = int(v) if as_int else v
        ph = float(rng.choice([0.0, float(rng.uniform(-7, 7))]))
        wc = WaveCharacter(**{given: val}, phase_shift=ph)
        T, f, lam = wc.get_period(), wc.get_frequency(), wc.get_wavelength()
        ctx = {"given": given, "value": val, "period": T, "frequency": f, "wavelength": lam}
        r.count("wave_checks", 4)
        ok = True
        if not _close(T * f, 1.0):
            ok = False
            r.violate("period * frequency != 1", ctx)
        if not _close(lam, C0 * T):
            ok = False
            r.violate("wavelength != c * period", ctx)
        if {"period": T, "frequency": f, "wavelength": lam}[given] != val:
            ok = False
            r.violate("the given quantity is not returned unchanged", ctx)
        if wc.phase_shift != ph:
            ok = False
            r.violate("phase shift not kept", {**ctx, "phase_shift": ph, "got": wc.phase_shift})
        if ok:
            r.ok(f"wave:{given}:{tag}:{'int' if as_int else 'float'}:{'phase' if ph else 'nophase'}", n=4)
        r.branch(f"wave:{given}")
        last = ctx
        if it % 40 == 0:
            for kw in ({}, {"period": 1e-15, "frequency": 1e15}, {"period": 1e-15, "wavelength": 1e-6}, {"frequency": 1.0, "wavelength": 1.0}, {"period": 1.0, "frequency": 1.0, "wavelength": C0}):
                try:
                    WaveCharacter(**kw)
                except Exception:  # noqa: BLE001  documented: "Need to set exactly one of ..."
                    r.ok(f"wave:reject:{len(kw)}")
                    r.count("rejections")
                else:
                    r.violate("WaveCharacter accepted zero / several defining quantities", {"kwargs": kw})
    r.sample = last


# ---- (b) ---------------------------------------------------------------------------------------------
def _signal(rng, n, style):
    import numpy as np

    if style == "const":
        return np.full(n, float(rng.normal()) + 3.0)
    if style == "ramp":
        return float(rng.normal()) * np.arange(n) + float(rng.normal())
    if style == "alternating_huge":
        s = np.where(np.arange(n) % 2 == 0, 1e30, -1e-30)
        return s * rng.uniform(0.5, 2.0, size=n)
    if style == "zeros_but_one":
        s = np.zeros(n)
        s[int(rng.integers(n))] = 1.0
        return s
    return rng.normal(size=n)


def _custom(case, r):
    import jax.numpy as jnp
    import numpy as np

    from fdtdx.objects.sources.profile import CustomTimeSignalProfile

    rng = np.random.default_rng(case["seed"])
    last = None
    for it in range(case["n"]):
        n = int(rng.choice([2, 3, 17, 256]))
        style = ["random", "const", "ramp", "alternating_huge", "zeros_but_one"][it % 5]
        sig = _signal(rng, n, style)
        dt = float(rng.choice([1.0, 0.1, 1e-18, float(10.0 ** rng.uniform(-17, -12)), 1.0 / 3.0]))
        st_c = int(rng.integers(4))
        start = [0.0, dt * float(rng.integers(1, 50)), -dt * float(rng.uniform(0.5, 40)), float(rng.normal()) * dt * 1e3][st_c]
        outside = float(rng.choice([0.0, -7.5, 123.0]))
        mode = "nearest" if it % 4 == 3 else "linear"
        prof = CustomTimeSignalProfile(signal=sig, time_step_duration=dt, start_time=start, interpolation=mode, outside_value=outside)
        scale = float(np.max(np.abs(sig)))
        ctx = {"n": n, "style": style, "dt": dt, "start_time": start, "interpolation": mode, "outside_value": outside, "signal": sig.tolist() if n <= 17 else f"seeded:{case['seed']}:{it}"}
        period, ph = float(10.0 ** rng.uniform(-16, 0)), float(rng.uniform(-3, 3))
        # sample times, exactly as a time loop forms them relative to the first sample
        j = np.arange(n)
        t_s = start + j * dt
        got = np.asarray(prof.get_amplitude(jnp.asarray(t_s), period, ph))
        r.count("custom_sample_checks", n)
        err = np.abs(got - sig)
        tol = 1e-9 * np.maximum(np.abs(sig), np.abs(np.roll(sig, 1)) * 1e-6) + 1e-9 * scale * (0 if style == "alternating_huge" else 1) + 1e-300
        # at a sample time the answer may be formed from the neighbouring pair with a weight of ~1e-16
        tol = np.maximum(tol, 1e-12 * np.maximum(np.abs(np.roll(sig, 1)), np.abs(np.roll(sig, -1))))
        if got.shape == sig.shape and np.all(err <= tol):
            r.ok(f"custom:samples:{mode}:{style}:n={n}:start={st_c}" if scale > 0 else None, n=n)
        else:
            k = int(np.argmax(err - tol)) if got.shape == sig.shape else 0
            r.violate(
                "custom signal not reproduced at a sample time",
                {**ctx, "sample_index": k, "time": float(t_s[k]), "got": float(np.ravel(got)[k]) if got.size > k else None, "want": float(sig[k]), "first_or_last": bool(k in (0, n - 1))},
            )
        # first and last sample as scalars (0-d query)
        for k in (0, n - 1):
            g = np.asarray(prof.get_amplitude(jnp.asarray(float(t_s[k])), period))
            r.count("custom_sample_checks")
            if g.shape == () and abs(float(g) - sig[k]) <= tol[k]:
                r.ok(f"custom:scalar_query:{'first' if k == 0 else 'last'}:{mode}")
            else:
                r.violate("custom signal not reproduced at its first/last sample (scalar query)", {**ctx, "sample_index": k, "time": float(t_s[k]), "got": float(g) if g.shape == () else list(g.shape), "want": float(sig[k])})
        # between samples
        m = 64
        jj = rng.integers(0, n - 1, size=m)
        ff = rng.uniform(0.01, 0.99, size=m)
        ff[:6] = [1e-6, 1 - 1e-6, 0.5, 0.25, 0.75, 0.499]
        shape = [(m,), (8, 8), (2, 4, 8)][it % 3]
        t_b = (start + (jj + ff) * dt).reshape(shape)
        got = np.asarray(prof.get_amplitude(jnp.asarray(t_b), period, ph)).reshape(-1)
        r.count("custom_between_checks", m)
        a, b = sig[jj], sig[jj + 1]
        # the fraction actually realised by the float time
        f_real = (t_b.reshape(-1) - start) / dt - jj
        if mode == "linear":
            want = (1 - f_real) * a + f_real * b
            tol_b = 1e-9 * np.maximum(np.abs(a), np.abs(b)) + 1e-300
            good = np.abs(got - want) <= tol_b
        else:
            near_tie = np.abs(f_real - 0.5) < 1e-6
            good = np.where(near_tie, (got == a) | (got == b), got == np.where(f_real < 0.5, a, b))
            want = np.where(f_real < 0.5, a, b)
        if got.shape == (m,) and np.all(good):
            r.ok(f"custom:between:{mode}:{style}:n={n}:q={len(shape)}d" if scale > 0 else None, n=m)
        else:
            k = int(np.argmin(good)) if got.shape == (m,) else 0
            r.violate(
                "custom signal is not interpolated linearly between samples" if mode == "linear" else "nearest mode does not return the nearer sample",
                {**ctx, "between_samples": [int(jj[k]), int(jj[k]) + 1], "fraction": float(f_real[k]), "time": float(t_b.reshape(-1)[k]), "got": float(got[k]) if got.size > k else None, "want": float(want[k]), "s_j": float(a[k]), "s_j+1": float(b[k])},
            )
        # outside the window
        t_o = np.array([start - dt, start - 1e3 * dt, start + (n + 1) * dt, start + 1e6 * dt, start - 0.5 * dt])
        got = np.asarray(prof.get_amplitude(jnp.asarray(t_o), period))
        r.count("custom_outside_checks", len(t_o))
        if np.all(got == outside):
            r.ok(f"custom:outside:{outside}")
        else:
            r.violate("time outside the sampled window does not return outside_value", {**ctx, "times": t_o.tolist(), "got": got.tolist()})
        r.branch(f"custom:{mode}:{style}")
        r.branch(f"custom:n={n}")
        last = ctx
    # documented rejections
    for bad in (dict(signal=np.zeros((2, 2)), time_step_duration=1.0), dict(signal=np.zeros(1), time_step_duration=1.0), dict(signal=np.zeros(3), time_step_duration=0.0), dict(signal=np.zeros(3), time_step_duration=1.0, interpolation="cubic")):
        try:
            CustomTimeSignalProfile(**bad)
        except ValueError:
            r.ok("custom:reject")
            r.count("rejections")
        else:
            r.violate("malformed custom signal accepted", {"kwargs": {k: (list(v.shape) if hasattr(v, "shape") else v) for k, v in bad.items()}})
    r.sample = last


# ---- (c) ---------------------------------------------------------------------------------------------
def _cw(case, r):
    import jax.numpy as jnp
    import numpy as np

    from fdtdx.objects.sources.profile import SingleFrequencyProfile

    rng = np.random.default_rng(case["seed"])
    last = None
    P = 64  # samples per period
    for it in range(case["n"]):
        N = int([4, 0, 1, 2, 12, 7, 3][it % 7])
        T = float(10.0 ** rng.uniform(-16, -9)) if it % 3 else float(rng.choice([1.0, 3e-15, 0.5]))
        kw = {}
        if it % 2:
            kw["phase_shift"] = float(rng.uniform(-7, 7))
        prof = SingleFrequencyProfile(num_startup_periods=N, **kw)
        ph = float(rng.choice([0.0, float(rng.uniform(-7, 7))]))
        ctx = {"num_startup_periods": N, "period": T, "profile_phase_shift": prof.phase_shift, "call_phase_shift": ph}
        nper = 16
        k = np.arange(nper * P)
        t = k * (T / P)
        a = np.asarray(prof.get_amplitude(jnp.asarray(t), T, ph))
        t_neg = -np.abs(rng.uniform(0, 50, size=32)) * T
        t_huge = np.concatenate([rng.uniform(1e3, 1e6, size=16) * T, [1e12 * T, 0.0]])  # phase stays finite
        a_neg = np.asarray(prof.get_amplitude(jnp.asarray(t_neg), T, ph))
        a_huge = np.asarray(prof.get_amplitude(jnp.asarray(t_huge), T, ph))
        allv = np.concatenate([a, a_neg, a_huge])
        r.count("cw_checks", 4)
        sig = f"cw:N={N}:{'ownphase' if kw else 'default'}:{'callphase' if ph else 'nophase'}"
        # never exceeds unit amplitude (NaN is not <= 1)
        bad = ~(np.abs(allv) <= 1.0 + 1e-12)
        if bad.any():
            tt = np.concatenate([t, t_neg, t_huge])
            i = int(np.argmax(bad))
            mech = MECH_CW_N0 if (N == 0 and np.all(tt[bad] == 0.0) and np.all(np.isnan(allv[bad]))) else None
            r.violate("continuous-wave amplitude exceeds 1 or is not a number", {**ctx, "time": float(tt[i]), "amplitude": float(allv[i]) if np.isfinite(allv[i]) else str(allv[i])}, mechanism=mech)
        else:
            r.ok(sig)
        # starts from zero when there is a ramp
        if N > 0:
            if a[0] == 0.0 and np.all(a_neg == 0.0):
                r.ok(None)
            else:
                r.violate("continuous-wave amplitude is not zero at / before t = 0", {**ctx, "a(0)": float(a[0]), "max|a(t<0)|": float(np.max(np.abs(a_neg)))})
        # ramps up with a carrier of the requested period: |a(t+T)| >= |a(t)|
        fin = np.isfinite(a)
        cur, nxt = np.abs(a[:-P]), np.abs(a[P:])
        both = fin[:-P] & fin[P:]
        if np.all(nxt[both] >= cur[both] - 1e-9):
            r.ok(sig + ":ramp")
        else:
            i = int(np.argmax(np.where(both, cur - nxt, -np.inf)))
            r.violate("continuous-wave amplitude does not ramp up period over period", {**ctx, "time": float(t[i]), "|a(t)|": float(cur[i]), "|a(t+T)|": float(nxt[i])})
        # full amplitude reached after the start-up periods, and not (much) earlier than announced
        after = np.abs(a[(k >= max(N, 0) * P) & fin])
        peak_after = float(after.max()) if after.size else 0.0
        ok = peak_after >= 0.99
        if N >= 2:
            first = np.abs(a[: P][fin[:P]])
            ok = ok and float(first.max()) <= 1.0 / N + 1e-9
        if ok:
            r.ok(sig + ":plateau")
        else:
            r.violate("continuous-wave profile does not reach full amplitude after its start-up periods (or is at full amplitude during the first one)", {**ctx, "peak_after_startup": peak_after})
        r.branch(f"cw:N={N}")
        last = {**ctx, "peak_after_startup": peak_after}
    r.sample = last


# ---- (d) ---------------------------------------------------------------------------------------------
def _pulse(case, r):
    import jax.numpy as jnp
    import numpy as np

    from fdtdx.core.wavelength import WaveCharacter
    from fdtdx.core.window import GaussianWindow, gaussian_envelope
    from fdtdx.objects.sources.profile import GaussianPulseProfile

    rng = np.random.default_rng(case["seed"])
    last = None
    for it in range(case["n"]):
        fc = float(10.0 ** rng.uniform(9, 16))
        rel = float(10.0 ** rng.uniform(-3, 0.7))  # spectral width relative to the carrier, up to 5x
        fw = fc * rel
        how_c = ["wavelength", "frequency", "period"][it % 3]
        how_w = ["frequency", "period", "wavelength"][(it // 3) % 3]

        def wc(f, how, **kw):
            return WaveCharacter(**{how: {"wavelength": C0 / f, "frequency": f, "period": 1.0 / f}[how]}, **kw)

        phs = float(rng.choice([0.0, float(rng.uniform(-7, 7))]))
        prof = GaussianPulseProfile(spectral_width=wc(fw, how_w), center_wave=wc(fc, how_c, phase_shift=phs))
        sigma = 1.0 / (2 * np.pi * fw)
        ctx = {"center_frequency": fc, "spectral_width": fw, "center_given_as": how_c, "width_given_as": how_w, "phase_shift": phs}
        # dense around the peak (6 sigma), carrier-resolved where possible, plus far / negative / huge times
        t = np.concatenate([np.linspace(0, 12 * sigma, 1536), 6 * sigma + np.linspace(-2, 2, 448) / fc, [-sigma, -1e3 * sigma, 1e6 * sigma, 1e12 / fc, 0.0, 6 * sigma] + [0.0] * 58])
        ph = float(rng.choice([0.0, float(rng.uniform(-7, 7))]))
        a = np.asarray(prof.get_amplitude(jnp.asarray(t), 1.0 / fc, ph))
        r.count("pulse_checks", 2)
        bad = ~(np.abs(a) <= 1.0 + 1e-12)
        sig = f"pulse:{how_c}/{how_w}:rel={int(np.log10(rel) * 2)}:{'phase' if phs else 'nophase'}"
        if bad.any():
            i = int(np.argmax(bad))
            r.violate("Gaussian pulse amplitude exceeds 1 or is not a number", {**ctx, "time": float(t[i]), "amplitude": float(a[i]) if np.isfinite(a[i]) else str(a[i])})
        else:
            r.ok(sig if np.any(a != 0) else None)
        r.worst("max_pulse_amplitude", float(np.nanmax(np.abs(a))))
        env = np.asarray(gaussian_envelope(jnp.asarray(t), 6 * sigma, sigma))
        win = np.asarray(GaussianWindow(center_time=6 * sigma, sigma_time=sigma).get_window(jnp.asarray(t)))
        if np.all((env >= 0) & (env <= 1.0 + 1e-12)) and np.all((win >= 0) & (win <= 1.0 + 1e-12)) and np.all(np.abs(a) <= env + 1e-12):
            r.ok(sig + ":envelope")
        else:
            i = int(np.argmax(np.abs(a) - env))
            r.violate("Gaussian envelope leaves [0,1] or the pulse exceeds its envelope", {**ctx, "time": float(t[i]), "amplitude": float(a[i]), "envelope": float(env[i])})
        r.branch(f"pulse:center={how_c}")
        r.branch(f"pulse:width={how_w}")
        last = ctx
    try:
        GaussianPulseProfile(spectral_width=WaveCharacter(frequency=1e13, phase_shift=0.5), center_wave=WaveCharacter(frequency=1e14))
    except ValueError:
        r.ok("pulse:reject_width_phase")
        r.count("rejections")
    else:
        r.violate("spectral_width with a phase shift accepted", {})
    r.sample = last

"""C01 — discrete Yee energy conserved in closed source-free domains; conductivity only dissipates.

Invariant-at-step monitor: the real `forward` is stepped (lax.scan) from random wall-consistent
states; after every step the monitor evaluates
    Q_k = sum W_E eps |E_k|^2 + sum W_H mu Re(conj(H_k) H_{k-1})
and the distance of the state from the wall conditions.
"""

from __future__ import annotations

PROPERTY = "C01"
RULE = (
    "seeded scenes: shape 1..7 per axis; per axis one of wall pairs from {none,pec,pmc}^2, periodic, bloch(random "
    "phase), one-sided periodic+wall; eps/mu tiers {iso, diag} x {nonmagnetic, magnetic}; sigma_E none/iso/diag; "
    "uniform or random rectilinear grid; real or complex fields. distinct = (axis kinds, material tier, lossy, "
    "grid kind, complex, degenerate-shape class); non-trivial iff Q_1 > 0"
)
REQUIRED_COUNTERS = ["steps_observed", "energy_comparisons"]
ASSUMPTIONS = [
    "on stretched grids every Yee component is weighted by its own primal/dual control volume (the quantity the leapfrog scheme conserves); on uniform grids this is the cell volume",
    "Q_0 needs H at step -1/2 and is not judged; Q_1..Q_K are",
    "states are projected onto the wall conditions with the library's own apply_post_*_update before stepping",
]
CASE_TIMEOUT = {"quick": 900, "thorough": 2400}

WALLS = ("none", "pec", "pmc")


def _axis_kind(rng):
    u = rng.random()
    if u < 0.45:
        return {"k": "wall", "lo": WALLS[int(rng.integers(3))], "hi": WALLS[int(rng.integers(3))]}
    if u < 0.65:
        return {"k": "periodic"}
    if u < 0.85:
        return {"k": "bloch", "phase": float(rng.choice([0.0, 0.3, 1.7, 3.5, -2.2, rng.uniform(-6, 6)]))}
    return {"k": "onesided", "side": ["min", "max"][int(rng.integers(2))], "wall": WALLS[int(rng.integers(3))]}


def cases(tier, rng):
    n_cases = 14 if tier == "quick" else 56
    per = 3 if tier == "quick" else 27
    out = []
    # material classes are enumerated, not drawn: every (permittivity tier, conductivity tier, loss strength) combination
    # -- in particular one-component conductivity on three-component permittivity and vice versa, weak and strong --
    # occurs in every tier
    classes = [(e, "no", "weak") for e in ("iso", "diag")] + [
        (e, l, st) for e in ("iso", "diag") for l in ("iso", "diag") for st in ("weak", "strong")
    ]
    n_scene = 0
    for i in range(n_cases):
        scenes_ = []
        for j in range(per):
            eps_tier, lossy_tier, strength = classes[n_scene % len(classes)]
            n_scene += 1
            shape = [int(rng.integers(1, 8)) for _ in range(3)]
            if (i + j) % 5 == 0:
                shape[int(rng.integers(3))] = 1
            if (i + j) % 7 == 0:
                shape = [1, 1, int(rng.integers(2, 8))]
                rng.shuffle(shape)
                shape = [int(x) for x in shape]
            axes = [_axis_kind(rng) for _ in range(3)]
            scenes_.append(
                {
                    "shape": shape,
                    "axes": axes,
                    "eps_tier": eps_tier,
                    "mu_tier": ["scalar", "iso", "diag"][int(rng.integers(3))],
                    "lossy": lossy_tier,
                    "loss_number": strength,
                    "grid": ["uniform", "rect"][int(rng.integers(2))],
                    "complex": bool(rng.integers(2)),
                    "steps": int(rng.integers(20, 120 if tier == "quick" else 300)),
                    "seed": int(rng.integers(1 << 30)),
                }
            )
        out.append({"scenes": scenes_})
    return out


def _build(sc):
    import numpy as np

    from vf import scenes, sim

    rng = np.random.default_rng(sc["seed"])
    s = scenes.default_scene(shape=sc["shape"], steps=sc["steps"])
    spacing = 50e-9
    if sc["grid"] == "rect":
        s["grid"] = {"kind": "rect", "edges": [sim.random_edges(rng, n, spacing) for n in sc["shape"]]}
    bloch = [0.0, 0.0, 0.0]
    cplx = sc["complex"]
    for a, ak in enumerate(sc["axes"]):
        lo, hi = f"min_{'xyz'[a]}", f"max_{'xyz'[a]}"
        if ak["k"] == "wall":
            s["faces"][lo] = {"type": ak["lo"]}
            s["faces"][hi] = {"type": ak["hi"]}
        elif ak["k"] == "periodic":
            s["faces"][lo] = {"type": "periodic"}
            s["faces"][hi] = {"type": "periodic"}
        elif ak["k"] == "bloch":
            s["faces"][lo] = {"type": "bloch"}
            s["faces"][hi] = {"type": "bloch"}
            if s["grid"]["kind"] == "rect":
                e = s["grid"]["edges"][a]
                L = e[-1] - e[0]
            else:
                L = sc["shape"][a] * spacing
            bloch[a] = ak["phase"] / L
            if ak["phase"] != 0.0:
                cplx = True
        else:
            per, wall = (lo, hi) if ak["side"] == "min" else (hi, lo)
            s["faces"][per] = {"type": "periodic"}
            s["faces"][wall] = {"type": ak["wall"]}
    s["bloch"] = bloch
    s["complex"] = True if cplx else None
    vol = {"eps": 2.0 if sc["eps_tier"] == "iso" else [2.0, 3.0, 4.0]}
    if sc["mu_tier"] == "iso":
        vol["mu"] = 1.5
    elif sc["mu_tier"] == "diag":
        vol["mu"] = [1.5, 2.0, 2.5]
    if sc["lossy"] == "iso":
        vol["sig_e"] = 1.0
    elif sc["lossy"] == "diag":
        vol["sig_e"] = [1.0, 2.0, 3.0]
    s["volume"] = vol
    return s, rng


def run_case(case):
    from vf import bootstrap
    from vf.result import Res

    bootstrap.ensure()
    r = Res()
    for sc in case["scenes"]:
        _one(sc, r)
    return r.to_dict()


def _one(sc, r):
    import jax
    import jax.numpy as jnp
    import numpy as np

    from fdtdx.constants import eta0
    from vf import scenes, sim

    s, rng = _build(sc)
    built = scenes.build(s)
    arrays, objects, config = built["arrays"], built["objects"], built["config"]
    shape = tuple(sc["shape"])
    # random positive materials of the allocated tier
    ie = arrays.inv_permittivities
    arrays = arrays.aset("inv_permittivities", jnp.asarray(1.0 / rng.uniform(1.0, 4.0, size=ie.shape), dtype=ie.dtype))
    im = arrays.inv_permeabilities
    if isinstance(im, jax.Array) and im.ndim > 0:
        arrays = arrays.aset("inv_permeabilities", jnp.asarray(1.0 / rng.uniform(1.0, 4.0, size=im.shape), dtype=im.dtype))
    lossy = arrays.electric_conductivity is not None
    if sc["lossy"] != "no" and not lossy:
        r.inconclusive("conductive volume did not allocate a conductivity array")
        return
    c = config.courant_number
    if lossy:
        se = arrays.electric_conductivity
        # half-step loss number a = c*sigma*eta0/(2 eps): weak loss, or (every other lossy scene) anything up to the
        # good-conductor regime a >> 1 -- "non-negative conductivity" in the property has no upper bound
        if sc.get("loss_number", "weak") == "weak":
            a_num = rng.uniform(0.0, 0.5, size=se.shape) * (rng.random(se.shape) < 0.7)
        else:
            a_num = 10.0 ** rng.uniform(-1.0, 2.0, size=se.shape) * (rng.random(se.shape) < 0.7)
        r.branch("eps:%s,sigma:%s,loss_number:%s" % (sc["eps_tier"], sc["lossy"], sc.get("loss_number", "weak")))
        inv_eps_b = np.broadcast_to(np.asarray(arrays.inv_permittivities), np.broadcast_shapes(se.shape, ie.shape))
        sig = a_num * 2.0 / (c * eta0 * inv_eps_b)
        if sig.shape != se.shape:
            sig = sig[: se.shape[0]]
        arrays = arrays.aset("electric_conductivity", jnp.asarray(sig, dtype=se.dtype))
    E0, H0 = sim.random_fields(rng, arrays, objects)
    arrays = sim.set_fields(arrays, E0, H0)
    WE, WH = sim.yee_weights(config, shape)
    eps = 1.0 / np.asarray(arrays.inv_permittivities)
    imu = arrays.inv_permeabilities
    mu = 1.0 / np.asarray(imu) if isinstance(imu, jax.Array) and imu.ndim > 0 else np.float64(1.0 / float(imu))
    WEe = jnp.asarray(WE * eps)
    WHm = jnp.asarray(WH * mu)
    K = sc["steps"]
    key = jax.random.PRNGKey(0)
    # sum_k of this is the loss a semi-implicit conductive update is expected to dissipate (only used to
    # decide whether *some* strict decrease must be visible, never as an equality)
    WEs = jnp.asarray(WE * (c * eta0 / 2.0) * np.asarray(arrays.electric_conductivity)) if lossy else jnp.zeros(())

    def body(state, _):
        Hprev = state[1].fields.H
        new = sim.forward_step(state, built, key=key)
        E, H = new[1].fields.E, new[1].fields.H
        Q = jnp.sum(WEe * (E.real**2 + E.imag**2)) + jnp.sum(WHm * jnp.real(jnp.conj(H) * Hprev))
        Ep, Hp = sim.project_walls(E, H, objects)
        wall = jnp.maximum(jnp.max(jnp.abs(E - Ep)), jnp.max(jnp.abs(H - Hp)))
        diss = jnp.sum(WEs * jnp.abs(E + state[1].fields.E) ** 2)
        return new, (Q, wall, diss)

    @jax.jit
    def go(arr):
        st = (jnp.asarray(0, dtype=jnp.int32), arr)
        return jax.lax.scan(body, st, None, length=K)

    final, (Q, wall, diss) = go(arrays)
    Q = np.asarray(Q, dtype=np.float64)
    wall = np.asarray(wall)
    r.count("steps_observed", K)
    kinds = tuple(
        (ak["k"], ak.get("lo"), ak.get("hi"), ak.get("side"), ak.get("wall"), ak.get("phase", 0.0) != 0.0) for ak in sc["axes"]
    )
    deg = tuple(sorted(min(n, 3) for n in shape))
    sig = ("C01", kinds, sc["eps_tier"], sc["mu_tier"], sc["lossy"], sc["grid"], bool(jnp.iscomplexobj(E0)), deg)
    for ak in sc["axes"]:
        r.branch("axis:" + ak["k"])
    r.branch("grid:" + sc["grid"])
    r.branch("lossy:" + sc["lossy"])
    r.branch("complex" if jnp.iscomplexobj(E0) else "real")
    if 1 in shape:
        r.branch("size1_axis")
    witness = {"scene": sc}
    Q1 = Q[0]
    nontriv = abs(Q1) > 0 and np.isfinite(Q1)
    if not np.all(np.isfinite(Q)):
        r.violate("energy became non-finite", {**witness, "first_bad_step": int(np.argmax(~np.isfinite(Q))) + 1})
        return
    if float(wall.max()) != 0.0:
        k = int(np.argmax(wall > 0))
        r.violate("state left the wall conditions after a step", {**witness, "step": k + 1, "deviation": float(wall[k])})
    else:
        r.ok(None)
    r.count("energy_comparisons", K - 1)
    if not lossy:
        dev = np.abs(Q - Q1)
        rel = float(dev.max() / abs(Q1)) if nontriv else 0.0
        r.worst("worst_rel_energy_drift", rel)
        if nontriv and rel > 1e-9:
            k = int(np.argmax(dev))
            r.violate(
                f"discrete energy not conserved: rel drift {rel:.3e} at step {k + 1}",
                {**witness, "step": k + 1, "Q1": float(Q1), "Qk": float(Q[k])},
                sig=sig,
            )
        else:
            r.ok(sig if nontriv else None)
    else:
        inc = np.diff(Q)
        worst = float(inc.max() / abs(Q1)) if nontriv and len(inc) else 0.0
        r.worst("worst_rel_energy_increase_lossy", max(worst, 0.0))
        if nontriv and worst > 1e-12:
            k = int(np.argmax(inc))
            r.violate(
                f"energy increased in a lossy medium by {worst:.3e} (rel) at step {k + 2}",
                {**witness, "step": k + 2, "Qk": float(Q[k]), "Qk1": float(Q[k + 1])},
                sig=sig,
            )
        elif nontriv and float(np.asarray(diss)[1:].sum()) > 1e-6 * abs(Q1) and not (Q[-1] < Q1):
            r.violate(
                "no dissipation although sigma_E |E|^2 is substantial",
                {**witness, "Q1": float(Q1), "QK": float(Q[-1]), "expected_loss": float(np.asarray(diss)[1:].sum())},
                sig=sig,
            )
        else:
            r.ok(sig if nontriv else None)
    r.sample = {"scene": sc, "Q1": float(Q1), "QK": float(Q[-1]), "steps": K}

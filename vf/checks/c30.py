"""C30 — recorded boundary data decompresses to what was recorded.

The REAL `fdtdx.Recorder` is driven step by step (`compress` for t = 0..T-1, then `decompress` for
every t >= start) on seeded random histories; every decompressed value is judged by a numpy oracle
written from the documented behaviour of `LinearReconstructEveryK` / `DtypeConversion`:

* saved steps  S = {start, start+k, start+2k, ...} + {T-1}   ->  the recorded value itself
* other steps  t, p = max{s in S, s < t}, n = min{s in S, s > t} ->  v[p] + (t-p)/(n-p) * (v[n]-v[p])
* widening dtype conversions round-trip bit-exactly (signed zeros, subnormals, inf, nan included)

kinds of cases
  sweep : exhaustive walk over all (T, k, start), 1<=T<=Tmax, 1<=k<=kmax, 0<=start<T (eager mode,
          `jax.disable_jit()` so that thousands of configurations fit into the budget; the same
          fdtdx python code runs, `lax.cond` just picks the branch concretely).  Every configuration is
          run with the plain float64 pipeline and with one rotating variant pipeline
          (widen>lre, lre>widen, complex128, narrow>lre, float32).
  jit   : sampled configurations with the time step TRACED (compress under `lax.scan`, decompress
          under `lax.scan` inside `jax.jit`) - the way the time loop uses the recorder.
  dtype : DtypeConversion-only pipelines over a table of (input dtype -> target dtype) pairs with
          special values; widening pairs bit-exact, narrowing pairs within target precision,
          complex -> real must be rejected unless excluded.
  stack : two stacked time filters; judged only at steps saved by both (exact) - the statement does
          not define the value elsewhere.
"""

from __future__ import annotations

PROPERTY = "C30"
RULE = (
    "sweep: EVERY (T,k,start) with 1<=T<=Tmax, 1<=k<=kmax, 0<=start<T (quick 14/5, thorough 40/8) x {plain float64, "
    "one rotating variant pipeline (quick: on every second configuration)}; random/ramp/constant/mixed-magnitude histories on one "
    "(2,) field; every t>=start decompressed and judged.  jit: sampled configurations with a traced time step over 1-3 "
    "named fields with singleton and scalar shapes.  dtype: conversion table with special values.  stack: two stacked "
    "filters.  A signature is (kind, pipeline, T, k, start) of a "
    "configuration in which at least one non-zero value was compared; all-zero histories are trivial."
)
REQUIRED_COUNTERS = ["saved_step_checks", "interpolated_step_checks", "widening_roundtrip_checks", "traced_step_checks"]
ASSUMPTIONS = [
    "the final step T-1 is always a saved step (as LinearReconstructEveryK documents by construction); the set of "
    "saved steps is computed by the oracle and cross-checked against time_to_array_index()",
    "float64 interpolation judged at 1e-9 of (|v[p]|+|v[n]|) elementwise; pipelines that interpolate or store in "
    "float32 at 8*eps32; saved steps of lossless pipelines bit-exact",
    "steps before start_recording_after are not judged",
    "exhaustive sweep runs under jax.disable_jit(); traced behaviour is sampled by the jit cases",
    "subnormal numbers are not exercised: XLA CPU flushes them to zero in dtype conversions (platform behaviour)",
]
CASE_TIMEOUT = {"quick": 600, "thorough": 1800}

MECH_FIRST_SEGMENT = "lrek-start-gt0-first-segment-interpolated-from-step0"
MECH_SLOT_COLLISION = "lrek-k-ge-total-steps-save-slot-collision"

_BOUNDS = {"quick": (14, 5), "thorough": (40, 8)}
_VARIANTS = ["widen>lre", "lre>widen", "lre/c128", "narrow>lre", "lre/f32"]


def EXHAUSTIVE(tier):
    return True


def coverage_extra(tier, cases, results):
    tmax, kmax = _BOUNDS[tier]
    n = sum(len(range(T)) for T in range(1, tmax + 1)) * kmax
    return {"sweep_Tmax": tmax, "sweep_kmax": kmax, "sweep_configurations": n, "sweep_space": "all (T,k,start), start<T"}


def cases(tier, rng):
    tmax, kmax = _BOUNDS[tier]
    items = [(T, k) for T in range(1, tmax + 1) for k in range(1, kmax + 1)]
    items.sort(key=lambda tk: -(tk[0] ** 2))
    nb = 12 if tier == "quick" else 56
    bins = [[0.0, []] for _ in range(nb)]
    for T, k in items:
        b = min(bins, key=lambda x: x[0])
        b[0] += T * T + 4 * T
        b[1].append([T, k])
    out = [{"kind": "sweep", "tk": b[1], "variant_every": 2 if tier == "quick" else 1} for b in bins if b[1]]
    njit = 4 if tier == "quick" else 14
    per = 6 if tier == "quick" else 30
    for i in range(njit):
        cfgs = []
        for j in range(per):
            T = int(rng.integers(2, tmax + 1))
            k = int(rng.integers(1, kmax + 1))
            start = int(rng.integers(0, T))
            m = j % 5
            if m == 1:
                start = T - 1
            elif m == 2:
                start = 0
            elif m == 3 and T > 2:
                k = int(rng.integers(1, max(2, T // 2)))
                start = int(rng.integers(1, T - 1))
            cfgs.append([T, k, start, (["plain"] + _VARIANTS)[int(rng.integers(0, 6))]])
        out.append({"kind": "jit", "cfgs": cfgs})
    for i in range(2 if tier == "quick" else 6):
        out.append({"kind": "dtype", "n": 2 if tier == "quick" else 20})
    out.append({"kind": "stack", "n": 12 if tier == "quick" else 80})
    return out


# ------------------------------------------------------------------------------------------------
# oracle (pure python / numpy)
# ------------------------------------------------------------------------------------------------
def save_steps(T, k, start):
    s = list(range(start, T, k))
    if s[-1] != T - 1:
        s.append(T - 1)
    return s


def expected_value(hist, S, t):
    """hist: ndarray (T, ...) in the dtype the oracle computes in; returns (value, p, n) (p == n at saved steps)."""
    import bisect

    i = bisect.bisect_right(S, t) - 1
    p = S[i]
    if p == t:
        return hist[t], t, t
    n = S[i + 1]
    w = (t - p) / (n - p)
    return hist[p] + w * (hist[n] - hist[p]), p, n


# ------------------------------------------------------------------------------------------------
# workload helpers
# ------------------------------------------------------------------------------------------------
_SHAPES = [(), (1,), (2,), (3,), (1, 1, 1), (2, 1, 3), (1, 4), (3, 1), (2, 2, 1, 1)]


def _fields(rng, n_fields=None):
    n = int(rng.integers(1, 4)) if n_fields is None else n_fields
    names = ["E_min_x", "H_max_y", "aux"][:n]
    return {nm: _SHAPES[int(rng.integers(len(_SHAPES)))] for nm in names}


def _history(rng, T, shape, style, wide):
    """float64 history (T, *shape); `wide` allows magnitudes 1e-30..1e30, else 1e-3..1e3."""
    import numpy as np

    full = (T,) + tuple(shape)
    if style == "zeros":
        return np.zeros(full)
    if style == "const":
        return np.full(full, float(rng.normal()) + 2.0)
    if style == "ramp":  # exactly linear in t -> interpolation must reproduce the history at EVERY step
        a = rng.integers(-9, 10, size=shape).astype(float)
        b = rng.integers(-9, 10, size=shape).astype(float)
        t = np.arange(T, dtype=float).reshape((T,) + (1,) * len(shape))
        return a * t + b + 0.0
    h = rng.normal(size=full)
    if style == "mixed":
        ex = rng.uniform(-30, 30, size=full) if wide else rng.uniform(-3, 3, size=full)
        h = h * 10.0**ex
        h[rng.random(size=full) < 0.1] = 0.0
    return h


def _pipeline(variant, k, start, fields):
    """returns (modules, input numpy dtype, oracle mode, excluded field names)"""
    import jax.numpy as jnp
    import numpy as np

    from fdtdx.interfaces.modules import DtypeConversion as D
    from fdtdx.interfaces.time_filter import LinearReconstructEveryK as L

    lre = L(k=k, start_recording_after=start)
    if variant == "plain":
        return [lre], np.float64, "exact64", ()
    if variant == "widen>lre":
        excl = ("aux",) if "aux" in fields else ()
        return [D(dtype=jnp.float64, exclude_filter=excl), lre], np.float32, "f32", excl
    if variant == "lre>widen":
        return [lre, D(dtype=jnp.float64)], np.float32, "f32", ()
    if variant == "lre/c128":
        return [lre], np.complex128, "exact64", ()
    if variant == "narrow>lre":
        return [D(dtype=jnp.float32), lre], np.float64, "narrow32", ()
    if variant == "lre/f32":
        return [lre], np.float32, "f32", ()
    raise ValueError(variant)


def _init(mods, fields, in_dtype, T):
    import jax

    from fdtdx.interfaces.recorder import Recorder

    rec = Recorder(modules=mods)
    sd = {nm: jax.ShapeDtypeStruct(tuple(sh), in_dtype) for nm, sh in fields.items()}
    return rec.init_state(input_shape_dtypes=sd, max_time_steps=T, backend="cpu")


def _drive_eager(rec, st, hist, T, ts):
    import jax
    import jax.numpy as jnp
    import numpy as np

    key = jax.random.PRNGKey(7)
    out = {}
    with jax.disable_jit():
        for t in range(T):
            st = rec.compress({nm: jnp.asarray(h[t]) for nm, h in hist.items()}, st, jnp.asarray(t, dtype=jnp.int32), key)
        for t in ts:
            v, st = rec.decompress(st, jnp.asarray(t, dtype=jnp.int32), key)
            out[t] = {nm: np.asarray(a) for nm, a in v.items()}
    return out


def _drive_traced(rec, st, hist, T, ts):
    import jax
    import jax.numpy as jnp
    import numpy as np

    key = jax.random.PRNGKey(7)
    jh = {nm: jnp.asarray(h) for nm, h in hist.items()}

    @jax.jit
    def comp(st, jh):
        def body(st, t):
            return rec.compress({nm: h[t] for nm, h in jh.items()}, st, t, key), None

        return jax.lax.scan(body, st, jnp.arange(T, dtype=jnp.int32))[0]

    @jax.jit
    def dec(st, tt):
        def body(st, t):
            v, st = rec.decompress(st, t, key)
            return st, v

        return jax.lax.scan(body, st, tt)[1]

    st = comp(st, jh)
    vals = dec(st, jnp.asarray(list(ts), dtype=jnp.int32))
    vals = {nm: np.asarray(a) for nm, a in vals.items()}
    return {t: {nm: a[i] for nm, a in vals.items()} for i, t in enumerate(ts)}


class _Viol:
    """Collects violations so that unclassified ones are never crowded out by classified ones."""

    def __init__(self):
        self.fresh = []
        self.by_mech = {}
        self.n = 0

    def add(self, what, witness, mech):
        self.n += 1
        if mech is None:
            if len(self.fresh) < 6:
                self.fresh.append((what, witness, None))
        else:
            self.by_mech.setdefault(mech, [])
            if len(self.by_mech[mech]) < 1:
                self.by_mech[mech].append((what, witness, mech))

    def flush(self, r):
        for what, w, m in self.fresh:
            r.violate(what, w, m)
        for m, lst in sorted(self.by_mech.items()):
            for what, w, _ in lst:
                r.violate(what, w, m)
        emitted = len(self.fresh) + sum(len(v) for v in self.by_mech.values())
        if self.n > emitted:
            r.count("violating_evaluations_not_listed", self.n - emitted)


def _slot_check(rec, T, k, start, S, r, V, ctx):
    """time_to_array_index must be -1 off the save steps and injective into [0, n_slots) on them."""
    import jax
    import jax.numpy as jnp

    from fdtdx.interfaces.time_filter import LinearReconstructEveryK as L

    flt = [m for m in rec.modules if isinstance(m, L)][0]
    with jax.disable_jit():
        slots = [int(flt.time_to_array_index(jnp.asarray(t, dtype=jnp.int32))) for t in range(T)]
    collision = False
    want_saved = set(S)
    got_saved = {t for t, s in enumerate(slots) if s != -1}
    r.count("slot_map_checks")
    if got_saved != want_saved:
        V.add(
            "set of saved steps differs from {start+jk} + {T-1}",
            {**ctx, "saved_by_filter": sorted(got_saved), "expected": S},
            None,
        )
    used = [slots[t] for t in S]
    n_slots = int(flt._array_size)
    if len(set(used)) != len(used) or any(u < 0 or u >= n_slots for u in used):
        collision = True
        mech = MECH_SLOT_COLLISION if (k >= T and T >= 2 and start < T - 1) else None
        V.add(
            "two save steps share one storage slot (time_to_array_index not injective on the save steps)",
            {**ctx, "save_steps": S, "slots": used, "n_slots": n_slots},
            mech,
        )
    else:
        r.ok(None)
    return collision


def _tols(mode):
    import numpy as np

    if mode == "exact64":
        return 0.0, 1e-9
    if mode == "f32":
        return 0.0, 8 * float(np.finfo(np.float32).eps)
    if mode == "narrow32":
        e = float(np.finfo(np.float32).eps)
        return e, 8 * e
    raise ValueError(mode)


_SWEEP_FIELDS = {
    # fixed layouts in the exhaustive sweep: every new (slots, shape, dtype) costs eager-op compilations, so
    # shape variety (scalars, singleton axes, several fields) is driven by the jit cases instead
    "plain": {"E_min_x": (2,)},
    "widen>lre": {"E_min_x": (2,)},
    "lre>widen": {"H_max_y": (2,)},
    "lre/c128": {"E_min_x": (2,)},
    "narrow>lre": {"E_min_x": (2,)},
    "lre/f32": {"E_min_x": (2,)},
}


def _judge_config(r, V, kind, variant, T, k, start, rng, driver, style=None, fields=None):
    """One configuration: build, drive, judge every t >= start.  Returns nothing; records into r / V."""
    import numpy as np

    fields = _fields(rng) if fields is None else dict(fields)
    S = save_steps(T, k, start)
    if len(S) == 1:
        # a single storage slot and an all-singleton field give an all-ones array shape, which
        # create_named_sharded_matrix cannot shard (StopIteration) - outside this property, avoided
        fields = {nm: (sh if any(d != 1 for d in sh) else (2,)) for nm, sh in fields.items()}
    mods, in_dtype, mode, excl = _pipeline(variant, k, start, fields)
    if style is None:
        style = ["random", "mixed", "ramp", "random", "const", "mixed", "zeros"][int(rng.integers(7))]
    wide = in_dtype in (np.float64, np.complex128) and mode == "exact64"
    hist = {}
    for nm, sh in fields.items():
        h = _history(rng, T, sh, style, wide)
        if in_dtype == np.complex128:
            h = h + 1j * _history(rng, T, sh, style, wide)
        hist[nm] = np.asarray(h).astype(in_dtype)
    ctx = {"T": T, "k": k, "start": start, "pipeline": variant, "mode": kind, "fields": {a: list(b) for a, b in fields.items()}}
    rec, st = _init(mods, fields, in_dtype, T)
    collision = _slot_check(rec, T, k, start, S, r, V, ctx)
    ts = list(range(start, T))
    if (T + k + start) % 2:
        ts = ts[::-1]
    out = driver(rec, st, hist, T, ts)
    sat_tol, int_tol = _tols(mode)
    nontrivial = False
    cdt = np.complex128 if np.iscomplexobj(next(iter(hist.values()))) else np.float64
    for t in ts:
        for nm in fields:
            h = hist[nm].astype(cdt)
            got = out[t][nm]
            if got.dtype != hist[nm].dtype or got.shape != tuple(fields[nm]):
                V.add(
                    "decompressed value has wrong dtype/shape",
                    {**ctx, "t": t, "field": nm, "got": [str(got.dtype), list(got.shape)], "want": [str(hist[nm].dtype), list(fields[nm])]},
                    None,
                )
                continue
            want, p, n = expected_value(h, S, t)
            g = got.astype(cdt)
            saved = p == n
            if saved:
                r.count("saved_step_checks")
                if nm in excl or sat_tol == 0.0:
                    good = bool(np.array_equal(g, want))
                    r.count("widening_roundtrip_checks" if variant in ("widen>lre", "lre>widen") and nm not in excl else "exact_saved_checks")
                else:
                    good = bool(np.all(np.abs(g - want) <= sat_tol * np.abs(want)))
                scale = np.abs(want)
            else:
                r.count("interpolated_step_checks")
                scale = np.abs(h[p]) + np.abs(h[n])
                tol = int_tol
                good = bool(np.all(np.abs(g - want) <= tol * scale))
            if kind == "jit":
                r.count("traced_step_checks")
            if np.any(scale > 0):
                nontrivial = True
            if good:
                r.ok(None)
                if not saved:
                    err = np.max(np.where(scale > 0, np.abs(g - want) / np.where(scale > 0, scale, 1.0), 0.0)) if g.size else 0.0
                    r.worst(f"worst_rel_err_interp_{mode}", float(err))
                continue
            # ---- classify ------------------------------------------------------------------------
            mech = None
            if collision and k >= T and T >= 2 and start < T - 1:
                mech = MECH_SLOT_COLLISION
            elif start > 0 and not saved and p == start and len(S) > 1 and start < t < S[1]:
                from_zero = h[p] + (t - 0) / (n - 0) * (h[n] - h[p])
                if np.all(np.abs(g - from_zero) <= max(int_tol, 1e-9) * (scale + np.abs(from_zero))):
                    mech = MECH_FIRST_SEGMENT
            idx = np.unravel_index(int(np.argmax(np.nan_to_num(np.abs(g - want), nan=np.inf, posinf=np.inf))), g.shape) if g.ndim else ()
            V.add(
                f"decompress(t={t}) != " + ("recorded value" if saved else f"linear interpolation between saved steps {p} and {n}"),
                {
                    **ctx,
                    "t": t,
                    "field": nm,
                    "index": [int(i) for i in idx],
                    "save_steps": S,
                    "prev_saved": p,
                    "next_saved": n,
                    "got": _py(g[idx]),
                    "want": _py(np.asarray(want)[idx]),
                    "v_prev": _py(h[p][idx]),
                    "v_next": _py(h[n][idx]),
                    "history_of_element": [_py(x) for x in h[(slice(None),) + tuple(idx)]],
                },
                mech,
            )
    r.branch(f"{kind}:{variant}")
    r.branch(f"history:{style}")
    r.branch("start=0" if start == 0 else ("start=T-1" if start == T - 1 else "0<start<T-1"))
    r.branch("k=1" if k == 1 else ("k>=T" if k >= T else "1<k<T"))
    if len(S) >= 2 and S[-1] - S[-2] < k and k < T:
        r.branch("short_last_segment")
    if any(len(sh) == 0 for sh in fields.values()):
        r.branch("scalar_field")
    if any(1 in sh for sh in fields.values()):
        r.branch("singleton_axis")
    if nontrivial:
        r.sigs.add(f"{kind}:{variant}:T={T},k={k},s={start}")
    return ctx


def _py(x):
    import numpy as np

    x = np.asarray(x)
    if np.iscomplexobj(x):
        return [float(x.real), float(x.imag)]
    return float(x)


# ------------------------------------------------------------------------------------------------
def run_case(case):
    from vf import bootstrap
    from vf.result import Res

    bootstrap.ensure()
    from vf.oracles import xla_cache

    xla_cache.enable("c30")
    r = Res()
    V = _Viol()
    {"sweep": _sweep, "jit": _jit, "dtype": _dtype, "stack": _stack}[case["kind"]](case, r, V)
    V.flush(r)
    return r.to_dict()


def _sweep(case, r, V):
    import numpy as np

    rng = np.random.default_rng(case["seed"])
    last = None
    for T, k in case["tk"]:
        for start in range(T):
            r.count("configurations")
            # plain float64 pipeline: styles forced to be informative (random / ramp alternate)
            last = _judge_config(r, V, "sweep", "plain", T, k, start, rng, _drive_eager, style=["random", "ramp", "mixed"][(T + start) % 3], fields=_SWEEP_FIELDS["plain"])
            if (T + k + start) % case.get("variant_every", 1):
                continue
            var = _VARIANTS[(T + 2 * k + start) % len(_VARIANTS)]
            last = _judge_config(r, V, "sweep", var, T, k, start, rng, _drive_eager, fields=_SWEEP_FIELDS[var])
    r.sample = last


def _jit(case, r, V):
    import numpy as np

    rng = np.random.default_rng(case["seed"])
    last = None
    for T, k, start, variant in case["cfgs"]:
        r.count("traced_configurations")
        last = _judge_config(r, V, "jit", variant, T, k, start, rng, _drive_traced, style=["random", "mixed", "ramp"][int(rng.integers(3))])
    r.sample = last


# ---- DtypeConversion only ------------------------------------------------------------------------
_WIDEN = [
    ("float16", "float32"),
    ("float16", "float64"),
    ("bfloat16", "float32"),
    ("bfloat16", "float64"),
    ("float32", "float64"),
    ("float32", "float32"),
    ("float64", "float64"),
    ("complex64", "complex128"),
    ("float32", "complex64"),
    ("float32", "complex128"),
    ("float64", "complex128"),
    ("float16", "complex64"),
]
_NARROW = [("float64", "float32"), ("float32", "float16"), ("float32", "bfloat16"), ("complex128", "complex64"), ("float64", "float16")]
_REJECT = [("complex64", "float32"), ("complex128", "float64"), ("complex64", "float64")]


def _special(rng, npdt, n):
    """n values of dtype npdt: specials first (signed zeros, extremes, subnormal, inf, nan), then random."""
    import jax.numpy as jnp
    import numpy as np

    fi = jnp.finfo(npdt)
    sp = [0.0, -0.0, float(fi.max), -float(fi.max), float(fi.tiny), -float(fi.tiny), 1.0, -1.0, float(fi.eps), np.inf, -np.inf, np.nan]
    vals = np.concatenate([np.asarray(sp, dtype=np.float64), rng.normal(size=max(0, n - len(sp))) * 10.0 ** rng.uniform(-3, 3, size=max(0, n - len(sp)))])
    return vals[:n] if n < len(vals) else vals


def _np_dtype(name):
    import jax.numpy as jnp
    import numpy as np

    return np.dtype(jnp.bfloat16) if name == "bfloat16" else np.dtype(name)


def _bits_equal(a, b):
    """bit-exact equality except that any NaN matches any NaN."""
    import numpy as np

    a = np.asarray(a)
    b = np.asarray(b)
    if a.dtype != b.dtype or a.shape != b.shape:
        return False
    if np.iscomplexobj(a):
        return _bits_equal(a.real, b.real) and _bits_equal(a.imag, b.imag)
    af = a.astype(np.float64)
    bf = b.astype(np.float64)
    nan = np.isnan(af) & np.isnan(bf)
    same = (af == bf) & (np.signbit(af) == np.signbit(bf))
    return bool(np.all(nan | same))


def _dtype(case, r, V):
    import jax
    import jax.numpy as jnp
    import numpy as np

    from fdtdx.interfaces.modules import DtypeConversion as D
    from fdtdx.interfaces.recorder import Recorder

    rng = np.random.default_rng(case["seed"])
    key = jax.random.PRNGKey(3)

    def run(src, tgt, excl, T, shape, traced):
        sdt = _np_dtype(src)
        n = int(np.prod(shape)) * T
        cplx = sdt.kind == "c"
        base = np.dtype("float32") if sdt == np.dtype("complex64") else (np.dtype("float64") if cplx else sdt)
        v = _special(rng, base, max(n, 16))
        v = np.resize(rng.permutation(v), n).reshape((T,) + shape)
        if cplx:
            w = np.resize(rng.permutation(_special(rng, base, max(n, 16))), n).reshape((T,) + shape)
            z = np.empty(v.shape, dtype=np.complex128)
            z.real, z.imag = v, w
            v = z
        with np.errstate(over="ignore", invalid="ignore"):
            hist = {"E_x": v.astype(sdt), "keep_me": v.astype(sdt)}
        rec = Recorder(modules=[D(dtype=jnp.dtype(tgt) if tgt != "bfloat16" else jnp.bfloat16, exclude_filter=excl)])
        sd = {nm: jax.ShapeDtypeStruct(shape, sdt) for nm in hist}
        rec, st = rec.init_state(input_shape_dtypes=sd, max_time_steps=T, backend="cpu")
        stored = {nm: str(a.dtype) for nm, a in st.data.items()}
        if traced:
            out = _drive_traced(rec, st, hist, T, list(range(T)))
        else:
            out = _drive_eager(rec, st, hist, T, list(range(T)))
        return hist, out, stored

    last = None
    for it in range(case["n"]):
        for src, tgt in _WIDEN + _NARROW:
            T, shape = 3, (8,)  # fixed: every new (T, shape, dtype pair) costs eager-op compilations
            excl = ("keep",) if it % 2 else ()
            traced = (it % 3 == 2)
            ctx = {"src": src, "tgt": tgt, "exclude_filter": list(excl), "T": T, "shape": list(shape), "traced": traced}
            hist, out, stored = run(src, tgt, excl, T, shape, traced)
            want_store = {"E_x": tgt, "keep_me": src if excl else tgt}
            if stored != want_store:
                V.add("stored dtype is not the conversion target / excluded field was converted", {**ctx, "stored": stored, "want": want_store}, None)
            else:
                r.ok(None)
            widening = (src, tgt) in _WIDEN
            for t in range(T):
                for nm in hist:
                    got = out[t][nm]
                    if widening or (nm == "keep_me" and excl):
                        r.count("widening_roundtrip_checks")
                        if traced:
                            r.count("traced_step_checks")
                        if _bits_equal(got, hist[nm][t]):
                            r.ok(None)
                        else:
                            V.add(
                                "widening / excluded dtype conversion does not round-trip bit-exactly",
                                {**ctx, "t": t, "field": nm, "got": [repr(x) for x in np.ravel(got)[:8]], "want": [repr(x) for x in np.ravel(hist[nm][t])[:8]]},
                                None,
                            )
                    else:
                        # narrowing: finite values inside the target's normal range come back within target precision
                        r.count("narrowing_checks")
                        tdt = _np_dtype(tgt)
                        fi = jnp.finfo(tdt)
                        x = hist[nm][t].astype(np.complex128 if np.iscomplexobj(got) else np.float64)
                        g = got.astype(x.dtype)
                        parts = [(x.real, g.real), (x.imag, g.imag)] if np.iscomplexobj(x) else [(x, g)]
                        good = got.dtype == hist[nm].dtype
                        for xx, gg in parts:
                            m = np.isfinite(xx) & (np.abs(xx) >= float(fi.tiny)) & (np.abs(xx) <= float(fi.max) * 0.99)
                            good = good and bool(np.all(np.abs(gg[m] - xx[m]) <= float(fi.eps) * np.abs(xx[m])))
                        if good:
                            r.ok(None)
                        else:
                            V.add("narrowing conversion returns a value outside the target precision", {**ctx, "t": t, "field": nm, "got": [repr(v) for v in np.ravel(got)[:8]], "want": [repr(v) for v in np.ravel(hist[nm][t])[:8]]}, None)
            r.branch(f"dtype:{src}->{tgt}")
            r.sigs.add(f"dtype:{src}->{tgt}:excl={bool(excl)}:traced={traced}")
            last = ctx
        for src, tgt in _REJECT:
            # complex -> real would drop the imaginary part: documented ValueError unless the field is excluded
            sd = {"E_x": jax.ShapeDtypeStruct((2,), _np_dtype(src))}
            try:
                Recorder(modules=[D(dtype=jnp.dtype(tgt))]).init_state(input_shape_dtypes=sd, max_time_steps=3, backend="cpu")
            except ValueError:
                r.ok(f"dtype:reject:{src}->{tgt}")
                r.count("rejections")
            else:
                V.add("complex input with a real target dtype was accepted (imaginary part silently dropped)", {"src": src, "tgt": tgt}, None)
    r.sample = last


# ---- stacked time filters ----------------------------------------------------------------------------
def _stack(case, r, V):
    import numpy as np

    from fdtdx.interfaces.time_filter import LinearReconstructEveryK as L

    rng = np.random.default_rng(case["seed"])
    last = None
    for i in range(case["n"]):
        T = int(rng.integers(3, 30))
        # k1 >= 2: two filters with identically shaped index tables (k1 == k2 == 1) make jax compare two
        # pytreeclass _FrozenArray metadata objects under tracing, which raises - pointless pipeline, avoided
        k1 = int(rng.integers(2, 5))
        S1 = save_steps(T, k1, 0)
        n1 = len(S1)
        k2 = int(rng.integers(1, max(2, min(4, n1 - 1)) + 1))
        if k2 >= n1:
            k2 = max(1, n1 - 1)
        S2 = save_steps(n1, k2, 0)
        both = [S1[a] for a in S2]
        fields = _fields(rng, 1)
        hist = {nm: _history(rng, T, sh, "random", False) for nm, sh in fields.items()}
        ctx = {"T": T, "k_outer": k1, "k_inner": k2, "saved_by_both": both, "traced": bool(i % 2)}
        rec, st = _init([L(k=k1), L(k=k2)], fields, np.float64, T)
        out = (_drive_traced if i % 2 else _drive_eager)(rec, st, hist, T, both)
        for t in both:
            for nm in fields:
                r.count("stacked_saved_checks")
                if np.array_equal(out[t][nm], hist[nm][t]):
                    r.ok(None)
                else:
                    V.add("stacked time filters: a step saved by both filters is not returned exactly", {**ctx, "t": t, "got": np.ravel(out[t][nm]).tolist(), "want": np.ravel(hist[nm][t]).tolist()}, None)
        r.branch("stack:lre>lre")
        r.sigs.add(f"stack:k1={k1},k2={k2},n1={n1}")
        last = ctx
    r.sample = last

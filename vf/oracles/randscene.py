"""Seeded random scene descriptions (vf.scenes DSL) shared by the differential checks C11/C38/C42.

Pure python + numpy, no jax.  A scene is hostile on purpose: every boundary kind per face, PML of
thickness 2-4 on either side, periodic pairs, isotropic / diagonal / full-tensor / lossy / magnetic
material boxes (possibly overlapping each other and the absorbing layers), electric and magnetic
dipoles of all polarizations, hard plane sources of both directions on every axis, optional TFSF
box, and detectors of every kind (volume / plane / line / point shaped, reduced and spatial,
switched).  Placement rules that fdtdx documents (and the caller's brief) are respected:

* opposite faces of a periodic axis are both periodic;
* sources never overlap an anisotropic material box and stay >= 1 cell away from every PML slab
  (and from the PEC / PMC / periodic wall cells on their propagation axis);
* Poynting-plane detectors have exactly one size-1 axis or an explicit propagation axis;
* closed-surface detectors have >= 2 cells on every axis.
"""

from __future__ import annotations

import numpy as np

from vf import scenes

KINDS_DET = ("field", "energy", "poynting", "phasor", "phasor_poynting", "closed_poynting", "closed_phasor_poynting")


def _int(rng, lo, hi):
    """integer in [lo, hi] inclusive"""
    return int(rng.integers(lo, hi + 1))


def _spd_tensor(rng, base, spread, offdiag=True):
    """random symmetric positive definite 3x3 with eigenvalues in [base, base+spread]."""
    ev = base + spread * rng.random(3)
    if not offdiag:
        return [float(x) for x in ev]
    q, _ = np.linalg.qr(rng.normal(size=(3, 3)))
    m = (q * ev) @ q.T
    m = 0.5 * (m + m.T)
    return [[float(m[i, j]) for j in range(3)] for i in range(3)]


def random_material(rng, cls=None, spacing=None):
    """material dict + class tag; cls in iso / diag / full / lossy / magnetic / lossy_mag / lossy_mag_vec / full_lossy.

    With `spacing` given the magnetic conductivity is scaled to a loss number of 0.02..0.25 per step (so that it
    matters at every tolerance used by the callers); without it the historical small values are drawn."""
    classes = ("iso", "diag", "full", "lossy", "magnetic", "lossy_mag", "full_lossy", "lossy_mag_vec")

    def sig_m_scalar():
        if spacing is None:
            return float(rng.uniform(1e2, 1e5))
        return float(rng.uniform(0.02, 0.25)) * 2.0 * 376.73 / (0.57 * spacing)
    if cls is None:
        cls = classes[_int(rng, 0, len(classes) - 1)]
    m = {}
    if cls == "iso":
        m["eps"] = float(rng.uniform(1.2, 6.0))
    elif cls == "diag":
        m["eps"] = _spd_tensor(rng, 1.2, 4.0, offdiag=False)
    elif cls == "full":
        m["eps"] = _spd_tensor(rng, 1.5, 3.0)
    elif cls == "lossy":
        m["eps"] = float(rng.uniform(1.2, 4.0))
        m["sig_e"] = float(rng.uniform(1e2, 3e4))
    elif cls == "magnetic":
        m["eps"] = float(rng.uniform(1.2, 4.0))
        m["mu"] = float(rng.uniform(1.1, 3.0)) if rng.random() < 0.5 else _spd_tensor(rng, 1.1, 2.0, offdiag=False)
    elif cls == "lossy_mag":
        m["eps"] = _spd_tensor(rng, 1.2, 3.0, offdiag=False)
        m["mu"] = float(rng.uniform(1.1, 2.0))
        m["sig_e"] = _spd_tensor(rng, 1e2, 1e4, offdiag=False)
        m["sig_m"] = sig_m_scalar()
    elif cls == "lossy_mag_vec":
        # one-component permittivity / electric conductivity under a three-component magnetic conductivity
        m["eps"] = float(rng.uniform(1.2, 4.0))
        m["mu"] = float(rng.uniform(1.1, 2.0))
        m["sig_e"] = float(rng.uniform(1e2, 3e4))
        sm = sig_m_scalar()
        m["sig_m"] = [sm * float(x) for x in rng.uniform(0.3, 1.0, size=3)]
    elif cls == "full_lossy":
        m["eps"] = _spd_tensor(rng, 1.5, 3.0)
        m["sig_e"] = float(rng.uniform(1e2, 3e4))
    else:
        raise ValueError(cls)
    return m, cls


def _is_aniso(m):
    return any(isinstance(m.get(k), (list, tuple)) for k in ("eps", "mu", "sig_e", "sig_m"))


def _overlap(lo1, hi1, lo2, hi2):
    return all(lo1[a] < hi2[a] and lo2[a] < hi1[a] for a in range(3))


def _rand_box(rng, lo, hi, min_size=(1, 1, 1), max_size=None):
    """random index box inside [lo, hi) with per-axis size in [min_size, max_size]."""
    blo, bhi = [], []
    for a in range(3):
        ext = hi[a] - lo[a]
        mx = ext if max_size is None else min(ext, max_size[a])
        mn = min(min_size[a], mx)
        s = _int(rng, mn, mx)
        o = _int(rng, lo[a], hi[a] - s)
        blo.append(o)
        bhi.append(o + s)
    return blo, bhi


def random_faces(rng, shape, pml_prob=0.4, force=None):
    """per-face boundary spec.  `force`: None or dict axis-> 'periodic'|'pml'|... applied to both faces."""
    faces = {}
    for a, ax in enumerate("xyz"):
        n = shape[a]
        tmax = max(2, min(4, (n - 4) // 2))
        forced = (force or {}).get(a)
        if forced == "periodic" or (forced is None and rng.random() < 0.22):
            faces[f"min_{ax}"] = {"type": "periodic"}
            faces[f"max_{ax}"] = {"type": "periodic"}
            continue
        for side in ("min", "max"):
            if forced is not None:
                typ = forced
            else:
                u = rng.random()
                if u < pml_prob:
                    typ = "pml"
                else:
                    typ = ("none", "pec", "pmc")[_int(rng, 0, 2)]
            if typ == "pml":
                faces[f"{side}_{ax}"] = {"type": "pml", "thickness": _int(rng, 2, tmax)}
            else:
                faces[f"{side}_{ax}"] = {"type": typ}
    return faces


def source_region(scene):
    """index box in which sources may live: >= 1 cell from every PML slab and from wall cells."""
    lo, hi = scenes.interior_box(scene)
    lo, hi = list(lo), list(hi)
    for face in scenes.FACES:
        ax, d = scenes.face_axis_dir(face)
        if scene["faces"][face]["type"] != "none":
            if d == "-":
                lo[ax] += 1
            else:
                hi[ax] -= 1
    return lo, hi


def random_scene(
    rng,
    x_multiple=1,
    even=False,
    size_lo=8,
    size_hi=14,
    steps=(10, 25),
    n_det=(4, 7),
    det_kinds=KINDS_DET,
    must_have=(),
    allow_tfsf=True,
    spacing=None,
    dispersive_prob=0.0,
    first_source=None,
    plane_prob=0.45,
    allowed_mats=None,
):
    """Returns (scene, tags) — tags is a dict of class labels used for coverage signatures."""
    step = 2 if even else 1
    shape = []
    for a in range(3):
        cands = [n for n in range(size_lo, size_hi + 1) if n % step == 0 and (a != 0 or n % x_multiple == 0)]
        shape.append(int(cands[_int(rng, 0, len(cands) - 1)]))
    if spacing is None:
        # round values and values that are not multiples of any decimal unit
        spacing = float(rng.choice([20e-9, 37.5e-9, 50e-9, 1e-7])) if rng.random() < 0.5 else float(rng.uniform(15e-9, 120e-9))
    T = _int(rng, steps[0], steps[1])
    s = scenes.default_scene(shape=shape, steps=T, spacing=spacing)
    s["faces"] = random_faces(rng, shape)
    lam0 = spacing * float(rng.uniform(8.0, 16.0))

    # background
    bg_cls = "vacuum"
    if rng.random() < 0.25:
        s["volume"] = {"eps": float(rng.uniform(1.0, 2.5))}
        bg_cls = "dielectric"

    # material boxes (anywhere in the volume, may overlap each other and the PML)
    mats, mat_classes = [], []
    for i in range(_int(rng, 1, 2)):
        m, cls = random_material(rng, cls=None if allowed_mats is None else allowed_mats[_int(rng, 0, len(allowed_mats) - 1)], spacing=spacing)
        if rng.random() < dispersive_prob:
            # modest Lorentz / Drude pole around the source band; the Courant factor is lowered because
            # the coupled stability bound of dispersive media leaves no head-room at 0.99
            w = 2 * np.pi * 299792458.0 / lam0
            if rng.random() < 0.5:
                pole = {"kind": "lorentz", "w0": float(w * rng.uniform(0.5, 1.5)), "gamma": float(w * rng.uniform(0.05, 0.3)), "deps": float(rng.uniform(0.5, 2.0))}
            else:
                pole = {"kind": "drude", "wp": float(w * rng.uniform(0.3, 1.0)), "gamma": float(w * rng.uniform(0.05, 0.3))}
            m = {"eps": float(rng.uniform(1.5, 4.0)), "dispersion": {"poles": [pole]}}
            cls = pole["kind"]
            s["courant"] = 0.6
        lo, hi = _rand_box(rng, [0, 0, 0], shape, min_size=(1, 1, 1), max_size=(5, 5, 5))
        mats.append({"lo": lo, "hi": hi, "mat": m, "order": i, "name": f"mat{i}"})
        mat_classes.append(cls)
    s["materials"] = mats
    aniso_boxes = [(m["lo"], m["hi"]) for m in mats if _is_aniso(m["mat"])]

    # sources
    slo, shi = source_region(s)
    srcs, src_classes = [], []
    n_src = _int(rng, 1, 2)
    tries = 0
    while len(srcs) < n_src and tries < 60:
        tries += 1
        u = rng.random()
        want = first_source if (first_source is not None and not srcs and tries < 40) else None
        if want == "dipole":
            u = 0.0
        elif want in ("uniform", "gaussian"):
            u = 0.45
        elif want == "tfsf":
            u = 2.0
        lam = lam0 * float(rng.uniform(0.8, 1.25))
        prof = None
        v = rng.random()
        if v < 0.3:
            prof = {"kind": "pulse", "center_wavelength": lam, "width_wavelength": lam * float(rng.uniform(2.0, 5.0))}
        elif v < 0.5:
            prof = {"kind": "cw", "phase_shift": float(rng.uniform(-3, 3)), "num_startup_periods": float(rng.uniform(0.2, 2))}
        if u < 0.45:
            lo = [_int(rng, slo[a], shi[a] - 1) for a in range(3)]
            hi = [x + 1 for x in lo]
            if any(_overlap(lo, hi, *b) for b in aniso_boxes):
                continue
            st = "magnetic" if rng.random() < 0.4 else "electric"
            d = {"kind": "dipole", "lo": lo, "polarization": _int(rng, 0, 2), "source_type": st, "wavelength": lam}
            if rng.random() < 0.25:
                d["azimuth_angle"] = float(rng.uniform(-40, 40))
                d["elevation_angle"] = float(rng.uniform(-40, 40))
            if rng.random() < 0.3:
                d["amplitude"] = float(rng.uniform(0.3, 3.0))
            tag = f"dipole-{st}"
        elif u < 0.45 + plane_prob or not allow_tfsf:
            ax = _int(rng, 0, 2)
            full = rng.random() < 0.5
            lo, hi = [0, 0, 0], [0, 0, 0]
            for a in range(3):
                if a == ax:
                    lo[a] = _int(rng, slo[a], shi[a] - 1)
                    hi[a] = lo[a] + 1
                elif full:
                    lo[a], hi[a] = slo[a], shi[a]
                else:
                    ext = shi[a] - slo[a]
                    sz = _int(rng, min(2, ext), ext)
                    lo[a] = _int(rng, slo[a], shi[a] - sz)
                    hi[a] = lo[a] + sz
            if any(_overlap(lo, hi, *b) for b in aniso_boxes):
                continue
            gauss = rng.random() < 0.4
            if want in ("uniform", "gaussian"):
                gauss = want == "gaussian"
            d = {
                "kind": "gaussian" if gauss else "uniform",
                "lo": lo,
                "hi": hi,
                "direction": "+" if rng.random() < 0.5 else "-",
                "wavelength": lam,
            }
            if gauss:
                d["radius"] = spacing * float(rng.uniform(2.0, 5.0))
            elif rng.random() < 0.3:
                d["amplitude"] = float(rng.uniform(0.3, 3.0))
            pol = [0.0, 0.0, 0.0]
            tr = [a for a in range(3) if a != ax]
            if rng.random() < 0.5:
                pol[tr[_int(rng, 0, 1)]] = 1.0
            else:
                ang = float(rng.uniform(0, 2 * np.pi))
                pol[tr[0]], pol[tr[1]] = float(np.cos(ang)), float(np.sin(ang))
            d["e_pol" if rng.random() < 0.7 else "h_pol"] = pol
            if rng.random() < 0.2:
                d["azimuth_angle"] = float(rng.uniform(-25, 25))
                d["elevation_angle"] = float(rng.uniform(-25, 25))
            tag = f"{d['kind']}-ax{ax}{d['direction']}"
        else:
            # TFSF box: >= 1 cell margin to the domain edge on every axis (fdtdx rule), inside source region
            lo, hi = [0, 0, 0], [0, 0, 0]
            ok = True
            for a in range(3):
                l0, h0 = max(slo[a], 1), min(shi[a], shape[a] - 1)
                if h0 - l0 < 3:
                    ok = False
                    break
                sz = _int(rng, 3, h0 - l0)
                lo[a] = _int(rng, l0, h0 - sz)
                hi[a] = lo[a] + sz
            if not ok or any(_overlap([x - 1 for x in lo], [x + 1 for x in hi], *b) for b in aniso_boxes):
                continue
            ax = _int(rng, 0, 2)
            pol = [0.0, 0.0, 0.0]
            tr = [a for a in range(3) if a != ax]
            pol[tr[_int(rng, 0, 1)]] = 1.0
            d = {
                "kind": "tfsf",
                "lo": lo,
                "hi": hi,
                "propagation_axis": ax,
                "direction": "+" if rng.random() < 0.5 else "-",
                "wavelength": lam,
                "e_pol": pol,
            }
            tag = f"tfsf-ax{ax}"
        if prof is not None:
            d["profile"] = prof
        if rng.random() < 0.25:
            dt_ = 0.99 / np.sqrt(3.0) * spacing / 299792458.0
            d["switch"] = {"start_time": float(_int(rng, 1, 4) * dt_)}
            if rng.random() < 0.5:
                d["switch"]["end_time"] = float((T - _int(rng, 1, 4) + 0.5) * dt_)
        if rng.random() < 0.2:
            d["phase"] = float(rng.uniform(-3, 3))
        d["name"] = f"src{len(srcs)}"
        srcs.append(d)
        src_classes.append(tag)
    if not srcs:
        # guaranteed-valid fallback: electric dipole in a cell not covered by anisotropic boxes
        for x in range(slo[0], shi[0]):
            lo = [x, slo[1], slo[2]]
            if not any(_overlap(lo, [v + 1 for v in lo], *b) for b in aniso_boxes):
                srcs.append({"kind": "dipole", "lo": lo, "polarization": 2, "wavelength": lam0, "name": "src0"})
                src_classes.append("dipole-electric")
                break
    s["sources"] = srcs

    # detectors
    dets, det_classes = [], []
    kinds = list(must_have)
    nd = _int(rng, n_det[0], n_det[1])
    while len(kinds) < nd:
        kinds.append(det_kinds[_int(rng, 0, len(det_kinds) - 1)])
    for i, k in enumerate(kinds):
        d, tag = random_detector(rng, k, shape, lam0, spacing, T)
        d["name"] = f"det{i}"
        dets.append(d)
        det_classes.append(tag)
    s["detectors"] = dets

    tags = {
        "faces": ",".join(_face_tag(s["faces"][f]) for f in scenes.FACES),
        "bg": bg_cls,
        "mats": "+".join(sorted(mat_classes)),
        "srcs": ",".join(sorted(src_classes)),
        "dets": sorted(det_classes),
        "det_by_name": {d["name"]: t for d, t in zip(dets, det_classes)},
    }
    return s, tags


def _face_tag(f):
    return {"none": "n", "pec": "e", "pmc": "m", "periodic": "p", "pml": "a"}[f["type"]] + (
        str(f.get("thickness", "")) if f["type"] == "pml" else ""
    )


def _plane_box(rng, shape, ax=None):
    ax = _int(rng, 0, 2) if ax is None else ax
    lo, hi = _rand_box(rng, [0, 0, 0], shape, min_size=(2, 2, 2))
    p = _int(rng, 0, shape[ax] - 1)
    lo[ax], hi[ax] = p, p + 1
    return lo, hi, ax


def random_detector(rng, kind, shape, lam0, spacing, T):
    d = {"kind": kind}
    tag = kind
    if rng.random() < 0.3:
        d["switch"] = {"interval": _int(rng, 2, 3)}
        tag += ":sw"
    if rng.random() < 0.25:
        d["exact"] = False
        tag += ":noexact"
    shape_cls = ("volume", "plane", "line", "point")[_int(rng, 0, 3)]
    if kind in ("field", "energy", "phasor"):
        if shape_cls == "volume":
            lo, hi = _rand_box(rng, [0, 0, 0], shape, min_size=(2, 2, 2), max_size=(6, 6, 6))
        elif shape_cls == "plane":
            lo, hi, _ = _plane_box(rng, shape)
        elif shape_cls == "line":
            lo, hi = _rand_box(rng, [0, 0, 0], shape, max_size=(1, 1, 1))
            ax = _int(rng, 0, 2)
            lo[ax], hi[ax] = 0, shape[ax]
        else:
            lo, hi = _rand_box(rng, [0, 0, 0], shape, max_size=(1, 1, 1))
        tag += f":{shape_cls}"
    if kind == "field":
        d["reduce"] = bool(rng.random() < 0.4)
        if rng.random() < 0.4:
            comps = ["Ex", "Ey", "Ez", "Hx", "Hy", "Hz"]
            n = _int(rng, 1, 4)
            d["components"] = [comps[i] for i in sorted(rng.choice(6, size=n, replace=False))]
        tag += ":red" if d["reduce"] else ":full"
    elif kind == "energy":
        mode = ("full", "reduce", "slices", "slices_pos")[_int(rng, 0, 3)]
        if mode == "reduce":
            d["reduce"] = True
        elif mode.startswith("slices"):
            d["as_slices"] = True
            if mode == "slices_pos":
                # physical positions (centred coordinates) inside / outside the detector
                for a, nm in enumerate(("x_slice", "y_slice", "z_slice")):
                    d[nm] = float(spacing * rng.uniform(-0.6, 0.6) * shape[a])
        tag += ":" + mode
    elif kind == "poynting":
        # modes: 0 plane reduced, 1 plane spatial, 2 volume with explicit axis (reduced), 3 volume spatial,
        # 4 all three components.  fdtdx stacks the three per-axis face-area arrays for keep_all, which only
        # works for a single-cell detector on a resolved grid (reported separately); so mode 4 uses one cell.
        mode = _int(rng, 0, 4)
        if mode < 2:
            lo, hi, ax = _plane_box(rng, shape)
        elif mode < 4:
            lo, hi = _rand_box(rng, [0, 0, 0], shape, min_size=(2, 2, 2), max_size=(5, 5, 5))
            d["axis"] = _int(rng, 0, 2)
        else:
            lo, hi = _rand_box(rng, [0, 0, 0], shape, max_size=(1, 1, 1))
            d["axis"] = _int(rng, 0, 2)
        d["reduce"] = bool(mode in (0, 2, 4) or (mode == 4 and rng.random() < 0.5))
        d["keep_all"] = bool(mode == 4)
        d["direction"] = "+" if rng.random() < 0.5 else "-"
        tag += f":m{mode}{d['direction']}"
    elif kind in ("phasor", "phasor_poynting", "closed_phasor_poynting"):
        nw = _int(rng, 1, 2)
        d["wavelengths"] = [lam0 * float(rng.uniform(0.7, 1.4)) for _ in range(nw)]
        if rng.random() < 0.3:
            d["scaling_mode"] = "pulse"
            tag += ":pulse"
        if rng.random() < 0.25:
            d["dft_subsample"] = 2
            tag += ":sub2"
        if rng.random() < 0.25:
            dt = 0.99 / np.sqrt(3.0) * spacing / 299792458.0
            if rng.random() < 0.5:
                d["window"] = {"kind": "tukey", "start_time": 0.0, "end_time": float(T * dt), "alpha": float(rng.uniform(0.2, 0.9))}
            else:
                d["window"] = {"kind": "gaussian", "center_time": float(0.5 * T * dt), "sigma_time": float(0.25 * T * dt)}
            tag += ":win"
        if kind == "phasor":
            d["reduce"] = bool(rng.random() < 0.3)
            if rng.random() < 0.4:
                comps = ["Ex", "Ey", "Ez", "Hx", "Hy", "Hz"]
                n = _int(rng, 1, 4)
                d["components"] = [comps[i] for i in sorted(rng.choice(6, size=n, replace=False))]
            tag += ":red" if d["reduce"] else ":full"
        elif kind == "phasor_poynting":
            d["keep_all"] = bool(rng.random() < 0.25)
            if d["keep_all"]:  # single cell only, see the note at "poynting"
                lo, hi = _rand_box(rng, [0, 0, 0], shape, max_size=(1, 1, 1))
                d["axis"] = _int(rng, 0, 2)
            else:
                lo, hi, ax = _plane_box(rng, shape)
            d["direction"] = "+" if rng.random() < 0.5 else "-"
            tag += f":k{int(d['keep_all'])}{d['direction']}"
    if kind in ("closed_poynting", "closed_phasor_poynting"):
        lo, hi = _rand_box(rng, [0, 0, 0], shape, min_size=(2, 2, 2), max_size=(7, 7, 7))
        d["orientation"] = "outward" if rng.random() < 0.6 else "inward"
        if rng.random() < 0.25:
            axes = sorted(rng.choice(3, size=_int(rng, 1, 2), replace=False))
            d["axes"] = [int(a) for a in axes]
            tag += ":axes"
        tag += ":" + d["orientation"][:2]
    d["lo"], d["hi"] = [int(x) for x in lo], [int(x) for x in hi]
    return d, tag

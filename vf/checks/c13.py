"""C13 — plane sources radiate only in their stated direction.

Threshold monitor on the library's own PoyntingFluxDetectors placed in front of and behind a plane source in
a transversely periodic homogeneous medium with PML along the propagation axis.
"""

from __future__ import annotations

PROPERTY = "C13"
RULE = (
    "all six directions x {uniform, gaussian} x {CW, pulsed}; random transverse polarisation given as E or H vector of "
    "unit or arbitrary length, 15-24 cells per "
    "wavelength in the medium, eps in [1,4]; Gaussian radius in [0.3,1.0] wavelengths (always incl. exactly 0.3). "
    "distinct = (axis, direction, source kind, profile, resolution bucket, eps bucket); non-trivial iff forward "
    "power > 0"
)
REQUIRED_COUNTERS = ["runs"]
ASSUMPTIONS = [
    "CW runs: time average over the last whole periods after the front has passed both planes; pulsed runs: time integral over the whole run",
    "detectors 10 cells in front of / behind the source plane, PML 10 cells",
    "uniform sources: transversely periodic medium; Gaussian sources: open (PML) transverse boundaries, radius in units of the source's free-space wavelength",
    "float64 fields (float32 configs cannot be run with PML while jax_enable_x64 is on)",
]
CASE_TIMEOUT = {"quick": 1200, "thorough": 3000}


def cases(tier, rng):
    out = []
    combos = [(a, d) for a in range(3) for d in "+-"]
    reps = 1 if tier == "quick" else 6
    for rep in range(reps):
        for a, d in combos:
            for kind in ("uniform", "gaussian"):
                out.append(
                    {
                        "axis": a,
                        "direction": d,
                        "kind": kind,
                        "profile": ["cw", "pulse"][int(rng.integers(2))],
                        "cells_per_wl": float(rng.uniform(15, 24)),
                        "eps": float(rng.choice([1.0, rng.uniform(1.0, 4.0)])),
                        "radius_wl": 0.3 if (rep == 0 or rng.random() < 0.3) else float(rng.uniform(0.3, 1.0)),
                        "angle": float(rng.uniform(0, 6.283)),
                        # the polarisation is a direction: its length (not normalised by the user) must not matter
                        "pol_length": float(rng.choice([1.0, 0.5, 1.4142135623730951, 2.5, rng.uniform(0.2, 4.0)])),
                        "pol_given_as": ["e_pol", "h_pol"][int(rng.integers(2))],
                        "seed": int(rng.integers(1 << 30)),
                    }
                )
    return out


def run_case(case):
    from vf import bootstrap
    from vf.result import Res

    bootstrap.ensure()
    r = Res()
    _one(case, r)
    return r.to_dict()


def _one(c, r):
    import numpy as np

    from vf import scenes

    spacing = 20e-9
    n_med = np.sqrt(c["eps"])
    wl = c["cells_per_wl"] * spacing * n_med  # vacuum wavelength; cells_per_wl counts cells per wavelength in the medium
    a = c["axis"]
    t = [b for b in range(3) if b != a]
    pml = 10
    gap = 10
    L = pml + 4 + gap + 1 + gap + 4 + pml
    if c["kind"] == "uniform":
        nt = 4
    else:
        nt = int(np.ceil(2 * 3.2 * c["radius_wl"] * c["cells_per_wl"])) + 6
        nt = max(nt, 16)
    # uniform source: transversely periodic (the statement's setting); Gaussian beam: open (PML) transverse
    # boundaries, since a beam in a small periodic cell is an array of beams whose wrapped side lobes change the
    # balance (measured: 0.04 open vs 0.12-0.20 periodic at r = 0.3 wavelengths)
    tp = pml if c["kind"] == "gaussian" else 0
    shape = [nt + 2 * tp, nt + 2 * tp, nt + 2 * tp]
    shape[a] = L
    period_steps = wl / 299792458.0 / (0.99 * spacing / (np.sqrt(3) * 299792458.0))
    transit = (L) * n_med * np.sqrt(3) / 0.99
    if c["profile"] == "cw":
        T = int(transit * 1.5 + 9 * period_steps)
    else:
        T = int(transit * 2.0 + 14 * period_steps)
    s = scenes.default_scene(shape=shape, steps=T, spacing=spacing)
    s["dtype"] = "f64"
    s["volume"] = {"eps": c["eps"]}
    for b in t:
        for side in ("min", "max"):
            s["faces"][f"{side}_{'xyz'[b]}"] = {"type": "pml", "thickness": pml} if tp else {"type": "periodic"}
    s["faces"][f"min_{'xyz'[a]}"] = {"type": "pml", "thickness": pml}
    s["faces"][f"max_{'xyz'[a]}"] = {"type": "pml", "thickness": pml}
    pos = pml + 4 + gap
    lo, hi = [tp, tp, tp], [n - tp for n in shape]
    lo[a], hi[a] = pos, pos + 1
    pol = [0.0, 0.0, 0.0]
    pol[t[0]], pol[t[1]] = float(np.cos(c["angle"])), float(np.sin(c["angle"]))
    pol = [x * c.get("pol_length", 1.0) for x in pol]
    src = {"kind": c["kind"], "lo": lo, "hi": hi, "direction": c["direction"], "wavelength": wl, c.get("pol_given_as", "e_pol"): pol}
    if c["kind"] == "gaussian":
        src["radius"] = c["radius_wl"] * wl
    if c["profile"] == "pulse":
        src["profile"] = {"kind": "pulse", "center_wavelength": wl, "width_wavelength": wl * 6.0}
    s["sources"] = [src]
    sgn = 1 if c["direction"] == "+" else -1
    dets = []
    for name, off in (("front", sgn * gap), ("back", -sgn * gap)):
        dlo, dhi = [tp, tp, tp], [n - tp for n in shape]
        dlo[a], dhi[a] = pos + off, pos + off + 1
        dets.append({"kind": "poynting", "name": name, "lo": dlo, "hi": dhi, "direction": c["direction"], "reduce": True, "axis": a})
    s["detectors"] = dets
    b = scenes.build(s)
    st = scenes.run(b)
    r.count("runs")
    D = scenes.detector_arrays(st[1])
    pf = np.asarray(D["front/poynting_flux"], dtype=np.float64)[:, 0]
    pb = np.asarray(D["back/poynting_flux"], dtype=np.float64)[:, 0]
    if c["profile"] == "cw":
        nper = 4
        w = int(round(nper * period_steps))
        Pf, Pb = pf[-w:].mean(), pb[-w:].mean()
    else:
        Pf, Pb = pf.sum(), pb.sum()
    ratio = abs(Pb) / abs(Pf) if Pf != 0 else float("inf")
    limit = 1e-3 if c["kind"] == "uniform" else 0.1
    sig = (a, c["direction"], c["kind"], c["profile"], int(c["cells_per_wl"] // 3), int(c["eps"]), c.get("pol_given_as"), c.get("pol_length", 1.0) == 1.0)
    r.branch("pol:" + c.get("pol_given_as", "e_pol") + (":unit" if c.get("pol_length", 1.0) == 1.0 else ":non_unit_length"))
    r.branch(f"{c['kind']}:{c['profile']}")
    r.branch(f"axis{a}{c['direction']}")
    r.worst("worst_back_over_front_" + c["kind"], ratio)
    wit = {"case": c, "P_front": float(Pf), "P_back": float(Pb), "ratio": ratio, "steps": T, "shape": shape}
    if not np.isfinite(Pf) or not np.isfinite(Pb):
        r.violate("non-finite flux", wit, sig=sig)
    elif not (Pf > 0):
        r.violate("no power flows in the declared direction", wit, sig=sig)
    elif ratio >= limit:
        r.violate(f"backward/forward power {ratio:.3e} >= {limit}", wit, sig=sig)
    else:
        r.ok(sig)
    r.sample = wit

"""Independent model of `TreeClass.aset` (functional path update) + icontract contract built on it.

* `snap(obj)`      deep structural snapshot (nested tuples/dicts of plain python, arrays as bytes)
* `parse_path(s)`  independent parser of the documented path grammar  a->b->[0]->['name']
* `expected(snapshot, ops, value_snapshot, create_new_ok)`  snapshot the result must have
* `attach()`       wraps the real `TreeClass.aset` with icontract.snapshot / icontract.ensure, so every call made
                   by any workload in this process (place_objects, apply_params, run_fdtd, ...) is judged:
                   input unchanged, same type, only the addressed path changed.  Counts in `COUNTS`.
"""

from __future__ import annotations

import re

COUNTS: dict[str, int] = {}
_attached: dict[str, object] = {}
MAX_DEPTH = 40


class AsetContractError(AssertionError):
    def __init__(self, msg, witness=None, mechanism=None):
        super().__init__(msg)
        self.witness = witness or {}
        self.mechanism = mechanism


class Unjudgeable(Exception):
    """The path leaves what the documented grammar / statement covers (e.g. indexing into an array)."""


# ------------------------------------------------------------------------------------------------
# snapshot
# ------------------------------------------------------------------------------------------------
def _is_tree(obj):
    try:
        import pytreeclass as tc

        return isinstance(obj, tc.TreeClass)
    except Exception:
        return False


def snap(obj, _depth=0, _stack=None):
    import numpy as np

    if _stack is None:
        _stack = set()
    if obj is None or isinstance(obj, (bool, int, float, complex, str, bytes)):
        return ("v", type(obj).__name__, repr(obj))
    if _depth > MAX_DEPTH:
        return ("deep", type(obj).__name__)
    oid = id(obj)
    if oid in _stack:
        return ("cycle", type(obj).__name__)
    if isinstance(obj, np.ndarray):
        if obj.dtype == object:
            return ("objarr", obj.shape, tuple(snap(x, _depth + 1, _stack) for x in obj.ravel().tolist()))
        return ("arr", "numpy", str(obj.dtype), tuple(obj.shape), obj.tobytes())
    if isinstance(obj, np.generic):
        return ("v", type(obj).__name__, repr(obj))
    tname = type(obj).__module__ + "." + type(obj).__qualname__
    # jax arrays / tracers
    try:
        import jax

        if isinstance(obj, jax.core.Tracer):
            # the library copies leaves (copy.copy) when it rebuilds a tree, which gives tracers a new identity:
            # only shape and dtype of abstract values are comparable
            return ("tracer", str(getattr(obj, "shape", None)), str(getattr(obj, "dtype", None)))
        if isinstance(obj, jax.Array):
            try:
                a = np.asarray(obj)
                return ("arr", "jax", str(a.dtype), tuple(a.shape), a.tobytes())
            except Exception:
                return ("opaque_array", id(obj))
    except ImportError:
        pass
    _stack.add(oid)
    try:
        if _is_tree(obj):
            attrs = {}
            for name in list(vars(obj).keys()):
                try:
                    v = getattr(obj, name)
                except Exception as e:  # noqa: BLE001
                    attrs[name] = ("getattr_error", type(e).__name__)
                    continue
                attrs[name] = snap(v, _depth + 1, _stack)
            return ("tree", tname, attrs)
        if isinstance(obj, dict):
            return ("dict", tname, {k: snap(v, _depth + 1, _stack) for k, v in obj.items()}, tuple(obj.keys()))
        if isinstance(obj, list):
            return ("list", tname, [snap(v, _depth + 1, _stack) for v in obj])
        if isinstance(obj, tuple):
            return ("tuple", tname, tuple(snap(v, _depth + 1, _stack) for v in obj))
        if isinstance(obj, (set, frozenset)):
            return ("set", tname, tuple(sorted(repr(snap(v, _depth + 1, _stack)) for v in obj)))
        if isinstance(obj, slice):
            return ("slice", repr(obj))
        if isinstance(obj, type) or callable(obj):
            return ("ref", tname, id(obj))
        d = getattr(obj, "__dict__", None)
        if isinstance(d, dict) and d:
            return ("obj", tname, {k: snap(v, _depth + 1, _stack) for k, v in d.items()})
        slots = getattr(type(obj), "__slots__", None)
        if slots:
            return ("obj", tname, {k: snap(getattr(obj, k, None), _depth + 1, _stack) for k in slots if isinstance(k, str)})
        return ("repr", tname, repr(obj))
    finally:
        _stack.discard(oid)


# ------------------------------------------------------------------------------------------------
# path grammar (from the docstring): ops separated by "->"; "[int]" list index; "['key']" dict key
# (keys cannot contain quotes or brackets); anything else an attribute name (python identifier)
# ------------------------------------------------------------------------------------------------
_TOKEN = re.compile(r"\[\s*(-?\d+)\s*\]|\[\s*'([^'\[\]]*)'\s*\]|([^\W\d]\w*)", re.UNICODE)


def parse_path(s: str):
    """Returns list of ("attr", name) | ("idx", int) | ("key", str) or raises ValueError."""
    if not isinstance(s, str) or s == "":
        raise ValueError("empty path")
    ops = []
    pos = 0
    first = True
    while pos < len(s):
        if not first:
            if not s.startswith("->", pos):
                raise ValueError(f"expected '->' at {pos}")
            pos += 2
        m = _TOKEN.match(s, pos)
        if not m or m.end() == pos:
            raise ValueError(f"bad token at {pos}")
        if m.group(1) is not None:
            ops.append(("idx", int(m.group(1))))
        elif m.group(2) is not None:
            ops.append(("key", m.group(2)))
        else:
            ops.append(("attr", m.group(3)))
        pos = m.end()
        first = False
    return ops


def expected(s, ops, vsnap, create_new_ok=False):
    """Snapshot after replacing the node addressed by `ops` inside snapshot `s` by `vsnap`.

    Raises KeyError/IndexError/TypeError when the documented behaviour is a rejection, Unjudgeable when the
    path walks through something the statement does not cover."""
    if not ops:
        return vsnap
    (kind, arg), rest = ops[0], ops[1:]
    last = not rest
    tag = s[0]
    if kind == "attr":
        if tag != "tree":
            if tag in ("obj", "repr", "ref"):
                raise Unjudgeable("attribute of a non-TreeClass object")
            raise TypeError("attribute step on a non-TreeClass node")
        attrs = dict(s[2])
        if arg not in attrs:
            if last and create_new_ok:
                attrs[arg] = vsnap
                return ("tree", s[1], attrs)
            raise KeyError(arg)
        attrs[arg] = expected(attrs[arg], rest, vsnap, create_new_ok)
        return ("tree", s[1], attrs)
    if kind == "idx":
        if tag == "list":
            items = list(s[2])
            n = len(items)
            if not (-n <= arg < n):
                raise IndexError(arg)
            items[arg] = expected(items[arg], rest, vsnap, create_new_ok)
            return ("list", s[1], items)
        if tag == "tuple":
            raise TypeError("tuples cannot be updated by index")
        if tag == "dict":
            raise Unjudgeable("integer index into a dict")
        raise Unjudgeable(f"index into {tag}")
    if kind == "key":
        if tag != "dict":
            raise Unjudgeable(f"key into {tag}")
        d = dict(s[2])
        order = tuple(s[3])
        if arg not in d:
            if last and create_new_ok:
                d[arg] = vsnap
                return ("dict", s[1], d, order + (arg,))
            raise KeyError(arg)
        d[arg] = expected(d[arg], rest, vsnap, create_new_ok)
        return ("dict", s[1], d, order)
    raise Unjudgeable(kind)


def unordered(s):
    """Snapshot with dictionary key order removed (python dict equality ignores order; jax pytree
    flatten/unflatten, which the library uses to copy a tree, rebuilds every dict with sorted keys)."""
    if not isinstance(s, tuple) or not s:
        return s
    tag = s[0]
    if tag in ("tree", "obj"):
        return (tag, s[1], {k: unordered(v) for k, v in s[2].items()})
    if tag == "dict":
        return (tag, s[1], {k: unordered(v) for k, v in s[2].items()}, tuple(sorted(repr(k) for k in s[3])))
    if tag == "list":
        return (tag, s[1], [unordered(v) for v in s[2]])
    if tag == "tuple":
        return (tag, s[1], tuple(unordered(v) for v in s[2]))
    if tag == "objarr":
        return (tag, s[1], tuple(unordered(v) for v in s[2]))
    return s


def first_difference(a, b, path="$"):
    """Human readable location of the first structural difference between two snapshots (or None)."""
    if a == b:
        return None
    if type(a) is not type(b) or not isinstance(a, tuple) or not a or not b or a[0] != b[0]:
        return f"{path}: {_short(a)} != {_short(b)}"
    tag = a[0]
    if tag in ("tree", "obj"):
        if a[1] != b[1]:
            return f"{path}: class {a[1]} != {b[1]}"
        for k in sorted(set(a[2]) | set(b[2])):
            if k not in a[2]:
                return f"{path}.{k}: missing on the left"
            if k not in b[2]:
                return f"{path}.{k}: missing on the right"
            d = first_difference(a[2][k], b[2][k], f"{path}.{k}")
            if d:
                return d
    if tag == "dict":
        if a[1] != b[1]:
            return f"{path}: dict class {a[1]} != {b[1]}"
        if a[3] != b[3]:
            return f"{path}: keys/order {a[3]} != {b[3]}"
        for k in a[2]:
            d = first_difference(a[2][k], b[2].get(k), f"{path}[{k!r}]")
            if d:
                return d
    if tag in ("list", "tuple"):
        if a[1] != b[1]:
            return f"{path}: sequence class {a[1]} != {b[1]}"
        if len(a[2]) != len(b[2]):
            return f"{path}: length {len(a[2])} != {len(b[2])}"
        for i, (x, y) in enumerate(zip(a[2], b[2])):
            d = first_difference(x, y, f"{path}[{i}]")
            if d:
                return d
    return f"{path}: {_short(a)} != {_short(b)}"


def _short(x):
    s = repr(x)
    return s if len(s) < 160 else s[:157] + "..."


def extract(s, ops):
    """Sub-snapshot addressed by ops (KeyError/IndexError/Unjudgeable if it does not exist)."""
    for kind, arg in ops:
        if kind == "attr":
            if s[0] != "tree":
                raise Unjudgeable("attribute of a non-TreeClass node")
            s = s[2][arg]
        elif kind == "idx":
            if s[0] not in ("list", "tuple"):
                raise Unjudgeable("index into a non-sequence")
            s = s[2][arg]
        else:
            if s[0] != "dict":
                raise Unjudgeable("key into a non-dict")
            s = s[2][arg]
    return s


def has_converter(live, path):
    """True when the addressed leaf is a declared TreeClass field with an `on_setattr` converter other than
    freezing (e.g. Material.permittivity is normalised to a 9-tuple): then the stored value may legitimately
    differ from the passed one."""
    try:
        import pytreeclass as tc

        ops = parse_path(path)
        if ops[-1][0] != "attr":
            return False
        cur = live
        for kind, arg in ops[:-1]:
            cur = getattr(cur, arg) if kind == "attr" else cur[arg]
        if not isinstance(cur, tc.TreeClass):
            return False
        for f in tc.fields(cur):
            if f.name == ops[-1][1]:
                return any(cb is not tc.freeze for cb in (f.on_setattr or ()))
        return False
    except Exception:
        return False


def judge(before, after, result_type, self_type, result_snap, path, vsnap, create_new_ok, converted_ok=False):
    """Returns (verdict, detail, mechanism): True/False/None(unjudgeable)."""
    if before != after:
        return False, "input object changed: " + str(first_difference(before, after)), "aset-mutates-input"
    if result_type is not self_type:
        return False, f"result type {result_type} is not the input type {self_type}", "aset-changes-type"
    try:
        ops = parse_path(path)
        want = expected(before, ops, vsnap, create_new_ok)
    except Unjudgeable as e:
        return None, str(e), None
    except (ValueError, KeyError, IndexError, TypeError) as e:
        return False, f"aset returned a value for a path that must be rejected ({type(e).__name__}: {e})", "aset-accepts-invalid-path"
    if want != result_snap and unordered(want) == unordered(result_snap):
        _bump("aset_dict_key_order_changed")
        return True, "dict_order", None
    if want != result_snap and converted_ok:
        try:
            if unordered(expected(before, ops, extract(result_snap, ops), create_new_ok)) == unordered(result_snap):
                _bump("aset_value_converted_by_field")
                return True, "converted", None
        except Exception:
            pass
    if want != result_snap:
        return False, "result differs from 'only the addressed path changed': " + str(first_difference(want, result_snap)), "aset-wrong-result"
    return True, "", None


# ------------------------------------------------------------------------------------------------
# contract
# ------------------------------------------------------------------------------------------------
def _bump(k):
    COUNTS[k] = COUNTS.get(k, 0) + 1


def _before(self):
    return snap(self)


def only_the_addressed_path_changed_and_input_is_untouched(self, attr_name, val, create_new_ok, result, OLD):
    _bump("aset")
    v, _, _ = judge(OLD.before, snap(self), type(result), type(self), snap(result), attr_name, snap(val), create_new_ok,
                    has_converter(self, attr_name))
    if v is None:
        _bump("aset_unjudgeable")
    return v is not False


def _aset_error(self, attr_name, val, create_new_ok, result, OLD):
    _, detail, mech = judge(OLD.before, snap(self), type(result), type(self), snap(result), attr_name, snap(val), create_new_ok,
                            has_converter(self, attr_name))
    return AsetContractError(
        f"{type(self).__name__}.aset({attr_name!r}): {detail}",
        {"class": type(self).__module__ + "." + type(self).__qualname__, "path": attr_name, "value": _short(val), "create_new_ok": bool(create_new_ok)},
        mechanism=mech,
    )


def attach() -> bool:
    from vf import bootstrap

    if not bootstrap.ensure_deps():
        return False
    import icontract

    bootstrap.ensure()
    from fdtdx.core.jax.pytrees import TreeClass

    if "aset" in _attached:
        return True
    orig = TreeClass.__dict__["aset"]
    wrapped = icontract.ensure(only_the_addressed_path_changed_and_input_is_untouched, error=_aset_error)(orig)
    wrapped = icontract.snapshot(_before, name="before")(wrapped)
    _attached["aset"] = orig
    TreeClass.aset = wrapped
    return True


def detach():
    from fdtdx.core.jax.pytrees import TreeClass

    if "aset" in _attached:
        TreeClass.aset = _attached.pop("aset")

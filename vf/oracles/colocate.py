"""Independent numpy co-location of Yee fields onto the E_z node (i, j, k+1/2).

Written from the documented definition (Taflove positions):
  E_x (i+1/2,j,k): backward average in x, forward average in z      E_y: backward in y, forward in z      E_z: as is
  H_x (i,j+1/2,k+1/2): backward in y    H_y: backward in x    H_z (i+1/2,j+1/2,k): backward in x and y, forward in z
Backward (centre -> edge) averages are weighted by the half-widths of the two cells on a stretched grid
(width of the cell below index 0 := width of cell 0); forward (edge -> centre) averages are plain means.
Halo per face: zero | wrap | bloch (phase) | electric mirror (parity-weighted mirror partner).
"""

from __future__ import annotations

import numpy as np


def pad(F, kinds, phases, field_type):
    """F: (3,nx,ny,nz).  kinds[a] = (lo_kind, hi_kind) each in zero|wrap|bloch|emirror; phases[a] = exp(i k L)."""
    P = np.zeros((3, F.shape[1] + 2, F.shape[2] + 2, F.shape[3] + 2), dtype=np.result_type(F.dtype, np.complex128 if any(p != 1 for p in phases) else F.dtype))
    P[:, 1:-1, 1:-1, 1:-1] = F
    for a in range(3):
        lo_k, hi_k = kinds[a]

        def sl(i):
            s = [slice(None)] * 4
            s[a + 1] = i
            return tuple(s)

        if lo_k in ("wrap", "bloch"):
            P[sl(0)] = P[sl(-2)] * (np.conj(phases[a]) if lo_k == "bloch" else 1.0)
        elif lo_k == "emirror":
            for c in range(3):
                if field_type == "E":
                    on_plane, parity = (c != a), (-1.0 if c != a else 1.0)
                else:
                    on_plane, parity = (c == a), (-1.0 if c == a else 1.0)
                src = 2 if on_plane else 1
                s_t = [c, slice(None), slice(None), slice(None)]
                s_s = list(s_t)
                s_t[a + 1] = 0
                s_s[a + 1] = src
                P[tuple(s_t)] = parity * P[tuple(s_s)]
        if hi_k in ("wrap", "bloch"):
            P[sl(-1)] = P[sl(1)] * (phases[a] if hi_k == "bloch" else 1.0)
    return P


def _bavg(P, comp_arr, axis, widths):
    """backward average along `axis` of a padded (nx+2,ny+2,nz+2) array restricted to the interior of the other axes
    is done by the caller; here comp_arr is padded along `axis` only relevantly.  Returns interior-shaped array."""
    raise NotImplementedError


def colocate(E, H, kinds, phases, widths):
    """E, H: (3,nx,ny,nz) (H already time-centred).  widths: 3 arrays of cell widths.  Returns (Ec, Hc)."""
    Ep = pad(E, kinds, phases, "E")
    Hp = pad(H, kinds, phases, "H")
    n = E.shape[1:]

    def back(A, axis):
        # A padded on all axes: (n0+2, n1+2, n2+2); returns array padded on the other axes, interior on `axis`
        w = np.asarray(widths[axis], dtype=np.float64)
        wp = np.concatenate([w[:1], w[:-1]])
        ch, ph = 0.5 * w, 0.5 * wp
        shp = [1, 1, 1]
        shp[axis] = -1
        ch, ph = ch.reshape(shp), ph.reshape(shp)
        cur = np.take(A, np.arange(1, n[axis] + 1), axis=axis)
        prev = np.take(A, np.arange(0, n[axis]), axis=axis)
        return (cur * ph + prev * ch) / (ch + ph)

    def fwd(A, axis):
        cur = np.take(A, np.arange(1, n[axis] + 1), axis=axis)
        nxt = np.take(A, np.arange(2, n[axis] + 2), axis=axis)
        return 0.5 * (cur + nxt)

    def inner(A, axes):
        for ax in axes:
            A = np.take(A, np.arange(1, n[ax] + 1), axis=ax)
        return A

    Ex = inner(fwd(back(Ep[0], 0), 2), [1])
    Ey = inner(fwd(back(Ep[1], 1), 2), [0])
    Ez = inner(Ep[2], [0, 1, 2])
    Hx = inner(back(Hp[0], 1), [0, 2])
    Hy = inner(back(Hp[1], 0), [1, 2])
    Hz = fwd(back(back(Hp[2], 0), 1), 2)
    return np.stack([Ex, Ey, Ez]), np.stack([Hx, Hy, Hz])

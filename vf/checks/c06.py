"""C06 — simulation state depends only on the steps executed, not on how the run is split.

History monitor over one container: random partitions of [0,T) through custom_fdtd_forward, and random
histories drawn from {run, reset, reuse returned arrays, partial run, poison with NaN/Inf}.  Every full run
in a history must reproduce the reference outputs; after reset() every time-dependent array is exactly
zero and the materials are bit-identical.
"""

from __future__ import annotations

PROPERTY = "C06"
RULE = (
    "seeded scenes (PML subsets or closed walls, sources with switches, 1-3 detectors of field/energy/poynting/"
    "phasor kinds with switches); (a) 2-3 random partitions of [0,T) into 1-6 pieces incl. empty ones; (b) 2 random "
    "histories of 3-6 operations. distinct = (operation sequence, detector kinds, has_pml) / (piece count class, "
    "has empty piece, detector kinds); non-trivial iff reference final fields non-zero"
)
REQUIRED_COUNTERS = ["partitions", "history_ops", "resets_checked"]
ASSUMPTIONS = ["reference = one run_fdtd call on the freshly placed container", "float64, rtol 1e-12 (same operations)"]
CASE_TIMEOUT = {"quick": 1200, "thorough": 3000}

OPS = ("run", "run_reuse", "reset", "partial", "poison")


def cases(tier, rng):
    n = 12 if tier == "quick" else 70
    out = []
    for i in range(n):
        out.append(
            {
                "seed": int(rng.integers(1 << 30)),
                "steps": int(rng.integers(6, 20 if tier == "quick" else 40)),
                "pml": ["some", None, "all"][i % 3],
                "n_partitions": 2 if tier == "quick" else 4,
                "n_histories": 2 if tier == "quick" else 4,
                "dispersive": bool((i // 3 + i) % 3 == 1),
                "mclass": i,
                # a third of the scenes run under a gradient configuration (reversible: the container then owns a
                # boundary-recording state, and run_fdtd resets through another path)
                "gradient": [None, "reversible", None, "checkpointed", "reversible", None][i % 6],
            }
        )
    return out


def run_case(case):
    from vf import bootstrap
    from vf.result import Res

    bootstrap.ensure()
    r = Res()
    _one(case, r)
    return r.to_dict()


def _tree_np(arrays):
    import numpy as np

    d = {"E": np.asarray(arrays.fields.E), "H": np.asarray(arrays.fields.H)}
    for nm, (a, b) in arrays.fields.psi_E.items():
        d[f"psiE/{nm}/0"], d[f"psiE/{nm}/1"] = np.asarray(a), np.asarray(b)
    for nm, (a, b) in arrays.fields.psi_H.items():
        d[f"psiH/{nm}/0"], d[f"psiH/{nm}/1"] = np.asarray(a), np.asarray(b)
    for nm in ("dispersive_P_curr", "dispersive_P_prev"):
        v = getattr(arrays.fields, nm, None)
        if v is not None:
            d[f"{nm}"] = np.asarray(v)
    for dn, st in arrays.detector_states.items():
        for k, v in st.items():
            d[f"det/{dn}/{k}"] = np.asarray(v)
    return d


def _materials_np(arrays):
    import numpy as np

    d = {}
    for k in ("inv_permittivities", "inv_permeabilities", "electric_conductivity", "magnetic_conductivity"):
        v = getattr(arrays, k)
        if v is not None:
            d[k] = np.asarray(v)
    return d


def _one(sc, r):
    import jax
    import jax.numpy as jnp
    import numpy as np

    import fdtdx
    from fdtdx.fdtd.fdtd import custom_fdtd_forward
    from vf import gen, scenes

    rng = np.random.default_rng(sc["seed"])
    T = sc["steps"]
    scene = gen.random_scene(
        rng,
        steps=T,
        interior=(4, 6),
        pml=sc["pml"],
        pml_thickness=(1, 3),
        materials="any",
        lossy=bool(rng.random() < 0.3),
        n_sources=(1, 3),
        source_kinds=("dipole", "mdipole", "uniform", "gaussian", "tilted_dipole"),
        detectors=("field", "energy", "poynting", "phasor"),
        n_detectors=(1, 3),
        grid=("uniform", "uniform", "rect"),
        material_class=sc.get("mclass"),
    )
    meta = scene["meta"]
    r.branch("material_class:" + str(meta.get("material_class", "drawn")))
    # every third scene carries a (stable) dispersive box: the polarisation state is part of what a split run hands on
    meta["dispersive"] = bool(sc.get("dispersive", False))
    if meta["dispersive"]:
        dtn = 0.99 * 50e-9 / (np.sqrt(3.0) * 299792458.0)
        ilo, ihi = scenes.interior_box(scene)
        # resonance well above the source band (omega*dt <= 0.45): with the resonance inside the band Re(eps) < 0 at
        # the carrier, and a plane source whose plane cuts the box then injects NaN (its impedance is not real)
        poles = [{"kind": "lorentz", "w0": 0.9 / dtn, "gamma": 0.05 / dtn, "deps": 1.0}, {"kind": "drude", "wp": 0.1 / dtn, "gamma": 0.02 / dtn}]
        scene["materials"].append(
            {"lo": [max(l, h - 3) for l, h in zip(ilo, ihi)], "hi": list(ihi), "mat": {"eps": 2.0, "dispersion": {"poles": poles[: int(rng.integers(1, 3))]}}, "order": 5}
        )
    r.branch("dispersive_scene" if meta["dispersive"] else "non_dispersive_scene")
    grad = sc.get("gradient")
    if grad == "reversible" and meta["dispersive"]:
        grad = "checkpointed"  # the library refuses reversible runs of dispersive scenes
    if grad == "reversible":
        scene["gradient"] = {"method": "reversible"}
    elif grad == "checkpointed":
        scene["gradient"] = {"method": "checkpointed", "num_checkpoints": int(rng.integers(1, 4))}
    r.branch("gradient_config:" + str(grad))
    built = scenes.build(scene)
    objects, config, arrays0 = built["objects"], built["config"], built["arrays"]
    key = jax.random.PRNGKey(11)
    run_full = jax.jit(lambda a: fdtdx.run_fdtd(arrays=a, objects=objects, config=config, key=key, show_progress=False))
    t_ref, a_ref = run_full(arrays0)
    ref = _tree_np(a_ref)
    if not all(np.all(np.isfinite(v)) for v in ref.values()):
        # the single uninterrupted run itself is not finite: there is no state for a split run to reproduce
        r.count("reference_run_not_finite_scenes_skipped")
        r.branch("reference_run_not_finite")
        return
    mats0 = _materials_np(arrays0)
    nontriv = float(np.abs(ref["E"]).max()) > 0
    scaleE, scaleH = float(np.abs(ref["E"]).max()), float(np.abs(ref["H"]).max())
    dk = tuple(sorted(meta["detector_kinds"]))
    wit0 = {"case": sc, "meta": meta, "shape": scene["shape"]}
    for d in meta["detector_kinds"]:
        r.branch("det:" + d)
    r.branch("pml" if meta["pml_faces"] else "no_pml")

    def compare(got_arrays, what, wit, sig, mech=None):
        got = _tree_np(got_arrays)
        ok = True
        for k, v in ref.items():
            if k not in got:
                r.violate(f"{what}: array {k} missing", wit, sig=sig)
                ok = False
                continue
            m = mech(k, got[k]) if mech else None
            # PML auxiliary arrays are differences of fields: they are judged against the field scale (a loop that is
            # compiled with another trip count may round differently at 1e-16 of the operands)
            atol = 1e-13 * (scaleE if k.startswith("psiH") else scaleH) if k.startswith("psi") else 0.0
            ok &= r.check_close("state", got[k], v, 1e-12, what=None, witness={**wit, "array": k, "what": what}, mechanism=m, sig=sig, atol=atol)
        return ok

    # ---------------- (a) partitions ------------------------------------------------------------
    def seg(a, t0, t1, reset, as_array=False):
        # the documented type of start_time / end_time is int | jax.Array: both forms are driven
        if as_array:
            t0, t1 = jnp.asarray(t0, dtype=jnp.int32), jnp.asarray(t1, dtype=jnp.int32)
        return custom_fdtd_forward(
            arrays=a, objects=objects, config=config, key=key, reset_container=reset, record_detectors=True,
            start_time=t0, end_time=t1, show_progress=False,
        )

    for _ in range(sc["n_partitions"]):
        npieces = int(rng.integers(1, 7))
        cuts = sorted(int(x) for x in rng.integers(0, T + 1, size=npieces - 1))
        bounds = [0] + cuts + [T]
        a = arrays0
        t = None
        as_array = bool(rng.integers(2))
        r.branch("split_times_as_jax_array" if as_array else "split_times_as_int")
        for i in range(len(bounds) - 1):
            t, a = seg(a, bounds[i], bounds[i + 1], i == 0, as_array)
        r.count("partitions")
        has_empty = any(bounds[i] == bounds[i + 1] for i in range(len(bounds) - 1))
        if has_empty:
            r.branch("partition_with_empty_piece")
        sig = ("partition", min(npieces, 4), has_empty, as_array, dk) if nontriv else None
        wit = {**wit0, "bounds": bounds, "times_as_jax_array": as_array}
        if int(t) != int(t_ref):
            r.violate(f"partitioned run ends at step {int(t)} != {int(t_ref)}", wit, sig=sig)
        else:
            r.ok(None)
        compare(a, "partitioned run vs single run", wit, sig)

    # ---------------- (b) histories -------------------------------------------------------------
    def poison(a):
        bad = [jnp.nan, jnp.inf, -jnp.inf]

        def p(x):
            if not isinstance(x, jax.Array) or x.size == 0:
                return x
            idx = tuple(int(rng.integers(0, n)) for n in x.shape)
            return x.at[idx].set(bad[int(rng.integers(3))])

        a = a.aset("fields", jax.tree.map(p, a.fields))
        a = a.aset("detector_states", {k: {k2: p(v2) for k2, v2 in v.items()} for k, v in a.detector_states.items()})
        return a

    def mech_nonfinite_det(poisoned):
        def f(name, got):
            if poisoned and name.startswith("det/") and not np.all(np.isfinite(got)):
                return "reset-keeps-nonfinite-detector-state"
            return None

        return f

    for _ in range(sc["n_histories"]):
        nops = int(rng.integers(3, 7))
        ops = [OPS[int(rng.integers(len(OPS)))] for _ in range(nops)]
        if "run" not in ops and "run_reuse" not in ops:
            ops.append("run")
        a = arrays0
        poisoned = False  # NaN/Inf written since the last *successful full clean-up*
        done = []
        for op in ops:
            done.append(op)
            r.count("history_ops")
            sig = ("history", tuple(done[-3:]), dk) if nontriv else None
            wit = {**wit0, "history": list(done)}
            if op in ("run", "run_reuse"):
                t, out = run_full(a)
                if int(t) != int(t_ref):
                    r.violate("run in history ends at a different step", {**wit, "got": int(t)}, sig=sig)
                compare(out, f"full run after history {done}", wit, sig, mech=mech_nonfinite_det(poisoned))
                if op == "run_reuse":
                    a = out
            elif op == "partial":
                t1 = int(rng.integers(0, T + 1))
                _, a = seg(a, 0, t1, True, bool(rng.integers(2)))
            elif op == "poison":
                a = poison(a)
                poisoned = True
            elif op == "reset":
                if a.recording_state is not None and rng.random() < 0.5:
                    a = a.reset(reset_recording_state=True)
                    r.branch("reset_with_recording_state")
                    leftover = [float(jnp.max(jnp.abs(x))) for x in jax.tree.leaves(a.recording_state) if isinstance(x, jax.Array) and x.size]
                    if any(v != 0.0 for v in leftover):
                        r.violate("after reset(reset_recording_state=True) the recording state is not zero", {**wit, "max_abs": max(leftover)}, sig=sig)
                else:
                    a = a.reset()
                r.count("resets_checked")
                z = _tree_np(a)
                for k, v in z.items():
                    if v.size and not np.all(v == 0):
                        nf = not np.all(np.isfinite(v))
                        r.violate(
                            f"after reset() time-dependent array {k} is not zero",
                            {**wit, "array": k, "nonfinite": bool(nf), "max_abs": float(np.nanmax(np.abs(v)))},
                            mechanism="reset-keeps-nonfinite-detector-state" if (poisoned and nf and k.startswith("det/")) else None,
                            sig=sig,
                        )
                    else:
                        r.ok(sig)
                m = _materials_np(a)
                for k, v in mats0.items():
                    if k not in m or not np.array_equal(m[k], v):
                        r.violate(f"reset() changed material array {k}", wit, sig=sig)
                    else:
                        r.ok(None)
        r.sample = {"case": sc, "history": ops, "detectors": list(dk)}

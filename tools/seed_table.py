#!/venv/bin/python
"""Regenerate seeded/README.md from seeded/*/meta.json, evaluation.json and notes.json."""
import glob
import json
import os

root = os.path.dirname(os.path.dirname(os.path.abspath(__file__)))
notes = {}
np_ = os.path.join(root, "seeded", "notes.json")
if os.path.exists(np_):
    notes = json.load(open(np_))
rows = []
for d in sorted(glob.glob(os.path.join(root, "seeded", "C*"))):
    name = os.path.basename(d)
    meta = json.load(open(os.path.join(d, "meta.json")))
    ev = json.load(open(os.path.join(d, "evaluation.json"))) if os.path.exists(os.path.join(d, "evaluation.json")) else {}
    checks = "; ".join(f"{k}: {'caught' if v['rc'] == 1 else 'MISSED' if v['rc'] == 0 else 'inconclusive'}" for k, v in ev.get("checks", {}).items())
    first = next((v["first_violations"][0] for v in ev.get("checks", {}).values() if v.get("first_violations")), "")
    rows.append((name, meta.get("property", "?"), meta.get("summary", "").replace("\n", " ")[:260], str(meta.get("needs_to_manifest", "")).replace("\n", " ")[:260], checks, first[:120], notes.get(name, "")))
with open(os.path.join(root, "seeded", "README.md"), "w") as f:
    f.write("# Seeded changes\n\nEach directory holds a change to ymahlau/fdtdx written by a fresh sub-agent that saw only the property text and a scratch worktree (nothing from /verif): `patch.diff`, the demonstration (`demo.py`, passes on the original tree, fails with the change), `meta.json` (what it breaks, what it needs to manifest, which repository tests still pass) and `evaluation.json` (written by `tools/seed_eval.py`: the patch is applied to a scratch copy of /repo/src, never to /repo).\n\n")
    f.write("| seed | property | change | needs to manifest | quick-tier verdict | first violation reported | note |\n|---|---|---|---|---|---|---|\n")
    for r in rows:
        f.write("| " + " | ".join(x.replace("|", "/") for x in r) + " |\n")
print(f"{len(rows)} seeds")

"""C16 — detector reductions are consistent with their spatial records.

Differential monitor between detector families recording the same region in ONE real run: reduced vs spatial
records (volume / area weights recomputed from the grid edges), +/- direction, scalar vs all-component flux,
closed surface vs its six faces, inverse-time phasor detector on the backward sweep vs the forward one.
"""

from __future__ import annotations

PROPERTY = "C16"
RULE = (
    "seeded closed or PML scenes on uniform and stretched grids, 2 dipoles, T=6..14; per scene one random box carries "
    "field/phasor/energy detectors in reduced and spatial form (random component subsets) and a closed-surface "
    "detector plus its six face detectors; one random plane carries Poynting detectors in every option combination "
    "(direction, reduce, keep_all_components). distinct = (relation, grid kind, box degenerate class); non-trivial "
    "iff the spatial record is non-zero"
)
REQUIRED_COUNTERS = ["comparisons", "relations_judged"]
ASSUMPTIONS = [
    "weights recomputed from diff(edges) of the resolved grid (cell volumes, transverse face areas)",
    "inverse phasor relation judged at the Detector.update level with identical (time step, fields, state) inputs: in a backward sweep the inverse detector sees E one step earlier than the forward one, so run-level records are not negatives of each other by construction",
]
CASE_TIMEOUT = {"quick": 1200, "thorough": 3000}


def cases(tier, rng):
    n = 12 if tier == "quick" else 72
    return [{"seed": int(rng.integers(1 << 30)), "grid": ["uniform", "rect"][i % 2], "pml": bool(i % 3 == 0), "steps": int(rng.integers(6, 15))} for i in range(n)]


def run_case(case):
    from vf import bootstrap
    from vf.result import Res

    bootstrap.ensure()
    r = Res()
    _one(case, r)
    return r.to_dict()


def _one(c, r):
    import jax
    import jax.numpy as jnp
    import numpy as np

    import fdtdx
    from vf import scenes, sim

    rng = np.random.default_rng(c["seed"])
    spacing = 50e-9
    t = 2 if c["pml"] else 0
    inner = [int(rng.integers(5, 8)) for _ in range(3)]
    shape = [n + 2 * t for n in inner]
    T = c["steps"]
    s = scenes.default_scene(shape=shape, steps=T, spacing=spacing)
    if c["pml"]:
        for f in scenes.FACES:
            s["faces"][f] = {"type": "pml", "thickness": t}
    else:
        for a in "xyz":
            k = ["pec", "pmc", "periodic", "none"][int(rng.integers(4))]
            s["faces"][f"min_{a}"] = {"type": k}
            s["faces"][f"max_{a}"] = {"type": k}
    if c["grid"] == "rect":
        edges = []
        for a in range(3):
            w = spacing * np.exp(rng.uniform(0, np.log(2.5), size=shape[a]))
            if t:
                w[: t + 1] = w[t]
                w[-t - 1 :] = w[-t - 1]
            e = np.concatenate([[0.0], np.cumsum(w)])
            edges.append([float(x) for x in e - e[-1] / 2])
        s["grid"] = {"kind": "rect", "edges": edges}
    s["gradient"] = {"method": "reversible"}
    wl = 10 * spacing
    s["volume"] = {"eps": 1.5, "mu": 1.2}
    s["materials"] = [{"lo": [t + 1] * 3, "hi": [t + 3] * 3, "mat": {"eps": [2.0, 3.0, 4.0]}}]
    s["sources"] = [
        {"kind": "dipole", "lo": [t + int(rng.integers(0, n)) for n in inner], "polarization": int(rng.integers(3)), "wavelength": wl},
        {"kind": "dipole", "lo": [t + int(rng.integers(0, n)) for n in inner], "polarization": int(rng.integers(3)), "wavelength": wl * 0.8, "source_type": "magnetic"},
    ]
    # region box (may be degenerate / touch the walls)
    lo, hi = [], []
    for a in range(3):
        l = int(rng.integers(t, t + inner[a] - 1))
        h = int(rng.integers(l + 1, t + inner[a] + 1))
        if rng.random() < 0.2:
            h = l + 1
        lo.append(l)
        hi.append(h)
    comps_all = ["Ex", "Ey", "Ez", "Hx", "Hy", "Hz"]
    sub = [x for x in comps_all if rng.random() < 0.6] or ["Ez"]
    exact = bool(rng.integers(2))
    dets = [
        {"kind": "field", "name": "f_sp", "lo": lo, "hi": hi, "components": sub, "exact": exact},
        {"kind": "field", "name": "f_red", "lo": lo, "hi": hi, "components": sub, "reduce": True, "exact": exact},
        {"kind": "phasor", "name": "p_sp", "lo": lo, "hi": hi, "components": sub, "wavelengths": [wl, wl * 0.8], "exact": exact},
        {"kind": "phasor", "name": "p_red", "lo": lo, "hi": hi, "components": sub, "wavelengths": [wl, wl * 0.8], "reduce": True, "exact": exact},
        {"kind": "phasor", "name": "p_inv", "lo": lo, "hi": hi, "components": sub, "wavelengths": [wl, wl * 0.8], "exact": exact, "inverse": True},
        {"kind": "energy", "name": "e_sp", "lo": lo, "hi": hi, "exact": exact},
        {"kind": "energy", "name": "e_red", "lo": lo, "hi": hi, "reduce": True, "exact": exact},
        {"kind": "closed_poynting", "name": "closed", "lo": lo, "hi": hi, "exact": exact},
        {"kind": "closed_poynting", "name": "closed_in", "lo": lo, "hi": hi, "exact": exact, "orientation": "inward"},
    ]
    for a in range(3):
        for side in ("min", "max"):
            flo, fhi = list(lo), list(hi)
            if side == "min":
                fhi[a] = flo[a] + 1
            else:
                flo[a] = fhi[a] - 1
            dets.append({"kind": "poynting", "name": f"face{a}{side}", "lo": flo, "hi": fhi, "axis": a, "direction": "+", "reduce": True, "exact": exact})
    # one plane per normal axis, each with every option combination
    planes = {}
    for pa in range(3):
        plo, phi = list(lo), list(hi)
        phi[pa] = plo[pa] + 1
        planes[pa] = (plo, phi)
        for d in "+-":
            for red in (True, False):
                for ka in (True, False):
                    dets.append({"kind": "poynting", "name": f"pl{pa}{d}{int(red)}{int(ka)}", "lo": plo, "hi": phi, "axis": pa, "direction": d, "reduce": red, "keep_all": ka, "exact": exact})
    # forward / inverse twins of the other phasor-type detectors (plane flux, closed surface), judged at update level
    t_end = c["steps"] * 0.99 * 50e-9 / (3**0.5 * 299792458.0)
    win = [
        None,
        {"kind": "gaussian", "center_time": 0.5 * t_end, "sigma_time": 0.3 * t_end},
        {"kind": "tukey", "start_time": 0.0, "end_time": t_end, "alpha": 0.5},
    ][int(rng.integers(3))]
    for nm, inv in (("pp_f", False), ("pp_i", True)):
        dets.append({"kind": "phasor_poynting", "name": nm, "lo": planes[1][0], "hi": planes[1][1], "axis": 1, "direction": "+", "wavelengths": [wl, wl * 0.8], "exact": exact, "inverse": inv, "window": win})
    for nm, inv in (("cpp_f", False), ("cpp_i", True)):
        dets.append({"kind": "closed_phasor_poynting", "name": nm, "lo": lo, "hi": hi, "wavelengths": [wl, wl * 0.8], "exact": exact, "inverse": inv, "window": win})
    # spatial all-component flux over the whole box: independent reference for the closed surface
    dets.append({"kind": "poynting", "name": "box_all", "lo": lo, "hi": hi, "axis": 0, "direction": "+", "reduce": False, "keep_all": True, "exact": exact})
    s["detectors"] = dets
    built = scenes.build(s)
    objects, config = built["objects"], built["config"]
    key = jax.random.PRNGKey(0)
    fwd = jax.jit(lambda a: fdtdx.run_fdtd(arrays=a, objects=objects, config=config, key=key, show_progress=False))(built["arrays"])
    D = scenes.detector_arrays(fwd[1])
    grid = config.resolved_grid
    w = [np.asarray(grid.cell_widths(a), dtype=np.float64) for a in range(3)]

    def vol(lo_, hi_):
        return w[0][lo_[0] : hi_[0], None, None] * w[1][None, lo_[1] : hi_[1], None] * w[2][None, None, lo_[2] : hi_[2]]

    def area(lo_, hi_, axis):
        ws = [w[a][lo_[a] : hi_[a]] if a != axis else np.ones(hi_[a] - lo_[a]) for a in range(3)]
        return ws[0][:, None, None] * ws[1][None, :, None] * ws[2][None, None, :]

    deg = tuple(int(h - l == 1) for l, h in zip(lo, hi))
    wit = {"case": c, "box": [lo, hi], "components": sub, "exact": exact, "shape": shape}
    r.branch("grid:" + c["grid"])
    r.branch("exact" if exact else "raw")

    def rel(name, got, want, terms=None):
        # `terms`: the addends of a reduction; a sum of mixed-sign terms is only defined up to round-off of the
        # largest term, so that sets the absolute floor (a mean of +-1e-9 values legitimately differs at 1e-25)
        r.count("relations_judged")
        sig = (name, c["grid"], deg)
        atol = 0.0 if terms is None else 1e-12 * float(np.abs(np.asarray(terms)).max() if np.asarray(terms).size else 0.0)
        r.check_close(name, np.asarray(got), np.asarray(want), 1e-9, witness={**wit, "relation": name}, sig=sig, atol=atol)

    V = vol(lo, hi)
    rel("field_reduced_is_volume_weighted_mean", D["f_red/fields"], (D["f_sp/fields"] * V[None, None]).sum(axis=(2, 3, 4)) / V.sum(), terms=D["f_sp/fields"])
    rel("phasor_reduced_is_volume_weighted_mean", D["p_red/phasor"], (D["p_sp/phasor"] * V[None, None, None]).sum(axis=(3, 4, 5)) / V.sum(), terms=D["p_sp/phasor"])
    rel("energy_reduced_is_volume_sum", D["e_red/energy"][:, 0], (D["e_sp/energy"] * V[None]).sum(axis=(1, 2, 3)), terms=D["e_sp/energy"] * V[None])
    for pa in range(3):
        plo, phi = planes[pa]
        A = area(plo, phi, pa)
        sp_all = D[f"pl{pa}+01/poynting_flux"]  # (T,3,*plane)
        sp_sc = D[f"pl{pa}+00/poynting_flux"]  # (T,*plane)
        rel("scalar_is_propagation_component", sp_sc, sp_all[:, pa])
        rel("reduced_scalar_is_area_sum", D[f"pl{pa}+10/poynting_flux"][:, 0], (sp_sc * A[None]).sum(axis=(1, 2, 3)), terms=sp_sc * A[None])
        A3 = np.stack([area(plo, phi, a) for a in range(3)])
        rel("reduced_vector_is_area_sum", D[f"pl{pa}+11/poynting_flux"], (sp_all * A3[None]).sum(axis=(2, 3, 4)), terms=sp_all * A3[None])
        for tag in ("00", "01", "10", "11"):
            rel("minus_direction_negates", D[f"pl{pa}-{tag}/poynting_flux"], -D[f"pl{pa}+{tag}/poynting_flux"])
    active = [a for a in range(3) if hi[a] - lo[a] > 1]
    net = sum(D[f"face{a}max/poynting_flux"][:, 0] - D[f"face{a}min/poynting_flux"][:, 0] for a in active) if active else np.zeros(T)
    face_terms = np.stack([D[f"face{a}{sd}/poynting_flux"][:, 0] for a in range(3) for sd in ("min", "max")])
    rel("closed_surface_is_signed_face_sum", D["closed/poynting_flux"][:, 0], net, terms=face_terms)
    rel("inward_negates_outward", D["closed_in/poynting_flux"][:, 0], -D["closed/poynting_flux"][:, 0])
    # the same net flux from the spatial all-component record and areas recomputed from the grid edges
    S = D["box_all/poynting_flux"]  # (T,3,*box)
    net2 = np.zeros(T)
    terms2 = []
    for a in active:
        for side, sgn in (("min", -1.0), ("max", 1.0)):
            flo, fhi = list(lo), list(hi)
            if side == "min":
                fhi[a] = flo[a] + 1
            else:
                flo[a] = fhi[a] - 1
            sl = [slice(None)] * 5
            sl[a + 2] = slice(0, 1) if side == "min" else slice(-1, None)
            t_ = S[tuple(sl)][:, a] * area(flo, fhi, a)[None]
            terms2.append(np.abs(t_).max() if t_.size else 0.0)
            net2 = net2 + sgn * t_.sum(axis=(1, 2, 3))
    rel("closed_surface_is_area_weighted_face_flux", D["closed/poynting_flux"][:, 0], net2, terms=np.asarray(terms2 or [0.0]) * max(1, int(np.prod([h - l for l, h in zip(lo, hi)]))))
    # inverse-time phasor detector: for the same (time step, fields, state) its update subtracts exactly what the
    # forward detector's update adds (judged on the real placed detectors with random inputs)
    placed = {o.name: o for o in objects.detectors}
    pf, pi = placed["p_sp"], placed["p_inv"]
    gshape = tuple(h - l for l, h in zip(lo, hi))
    for _ in range(3):
        E = jnp.asarray(rng.standard_normal((3, *gshape)))
        H = jnp.asarray(rng.standard_normal((3, *gshape)))
        st0 = {"phasor": jnp.asarray(rng.standard_normal((1, 2, len(sub), *gshape)) + 1j * rng.standard_normal((1, 2, len(sub), *gshape)))}
        tt = jnp.asarray(int(rng.integers(0, T)), dtype=jnp.int32)
        ie = fwd[1].inv_permittivities[:, lo[0] : hi[0], lo[1] : hi[1], lo[2] : hi[2]]
        a_f = pf.update(tt, E, H, st0, ie, 1.0)["phasor"]
        a_i = pi.update(tt, E, H, st0, ie, 1.0)["phasor"]
        rel("inverse_phasor_subtracts_what_forward_adds", np.asarray(a_i - st0["phasor"]), -np.asarray(a_f - st0["phasor"]))
    r.branch("inverse_phasor_judged")
    # the same relation for the phasor flux detectors: every state array of the inverse twin moves by exactly minus
    # what the forward twin's moves, from the same random state
    for fn, iname, (dlo, dhi) in (("pp_f", "pp_i", planes[1]), ("cpp_f", "cpp_i", (lo, hi))):
        df, di = placed[fn], placed[iname]
        dshape = tuple(h - l for l, h in zip(dlo, dhi))
        tmpl = fwd[1].detector_states[fn]
        for _ in range(2):
            E = jnp.asarray(rng.standard_normal((3, *dshape)))
            H = jnp.asarray(rng.standard_normal((3, *dshape)))
            st0 = {}
            for k_, v_ in tmpl.items():
                v_ = np.asarray(v_)
                x = rng.standard_normal(v_.shape)
                if np.iscomplexobj(v_):
                    x = x + 1j * rng.standard_normal(v_.shape)
                st0[k_] = jnp.asarray(x.astype(v_.dtype))
            tt = jnp.asarray(int(rng.integers(0, T)), dtype=jnp.int32)
            ie = fwd[1].inv_permittivities[:, dlo[0] : dhi[0], dlo[1] : dhi[1], dlo[2] : dhi[2]]
            a_f = df.update(tt, E, H, dict(st0), ie, 1.0)
            a_i = di.update(tt, E, H, dict(st0), ie, 1.0)
            for k_ in st0:
                rel(
                    "inverse_phasor_subtracts_what_forward_adds",
                    np.asarray(a_i[k_] - st0[k_]),
                    -np.asarray(a_f[k_] - st0[k_]),
                )
                r.count("inverse_flux_phasor_state_arrays_judged")
    r.branch("inverse_phasor_flux_detectors_judged")
    r.sample = wit

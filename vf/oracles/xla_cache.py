"""Opt-in persistent XLA compilation cache for checks that execute thousands of tiny XLA programs.

Purely a speed-up (entries are keyed by HLO text, jax version and compile options, so a stale entry cannot change
a result): the workers of one run and later runs share the compiled programs.  Call after `bootstrap.ensure()`.
"""

from __future__ import annotations


def enable(tag: str = "shared") -> None:
    import os
    import tempfile

    import jax

    try:
        d = os.path.join(tempfile.gettempdir(), f"vf_xla_cache_{tag}")
        os.makedirs(d, exist_ok=True)
        jax.config.update("jax_compilation_cache_dir", d)
        jax.config.update("jax_persistent_cache_min_compile_time_secs", 0.0)
        jax.config.update("jax_persistent_cache_min_entry_size_bytes", -1)
    except Exception:  # noqa: BLE001
        pass

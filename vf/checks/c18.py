"""C18 — device parameters map to materials exactly as documented.

Monitor: real `place_objects` + `apply_params` on seeded scenes with one or two devices (continuous / discrete /
etched; isotropic, diagonal and full-tensor device materials; dispersive discrete materials; voxel sizes > 1) over a
non-uniform static background, driven with histories of 2-5 parameter sets.

Oracle (numpy), per cell, from the transform-chain output of the real device (`device(params)` at voxel level,
which is *input* to the property) expanded by voxel repetition:
  continuous -> inverse of eps_lo + p (eps_hi - eps_lo) (component-wise for 1/3 components, 3x3 matrix inverse of the
                blended tensor for 9), materials ordered by (eps_xx, mu_xx, sigma_e, sigma_m);
  etched     -> inverse of bg + p (eps_etch - bg), bg = pre-device permittivity of the cell;
  discrete   -> exactly the inverse permittivity of the indexed material and exactly the pole coefficients that a
                static object of that material gets at placement (read from a one-cell swatch of every material);
  outside    -> every material array bit-identical to the pre-device arrays;
  history    -> arrays after applying p1..pk in sequence == arrays after applying only pk to the placed arrays.
"""

from __future__ import annotations

PROPERTY = "C18"
RULE = (
    "seeded scenes x parameter histories (a case = one geometry re-used with different device kinds/materials); parameters contain exact 0, 1, 0.5 and random values; an evaluation = one "
    "array comparison (device region, outside region, dispersive coefficients, history) after one apply_params; "
    "distinct = (device kind, tensor tier, transform chain, voxel class, history length, position of the device)"
)
REQUIRED_COUNTERS = [
    "comparisons",
    "device_cells_checked",
    "outside_cells_checked",
    "history_comparisons",
    "dispersive_comparisons_over_static_object_with_more_poles",
]
ASSUMPTIONS = [
    "the transform-chain output at voxel level is taken from the real device call (transforms are C19-C25)",
    "devices of one scene do not overlap each other",
    "dispersive coefficients of a discrete device cell are compared with the coefficients place_objects writes for a "
    "static one-cell object of the same material in the same scene (no independent pole algebra here; that is C35/C36)",
    "etched devices are continuous with one material (the library rejects anything else)",
]
CASE_TIMEOUT = {"quick": 600, "thorough": 1800}

KINDS = (
    "cont_iso",
    "cont_iso_tanh",
    "cont_diag",
    "cont_full",
    "disc2_iso",
    "disc3_iso",
    "disc4_diag",
    "disc3_full",
    "disc3_dispersive",
    "etch_iso",
    "etch_diag",
    "cont_iso_range",
)


def cases(tier, rng):
    n = 10 if tier == "quick" else 160
    per = 3 if tier == "quick" else 8
    out = []
    for i in range(n):
        out.append({"kind": "histories", "n": per, "gen_seed": int(rng.integers(1 << 30)), "first_kind": i % len(KINDS)})
    return out


# ------------------------------------------------------------------------------------------------
def _spd(rng, lo, hi):
    import numpy as np

    q, _ = np.linalg.qr(rng.normal(size=(3, 3)))
    m = q @ np.diag(rng.uniform(lo, hi, size=3)) @ q.T
    m = 0.5 * (m + m.T)
    return [[float(x) for x in row] for row in m]


def _device_materials(kind, rng):
    """dict name -> material dict; names deliberately not in permittivity order."""
    import numpy as np

    def iso(lo, hi):
        return float(rng.uniform(lo, hi))

    def diag(lo, hi):
        return [float(x) for x in rng.uniform(lo, hi, size=3)]

    if kind in ("cont_iso", "cont_iso_tanh", "cont_iso_range", "disc2_iso"):
        return {"zeta": {"eps": iso(1.0, 2.0)}, "alpha": {"eps": iso(4.0, 12.0)}}
    if kind == "cont_diag":
        return {"zeta": {"eps": diag(1.0, 2.5)}, "alpha": {"eps": diag(4.0, 12.0)}}
    if kind == "cont_full":
        return {"zeta": {"eps": _spd(rng, 1.0, 2.5)}, "alpha": {"eps": _spd(rng, 5.0, 12.0)}}
    if kind == "disc3_iso":
        return {"m_b": {"eps": iso(6.0, 9.0)}, "m_c": {"eps": iso(1.0, 2.0)}, "m_a": {"eps": iso(3.0, 5.0)}}
    if kind == "disc4_diag":
        return {
            "w": {"eps": diag(9.0, 12.0)},
            "x": {"eps": diag(1.0, 2.0)},
            "y": {"eps": diag(6.0, 8.0)},
            "z": {"eps": diag(3.0, 5.0)},
        }
    if kind == "disc3_full":
        return {"t2": {"eps": _spd(rng, 7.0, 9.0)}, "t0": {"eps": _spd(rng, 1.0, 2.0)}, "t1": {"eps": _spd(rng, 3.5, 5.0)}}
    if kind == "disc3_dispersive":
        return {
            "metalish": {
                "eps": iso(5.0, 7.0),
                "dispersion": {"poles": [{"kind": "drude", "wp": 1.0e15, "gamma": 1e14}, {"kind": "lorentz", "w0": 3e15, "gamma": 2e14, "deps": 0.7}]},
            },
            "air": {"eps": 1.0},
            "glass": {"eps": iso(2.0, 3.0), "dispersion": {"poles": [{"kind": "lorentz", "w0": 2.5e15, "gamma": 1e14, "deps": 1.5}]}},
        }
    if kind == "etch_iso":
        return {"etchant": {"eps": iso(1.0, 9.0)}}
    if kind == "etch_diag":
        return {"etchant": {"eps": diag(1.0, 9.0)}}
    raise ValueError(kind)


def _transforms(kind, nmat):
    if kind == "cont_iso_tanh":
        return [{"kind": "TanhProjection"}]
    if kind == "cont_iso_range":
        return [{"kind": "StandardToCustomRange", "min_value": 0.25, "max_value": 0.75}]
    if kind.startswith("disc"):
        return [{"kind": "StandardToCustomRange", "min_value": 0.0, "max_value": float(nmat - 1)}, {"kind": "ClosestIndex"}]
    return []


def gen_geometry(rng):
    """Domain, device boxes / voxel sizes and background boxes; shared by the scenes of one case so that the XLA
    programs compiled for these shapes are re-used (materials, device kinds and parameters change per scene)."""
    shape = [int(rng.integers(6, 10)), int(rng.integers(6, 10)), int(rng.integers(4, 8))]
    two = rng.random() < 0.4
    # swatch cells live in the x == shape[0]-1 plane; devices stay in x < shape[0]-1
    xs = shape[0] - 1
    if two:
        cut = int(rng.integers(2, xs - 1))
        xr = [(0, cut), (cut, xs)]  # touching allowed
    else:
        xr = [(0, xs)]
    devs = []
    for x0, x1 in xr:
        vox = [int(rng.choice([1, 1, 2])), int(rng.choice([1, 1, 2, 3])), int(rng.choice([1, 1, 2]))]
        lo, hi = [], []
        for a, (l, h) in enumerate([(x0, x1), (0, shape[1]), (0, shape[2])]):
            nv_max = (h - l) // vox[a]
            if nv_max < 1:
                vox[a] = 1
                nv_max = h - l
            nv = int(rng.integers(1, nv_max + 1))
            size = nv * vox[a]
            start = int(rng.integers(l, h - size + 1))
            lo.append(start)
            hi.append(start + size)
        devs.append({"lo": lo, "hi": hi, "voxel": vox})
    bg = []
    for i in range(int(rng.integers(1, 4))):
        lo = [int(rng.integers(0, shape[a])) for a in range(3)]
        hi = [int(rng.integers(lo[a] + 1, shape[a] + 1)) for a in range(3)]
        bg.append({"lo": lo, "hi": hi})
    return {"shape": shape, "devices": devs, "background": bg}


def gen_scene(rng, first_kind, geom=None):
    """One scene description (JSON-able)."""
    if geom is None:
        geom = gen_geometry(rng)
    shape = geom["shape"]
    devs = []
    for j, g in enumerate(geom["devices"]):
        kind = KINDS[first_kind] if j == 0 else KINDS[int(rng.integers(len(KINDS)))]
        mats = _device_materials(kind, rng)
        devs.append(
            {
                "kind": kind,
                "lo": list(g["lo"]),
                "hi": list(g["hi"]),
                "voxel": list(g["voxel"]),
                "materials": mats,
                "transforms": _transforms(kind, len(mats)),
                "etch": kind.startswith("etch"),
            }
        )
    # static background with materials of a tier not wider than the devices need
    tier = 1
    for d in devs:
        for m in d["materials"].values():
            tier = max(tier, _tier_of_eps(m["eps"]))
    bg = []
    for i, g in enumerate(geom["background"]):
        t = int(rng.choice([x for x in (1, 3, 9) if x <= tier]))
        eps = float(rng.uniform(1.5, 6.0)) if t == 1 else ([float(x) for x in rng.uniform(1.5, 6.0, size=3)] if t == 3 else _spd(rng, 1.5, 6.0))
        mat = {"eps": eps}
        if rng.random() < 0.3:
            mat["sig_e"] = float(rng.uniform(1e3, 1e4))
        force = i == 0 and devs[0]["kind"].startswith("disc") and rng.random() < 0.5
        if force:
            # a static 3-pole object exactly under the first (discrete) device
            t, mat = 1, {"eps": float(rng.uniform(1.5, 6.0))}
            g = {"lo": [max(0, x - 1) for x in devs[0]["lo"]], "hi": list(devs[0]["hi"])}
        if t == 1 and (force or rng.random() < 0.4):
            # static dispersive object under (or beside) the devices, with up to three poles: usually MORE poles than
            # any device material has, so every pole slot of a device cell has to be rewritten by apply_params
            npoles = 3 if force else int(rng.integers(1, 4))
            poles = []
            for _ in range(npoles):
                if rng.random() < 0.4:
                    poles.append({"kind": "drude", "wp": float(rng.uniform(0.5e15, 1.5e15)), "gamma": float(rng.uniform(0.5e14, 2e14))})
                else:
                    poles.append({"kind": "lorentz", "w0": float(rng.uniform(2e15, 4e15)), "gamma": float(rng.uniform(0.5e14, 3e14)), "deps": float(rng.uniform(0.3, 2.0))})
            mat["dispersion"] = {"poles": poles}
        bg.append({"lo": list(g["lo"]), "hi": list(g["hi"]), "mat": mat, "order": i})
    return {"shape": shape, "devices": devs, "background": bg, "volume": {"eps": float(rng.choice([1.0, 1.44]))}}


def gen_params(rng, shape, kind_hint):
    """Hostile + random parameter array in [0,1] (float32 like the library's own initialisation)."""
    import numpy as np

    mode = int(rng.integers(6))
    if mode == 0:
        p = np.zeros(shape)
    elif mode == 1:
        p = np.ones(shape)
    elif mode == 2:
        p = np.full(shape, 0.5)
    elif mode == 3:
        p = rng.choice([0.0, 0.25, 0.5, 0.75, 1.0], size=shape)
    else:
        p = rng.uniform(0, 1, size=shape)
        flat = p.reshape(-1)
        flat[: max(1, flat.size // 7)] = rng.choice([0.0, 1.0, 0.5], size=max(1, flat.size // 7))
    return p.astype(np.float32)


# ------------------------------------------------------------------------------------------------
def _tier_of_eps(e):
    return 1 if not isinstance(e, list) else (3 if not isinstance(e[0], list) else 9)


def _eps_as(e, ncomp):
    """material permittivity in the scene's array representation (1, 3 or 9 components)."""
    import numpy as np

    a = np.asarray(e, dtype=float)
    if a.ndim == 0:
        full = np.diag([float(a)] * 3)
    elif a.shape == (3,):
        full = np.diag(a)
    else:
        full = a.reshape(3, 3)
    if ncomp == 1:
        return np.array([full[0, 0]])
    if ncomp == 3:
        return np.diag(full).copy()
    return full.reshape(9)


def _inv_comp(perm, ncomp):
    """perm: (ncomp, ...) -> inverse in the same representation."""
    import numpy as np

    if ncomp in (1, 3):
        return 1.0 / perm
    m = np.moveaxis(perm, 0, -1)
    sp = m.shape[:-1]
    inv = np.linalg.inv(m.reshape(*sp, 3, 3)).reshape(*sp, 9)
    return np.moveaxis(inv, -1, 0)


def _order_materials(mats):
    """names sorted by (eps_xx, mu_xx, sigma_e_xx, sigma_m_xx) — the documented ordering."""
    import numpy as np

    def first(v, default):
        if v is None:
            return default
        a = np.asarray(v, dtype=float)
        return float(a.reshape(-1)[0])

    return sorted(mats, key=lambda k: (first(mats[k].get("eps"), 1.0), first(mats[k].get("mu"), 1.0), first(mats[k].get("sig_e"), 0.0), first(mats[k].get("sig_m"), 0.0)))


def run_case(case):
    import numpy as np

    from vf.result import Res

    r = Res()
    rng = np.random.default_rng(case["gen_seed"])
    geom = gen_geometry(rng)
    for j in range(case["n"]):
        fk = (case["first_kind"] + 5 * j) % len(KINDS)
        scene = gen_scene(rng, fk, geom)
        _judge(scene, rng, r, {"gen_seed": case["gen_seed"], "scene_index": j})
    return r.to_dict()


def _judge(scene, rng, r, where):
    import warnings

    import jax
    import jax.numpy as jnp
    import numpy as np

    from vf import bootstrap, scenes

    fdtdx = bootstrap.ensure()
    shape = scene["shape"]
    s = scenes.default_scene(shape=shape, steps=2)
    s["volume"] = scene["volume"]
    s["materials"] = [dict(b, name=f"bg{i}") for i, b in enumerate(scene["background"])]
    # swatches: one cell per device material in the x = shape[0]-1 plane (placed last => painted last)
    swatch = {}
    n = 0
    for di, d in enumerate(scene["devices"]):
        for name, m in d["materials"].items():
            y, z = n % shape[1], n // shape[1]
            if z >= shape[2]:
                break
            cell = [shape[0] - 1, y, z]
            s["materials"].append({"lo": cell, "hi": [c + 1 for c in cell], "mat": m, "order": 50, "name": f"sw{di}_{name}"})
            swatch[(di, name)] = tuple(cell)
            n += 1
    s["devices"] = [
        {"lo": d["lo"], "hi": d["hi"], "materials": d["materials"], "voxel": d["voxel"], "transforms": d["transforms"], "etch": d["etch"], "name": f"dev{i}"}
        for i, d in enumerate(scene["devices"])
    ]
    with warnings.catch_warnings():
        warnings.simplefilter("ignore")
        built = scenes.build(s, apply=False)
    objects0, arrays0, params0 = built["objects"], built["arrays"], built["params"]
    devs = {d.name: d for d in objects0.devices}
    for i, d in enumerate(scene["devices"]):
        got = [[int(x) for x in ax] for ax in devs[f"dev{i}"].grid_slice_tuple]
        if got != [[d["lo"][a], d["hi"][a]] for a in range(3)]:
            r.inconclusive(f"harness: device dev{i} placed at {got}")
            return
    ncomp = int(arrays0.inv_permittivities.shape[0])
    pre = {k: (None if getattr(arrays0, k) is None else np.asarray(getattr(arrays0, k))) for k in _ARRS}
    inside = np.zeros(shape, bool)
    for d in scene["devices"]:
        inside[tuple(slice(d["lo"][a], d["hi"][a]) for a in range(3))] = True
    # does a device overlap a static dispersive object that has more poles than any of the device's own materials?
    def _npoles(m):
        return len((m.get("dispersion") or {}).get("poles", []))

    stale_poles = []
    for d in scene["devices"]:
        own = max(_npoles(m) for m in d["materials"].values())
        under = 0
        for b in scene["background"]:
            if all(b["lo"][a] < d["hi"][a] and d["lo"][a] < b["hi"][a] for a in range(3)):
                under = max(under, _npoles(b["mat"]))
        stale_poles.append(under > own)
        if under > own:
            r.branch("device_over_static_dispersive_object_with_more_poles:" + d["kind"])
    key = jax.random.PRNGKey(int(rng.integers(1 << 30)))
    needs_beta = any(d["kind"] == "cont_iso_tanh" for d in scene["devices"])
    hist_len = int(rng.integers(2, 6))
    arrays, objects = arrays0, objects0
    kinds_sig = "+".join(d["kind"] for d in scene["devices"])
    vox_sig = "vox>1" if any(max(d["voxel"]) > 1 for d in scene["devices"]) else "vox1"
    wit_base = {**where, "scene": scene}
    last = None
    for h in range(hist_len):
        p = {}
        raw = {}
        for name, v in params0.items():
            if isinstance(v, dict):
                p[name] = {kk: jnp.asarray(gen_params(rng, vv.shape, None)) for kk, vv in v.items()}
                raw[name] = {kk: np.asarray(vv).tolist() for kk, vv in p[name].items()}
            else:
                p[name] = jnp.asarray(gen_params(rng, v.shape, None))
                raw[name] = np.asarray(p[name]).tolist()
        kw = {"beta": float(rng.choice([0.0, 1.0, 8.0, 64.0]))} if needs_beta else {}
        arrays, objects, _ = fdtdx.apply_params(arrays, objects, p, key, **kw)
        last = (p, kw)
        post = {k: (None if getattr(arrays, k) is None else np.asarray(getattr(arrays, k))) for k in _ARRS}
        wit = {**wit_base, "history_step": h, "params": raw, "kwargs": kw}
        sig_base = (kinds_sig, ncomp, vox_sig, "h%d" % min(h, 2))
        # ---- outside: bit-identical ------------------------------------------------------------
        for k in _ARRS:
            a, b = pre[k], post[k]
            if a is None and b is None:
                continue
            r.count("comparisons")
            if (a is None) != (b is None) or a.shape != b.shape:
                r.violate(f"{k}: array appeared/disappeared/changed shape after apply_params", wit, sig=sig_base)
                continue
            if k in ("inv_permittivities", "dispersive_c1", "dispersive_c2", "dispersive_c3", "dispersive_c4"):
                if a.ndim == 0:
                    continue
                out = ~inside
                lead = a.ndim - 3
                sel = (slice(None),) * lead + (out,)
                same = np.array_equal(a[sel], b[sel])
                r.count("outside_cells_checked", int(out.sum()))
            else:
                same = np.array_equal(a, b)
                r.count("outside_cells_checked", int(a.size))
            if same:
                r.ok(sig_base + ("outside",))
            else:
                r.violate(f"{k}: a cell outside every device changed in apply_params", wit, sig=sig_base)
        # ---- inside: per-cell oracle ------------------------------------------------------------
        for i, d in enumerate(scene["devices"]):
            dev = devs[f"dev{i}"]
            vout = np.asarray(dev(p[f"dev{i}"], expand_to_sim_grid=False, **kw), dtype=float)
            for a in range(3):
                vout = np.repeat(vout, d["voxel"][a], axis=a)
            sl = tuple(slice(d["lo"][a], d["hi"][a]) for a in range(3))
            if vout.shape != tuple(d["hi"][a] - d["lo"][a] for a in range(3)):
                r.violate(
                    f"device dev{i}: transform output expanded by voxel repetition has shape {vout.shape}, device box is {[d['hi'][a]-d['lo'][a] for a in range(3)]}",
                    wit,
                    sig=sig_base,
                )
                continue
            names = _order_materials(d["materials"])
            eps_tab = np.stack([_eps_as(d["materials"][nm]["eps"], ncomp) for nm in names])  # (nmat, ncomp)
            got = post["inv_permittivities"][(slice(None),) + sl]
            sig = sig_base + (d["kind"], "edge" if (min(d["lo"]) == 0) else "interior")
            r.count("device_cells_checked", int(vout.size))
            r.branch("device:" + d["kind"])
            r.branch("voxel:" + "x".join(str(v) for v in d["voxel"]))
            if d["kind"].startswith("disc"):
                idx = np.rint(vout).astype(int)
                if np.any(np.abs(vout - idx) > 1e-6) or idx.min() < 0 or idx.max() >= len(names):
                    r.inconclusive(f"harness: discrete chain output is not an index array (min {vout.min()}, max {vout.max()})")
                    continue
                perm = np.moveaxis(eps_tab[idx], -1, 0)
                want = _inv_comp(perm, ncomp)
                r.branch("indices_used:%d_of_%d" % (len(np.unique(idx)), len(names)))
                r.check_close(
                    "inv_eps_discrete",
                    got,
                    want,
                    1e-12,
                    what=f"discrete device dev{i}: cell does not hold exactly the inverse permittivity of the indexed material (sorted order {names})",
                    witness={**wit, "device": i, "ordered_names": names},
                    sig=sig,
                )
                for ck in ("dispersive_c1", "dispersive_c2", "dispersive_c3", "dispersive_c4"):
                    if post[ck] is None:
                        continue
                    if any((i, nm) not in swatch for nm in names):
                        continue
                    tab = np.stack([post[ck][(slice(None), slice(None)) + swatch[(i, nm)]] for nm in names])  # (nmat, poles, comp)
                    wantc = np.moveaxis(tab[idx], (-2, -1), (0, 1))
                    gotc = post[ck][(slice(None), slice(None)) + sl]
                    r.count("dispersive_comparisons")
                    if stale_poles[i]:
                        r.count("dispersive_comparisons_over_static_object_with_more_poles")
                    r.check_close(
                        ck,
                        gotc,
                        wantc,
                        1e-12,
                        what=f"discrete device dev{i}: {ck} of a cell is not that of the indexed material",
                        witness={**wit, "device": i, "ordered_names": names},
                        sig=sig + (ck,),
                    )
            else:
                if vout.min() < -1e-6 or vout.max() > 1 + 1e-6:
                    r.inconclusive(f"harness: continuous chain output leaves [0,1]: [{vout.min()}, {vout.max()}]")
                    continue
                if d["etch"]:
                    bgp = _inv_comp(pre["inv_permittivities"][(slice(None),) + sl], ncomp)
                    target = eps_tab[0].reshape(ncomp, 1, 1, 1)
                    perm = bgp + vout[None] * (target - bgp)
                else:
                    e0 = eps_tab[0].reshape(ncomp, 1, 1, 1)
                    e1 = eps_tab[1].reshape(ncomp, 1, 1, 1)
                    perm = e0 + vout[None] * (e1 - e0)
                want = _inv_comp(perm, ncomp)
                r.check_close(
                    "inv_eps_continuous",
                    got,
                    want,
                    1e-9,
                    what=f"{'etched' if d['etch'] else 'continuous'} device dev{i}: cell is not the inverse of the linear permittivity blend",
                    witness={**wit, "device": i, "ordered_names": names},
                    sig=sig,
                )
                if not d["etch"] and ncomp in (1, 3):
                    lo_b = np.minimum(1 / eps_tab[0], 1 / eps_tab[1]).reshape(ncomp, 1, 1, 1)
                    hi_b = np.maximum(1 / eps_tab[0], 1 / eps_tab[1]).reshape(ncomp, 1, 1, 1)
                    r.count("comparisons")
                    if np.all(got >= lo_b * (1 - 1e-9)) and np.all(got <= hi_b * (1 + 1e-9)):
                        r.ok(sig + ("range",))
                    else:
                        r.violate(f"continuous device dev{i}: inverse permittivity leaves the range of its two materials", {**wit, "device": i}, sig=sig)
    # ---- history independence ----------------------------------------------------------------------
    p, kw = last
    fresh, _, _ = fdtdx.apply_params(arrays0, objects0, p, key, **kw)
    for k in _ARRS:
        a, b = getattr(arrays, k), getattr(fresh, k)
        if a is None and b is None:
            continue
        r.count("history_comparisons")
        if (a is None) != (b is None):
            r.violate(f"history: {k} present in one of sequential/fresh application only", wit_base)
            continue
        r.check_close(
            "history_" + k,
            np.asarray(a),
            np.asarray(b),
            1e-12,
            what=f"{k} after applying {hist_len} parameter sets in sequence differs from applying only the last one",
            witness={**wit_base, "history_length": hist_len},
            sig=(kinds_sig, ncomp, "history", hist_len),
        )
    if r.sample is None:
        r.sample = {"shape": shape, "devices": [(d["kind"], d["lo"], d["hi"], d["voxel"]) for d in scene["devices"]], "history_length": hist_len, "components": ncomp}


_ARRS = (
    "inv_permittivities",
    "inv_permeabilities",
    "electric_conductivity",
    "magnetic_conductivity",
    "dispersive_c1",
    "dispersive_c2",
    "dispersive_c3",
    "dispersive_c4",
)

"""C38 — equivalent grid descriptions give identical simulations.

One seeded random scene (even cell counts, so that the quasi-uniform policy accepts it) is built and run
through the public API under up to four descriptions of the *same* mesh with spacing s:

  uniform       SimulationConfig(grid=UniformGrid(s))                       (reference)
  rect_uniform  RectilinearGrid.uniform(shape, s)                           same edge formula
  quasi         QuasiUniformGrid(dx=s, dy=s, dz=s)                          same edge formula
  rect          RectilinearGrid(x_edges, y_edges, z_edges) with edges written independently as
                numpy.linspace(-n s/2, n s/2, n+1)  (equal spacings up to 1 ulp of the edge coordinate)

Oracle: the placed grid has the same shape and cell widths, the time step and number of steps agree, and E,
H, PML auxiliaries, material arrays, every detector array and the post-processed phasor fluxes are equal.
`rect_uniform` and `quasi` are produced by the very same arithmetic, so they are required to agree to 1e-12
(bit-identity is counted and reported); the hand-written edges to 1e-9.
"""

from __future__ import annotations

PROPERTY = "C38"
RULE = (
    "seeded random scenes (even sizes 8..14 per axis, 10..25 steps, float64, round and non-round spacings) with all "
    "boundary kinds per face, tensor/lossy/magnetic boxes, dipole/plane/TFSF sources, all 7 detector kinds incl. "
    "physical-coordinate energy slices; each is run under uniform / rect_uniform / quasi / explicit-edge descriptions; an "
    "evaluation is one array compared with the uniform-policy run, non-trivial when non-zero; distinct = (variant, array "
    "class incl. detector kind/mode, boundary kinds present, material classes)"
)
REQUIRED_COUNTERS = ["comparisons", "variant_runs", "grid_checks"]
ASSUMPTIONS = [
    "float64; rect_uniform and quasi compared at rtol 1e-12 (same arithmetic), explicit edges at 1e-9",
    "QuasiUniformGrid documents that it needs even cell counts, so all scenes use even sizes",
    "arrays that are tiny compared with the fields they are differenced from (PML auxiliaries, FieldDetector records) get "
    "an absolute floor of 1e-12 * max|E,H|",
    "PoyntingFlux detectors with keep_all_components=True only as single-cell detectors (larger ones raise in place_objects "
    "under every grid description; reported separately)",
]
CASE_TIMEOUT = {"quick": 900, "thorough": 2400}

VARIANTS = ("rect_uniform", "quasi", "rect")
TOL = {"rect_uniform": 1e-12, "quasi": 1e-12, "rect": 1e-9}


def cases(tier, rng):
    # a scene costs one first build (2-15 CPU s, XLA compilation of eager ops) and one compile of the time loop
    # per variant; variants share every shape so that later builds are cheap
    n_cases, per = (8, 1) if tier == "quick" else (56, 2)
    out = []
    for i in range(n_cases):
        # quick: two of the three alternative descriptions per scene (rotating), thorough: all three
        if tier == "quick":
            vs = [VARIANTS[i % 3], VARIANTS[(i + 1) % 3]]
        else:
            vs = list(VARIANTS)
        out.append({"kind": "scene", "n": per, "scene_seed": int(rng.integers(1 << 30)), "force": i % 8, "variants": vs})
    return out


def _gen(case, j):
    import numpy as np

    from vf.oracles import randscene

    rng = np.random.default_rng([case["scene_seed"], j])
    f = (case.get("force", 0) + j) % 8
    must = {
        0: ("energy", "poynting"),
        1: ("phasor_poynting", "closed_poynting"),
        2: ("energy", "closed_phasor_poynting"),
        3: ("poynting", "field"),
        4: ("energy", "phasor"),
        5: ("closed_poynting", "phasor_poynting"),
        6: ("energy", "field"),
        7: ("closed_phasor_poynting", "poynting"),
    }[f]
    first = ("uniform", "dipole", "gaussian", "dipole", "tfsf", "uniform", "dipole", "gaussian")[f]
    scene, tags = randscene.random_scene(rng, even=True, must_have=must, first_source=first)
    return scene, tags


def _variant(scene, kind):
    import copy

    import numpy as np

    s = copy.deepcopy(scene)
    sp = scene["grid"]["spacing"]
    if kind == "uniform":
        s["grid"] = {"kind": "uniform", "spacing": sp}
    elif kind == "rect_uniform":
        s["grid"] = {"kind": "rect_uniform", "spacing": sp}
    elif kind == "quasi":
        s["grid"] = {"kind": "quasi", "d": [sp, sp, sp]}
    elif kind == "rect":
        s["grid"] = {
            "kind": "rect",
            "edges": [[float(x) for x in np.linspace(-n * sp / 2.0, n * sp / 2.0, n + 1)] for n in scene["shape"]],
        }
    else:
        raise ValueError(kind)
    return s


def run_case(case):
    from vf.result import Res

    r = Res()
    for j in range(case["n"]):
        scene, tags = _gen(case, j)
        _scene(r, scene, tags, case, j)
    return r.to_dict()


def _tie_placement(r, scene, wit, ssig):
    """Objects of odd size centred in the (even) volume through place_at_center: the snap is an exact tie, which the
    three policy descriptions (same edge arithmetic, bit-identical edges) must resolve identically.  Placement only
    (no time loop); the hand-written-edge variant is excluded because its edges differ by an ulp."""
    import copy

    import numpy as np

    from vf import scenes

    base = copy.deepcopy(scene)
    base["sources"], base["detectors"] = [], []
    base["materials"] = list(base.get("materials", [])) + [
        {"center": True, "size": [3, 1, 3], "mat": {"eps": 5.0}, "order": 20, "name": "tie_a"},
        {"center": True, "size": [1, 3, 1], "mat": {"eps": 7.0}, "order": 21, "name": "tie_b"},
    ]
    got = {}
    for v in ("uniform", "rect_uniform", "quasi"):
        b = scenes.build(_variant(base, v))
        got[v] = ({o.name: tuple(map(tuple, o.grid_slice_tuple)) for o in b["objects"].objects}, np.asarray(b["arrays"].inv_permittivities))
        r.count("tie_placements")
    for v in ("rect_uniform", "quasi"):
        sig = f"{v}|tie-placement|{ssig}"
        if got[v][0] != got["uniform"][0]:
            diff = {k: [got["uniform"][0].get(k), got[v][0].get(k)] for k in got["uniform"][0] if got[v][0].get(k) != got["uniform"][0].get(k)}
            r.violate(f"{v}: objects centred with place_at_center resolve to other grid slices than under UniformGrid", {**wit, "variant": v, "slices_uniform_vs_variant": diff}, sig=sig)
        else:
            r.ok(sig)
        r.check_close("tie_inv_permittivities", got[v][1], got["uniform"][1], 1e-12, witness={**wit, "variant": v}, sig=sig)


def _scene(r, scene, tags, case, j):
    import numpy as np

    from vf.oracles import diffrun

    wit = {"scene_seed": case["scene_seed"], "j": j, "force": case.get("force", 0), "scene": scene}
    kinds = sorted({f["type"] for f in scene["faces"].values()})
    ssig = "/".join(kinds) + "|" + tags["mats"]
    for f in scene["faces"].values():
        r.branch("face:" + f["type"])
    for t in tags["mats"].split("+"):
        r.branch("mat:" + t)
    for t in tags["srcs"].split(","):
        r.branch("src:" + t.split("-")[0])
    for t in tags["dets"]:
        r.branch("det:" + ":".join(t.split(":")[:1]))
        if "slices_pos" in t:
            r.branch("det:energy-physical-slice-position")
    sp = scene["grid"]["spacing"]
    r.branch("spacing:round" if sp in (20e-9, 37.5e-9, 50e-9, 1e-7) else "spacing:non-round")

    _tie_placement(r, scene, wit, ssig)
    b0, st0 = diffrun.run_scene(_variant(scene, "uniform"))
    ref = diffrun.collect(b0, st0, materials=True)
    g0 = b0["config"].grid
    fmax = max(float(np.abs(ref["E"]).max()), float(np.abs(ref["H"]).max()))
    if not fmax > 0:
        r.count("trivial_scenes")
    kind_by_name = {d["name"]: d["kind"] for d in scene["detectors"]}
    for v in case["variants"]:
        w = dict(wit)
        w["variant"] = v
        b1, st1 = diffrun.run_scene(_variant(scene, v))
        got = diffrun.collect(b1, st1, materials=True)
        r.count("variant_runs")
        r.branch("variant:" + v)
        tol = TOL[v]
        # --- the placed grid and the time discretisation -------------------------------------------
        g1 = b1["config"].grid
        r.count("grid_checks")
        if tuple(g1.shape) != tuple(g0.shape):
            r.violate(f"{v}: placed grid shape {tuple(g1.shape)} != {tuple(g0.shape)}", w, mechanism="grid-shape")
            continue
        for a in range(3):
            r.check_close(
                "cell_widths", np.asarray(g1.cell_widths(a)), np.asarray(g0.cell_widths(a)), tol, witness={**w, "axis": a},
                mechanism="grid-cell-widths", sig=f"{v}|widths",
            )
        dt0, dt1 = float(b0["config"].time_step_duration), float(b1["config"].time_step_duration)
        r.check_close("dt", dt1, dt0, tol, witness={**w, "dt_uniform": dt0, "dt_variant": dt1}, mechanism="time-step", sig=f"{v}|dt")
        if int(st1[0]) != int(st0[0]) or b1["config"].time_steps_total != b0["config"].time_steps_total:
            r.violate(
                f"{v}: number of executed steps {int(st1[0])} != {int(st0[0])}",
                {**w, "steps_variant": int(st1[0]), "steps_uniform": int(st0[0])},
                mechanism="step-count",
            )
            continue
        # --- everything observable ----------------------------------------------------------------
        identical = True
        for name, want in ref.items():
            cls = diffrun.detector_tag(name, tags["det_by_name"])
            sig = f"{v}|{cls}|{ssig}"
            ww = dict(w)
            ww["array"] = name
            if name not in got:
                r.violate(f"{v}: array {name} missing", ww, mechanism="missing-array:" + name.split("/")[0])
                continue
            g = got[name]
            if g.dtype != want.dtype:
                r.violate(f"{v}: {name} dtype {g.dtype} != {want.dtype}", ww, mechanism="dtype:" + name.split("/")[0])
                continue
            if name.startswith(("det/", "flux/", "netflux/")):
                dk = kind_by_name.get(name.split("/")[1], "?")
                label, mech = "det_" + dk, "grid-detector:" + dk
                atol = 1e-12 * fmax if dk == "field" else 0.0
            else:
                label, mech = name.split("/")[0], "grid-field:" + name.split("/")[0]
                atol = 1e-12 * fmax if name.startswith("psi") else 0.0
            ok = r.check_close(label, g, want, tol, witness=ww, sig=sig, mechanism=mech, atol=atol)
            if ok and g.shape == want.shape and not np.array_equal(g, want):
                identical = False
        for name in got:
            if name not in ref:
                r.violate(f"{v}: extra array {name}", {**w, "array": name}, mechanism="extra-array:" + name.split("/")[0])
        r.count("bit_identical_runs:" + v, 1 if identical else 0)
        r.count("runs:" + v)
    if r.sample is None:
        r.sample = {
            "shape": scene["shape"],
            "spacing": sp,
            "steps": scene["steps"],
            "faces": tags["faces"],
            "materials": tags["mats"],
            "sources": tags["srcs"],
            "detectors": tags["dets"],
            "variants": case["variants"],
            "max|E|": float(np.abs(ref["E"]).max()),
        }

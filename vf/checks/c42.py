"""C42 — results do not depend on the number of (emulated) devices.

fdtdx shards E, H and the material arrays along x (axis 1 of the (3, nx, ny, nz) arrays) over *all*
`jax.devices(backend)` through `create_named_sharded_matrix`, and keeps that sharding through
`sharding_preserving_set/add` while objects are written into the arrays.  The number of devices is a property
of the process, so every device count runs in its own fresh interpreter:

    XLA_FLAGS=--xla_force_host_platform_device_count=N  python -m vf.checks.c42 --child job.json   (N = 1, 2, 4)

Each child builds the same seeded scene descriptions (x extent divisible by 4) through the public API, runs
`run_fdtd`, and stores every observable (fields, PML auxiliaries, detector arrays, post-processed phasor
fluxes, material arrays) in an .npz inside a `tempfile.mkdtemp()` directory outside /verif, together with what
it saw about sharding: `jax.device_count()`, and for E / H / inverse permittivity after `place_objects` and E / H
after the run the number of devices in `array.sharding.device_set`, the partition spec and the per-device shard
shapes.  The parent compares N = 2 and N = 4 against N = 1:

* fields, auxiliaries, material arrays and spatial detector records: <= 1e-12 of the array's max (bit-identity is
  counted and reported);
* records that are sums over cells (reduced detectors, closed-surface fluxes, slice means, phasor flux integrals):
  <= 1e-9, because the reduction order may legitimately follow the partitioning;
* a run counts as evidence only if the child really had N devices and E, H and the permittivity array were
  split into N shards of nx/N cells each; otherwise the case is inconclusive.

The temporary directory is removed afterwards.  A child that crashes inside /repo/src is a violation
(`multi-device-crash`), any other child failure is inconclusive.
"""

from __future__ import annotations

PROPERTY = "C42"
RULE = (
    "seeded random scenes (x in {8,12}, y,z in 8..14, 10..25 steps, float64) with all boundary kinds, tensor/lossy/"
    "magnetic boxes (also crossing shard borders), dipole / plane / TFSF sources and all 7 detector kinds, each run in "
    "fresh subprocesses with 1, 2 and 4 emulated host devices; an evaluation is one array of the 2- or 4-device run "
    "compared with the single-device run, non-trivial when non-zero; distinct = (device count, array class incl. "
    "detector kind/mode, boundary kinds present, material classes)"
)
REQUIRED_COUNTERS = ["comparisons", "sharded_runs_confirmed", "device_count_checks"]
ASSUMPTIONS = [
    "devices are emulated host devices (XLA_FLAGS=--xla_force_host_platform_device_count=N), one fresh interpreter per count",
    "float64; spatial arrays at rtol 1e-12 (+1e-12*max|E,H| floor for PML auxiliaries and FieldDetector records), reduced records at 1e-9",
    "evidence requires E, H and inv_permittivities to be split into N x-shards of nx/N cells after place_objects (counted)",
    "PoyntingFlux detectors with keep_all_components=True only as single-cell detectors (larger ones raise in place_objects "
    "for every device count; reported separately)",
]
CASE_TIMEOUT = {"quick": 1500, "thorough": 3000}
DEVICE_COUNTS = (1, 2, 4)
CHILD_TIMEOUT = 900


def cases(tier, rng):
    n_cases, per = (4, 1) if tier == "quick" else (28, 3)
    return [{"kind": "scenes", "n": per, "scene_seed": int(rng.integers(1 << 30)), "force": i % 8} for i in range(n_cases)]


def _gen(case, j):
    import numpy as np

    from vf.oracles import randscene

    rng = np.random.default_rng([case["scene_seed"], j])
    f = (case.get("force", 0) + j) % 8
    must = {
        0: ("energy", "field", "closed_poynting"),
        1: ("phasor", "poynting", "phasor_poynting"),
        2: ("closed_phasor_poynting", "energy", "field"),
        3: ("poynting", "phasor", "energy"),
        4: ("field", "closed_poynting", "phasor_poynting"),
        5: ("energy", "phasor", "closed_phasor_poynting"),
        6: ("poynting", "field", "energy"),
        7: ("phasor_poynting", "closed_poynting", "phasor"),
    }[f]
    first = ("uniform", "dipole", "gaussian", "tfsf", "dipole", "uniform", "gaussian", "dipole")[f]
    scene, tags = randscene.random_scene(rng, x_multiple=4, must_have=must, first_source=first, n_det=(5, 8))
    # make sure something straddles the shard borders (x = nx/4, nx/2, 3nx/4): a box through the middle planes
    nx, ny, nz = scene["shape"]
    m, cls = randscene.random_material(rng, cls=("iso", "lossy")[int(rng.integers(2))])
    scene["materials"].append(
        {"lo": [nx // 4 - 1, 1, 1], "hi": [3 * nx // 4 + 1, min(ny - 1, 4), min(nz - 1, 4)], "mat": m, "order": 5, "name": "straddle"}
    )
    tags["mats"] = "+".join(sorted(tags["mats"].split("+") + [cls]))
    # every second scene: a conductive sphere (multi-material object, written with indexed adds) straddling the
    # middle shard border inside a conductive background, so that 'set' and 'add' updates hit the same index
    if f % 2 == 0 and scene["grid"]["kind"] == "uniform" and min(ny, nz) >= 8:
        scene["volume"] = dict(scene.get("volume") or {"eps": 1.0})
        scene["volume"]["sig_e"] = float(rng.uniform(1e3, 2e4))
        scene["shapes"] = [
            {"kind": "sphere", "radius_cells": 3, "lo": [nx // 2 - 3, 1, 1], "order": 9, "name": "lossy_sphere",
             "materials": {"shell": {"eps": 1.0}, "core": {"eps": float(rng.uniform(2, 6)), "sig_e": float(rng.uniform(2e4, 9e4))}}, "material_name": "core"}
        ]
        tags["mats"] = "+".join(sorted(tags["mats"].split("+") + ["lossy-sphere-in-lossy-background"]))
    # a volume detector over the whole x range, spatial (every shard contributes) and reduced
    scene["detectors"].append({"kind": "field", "lo": [0, 2, 2], "hi": [nx, 4, 4], "name": "span_field"})
    scene["detectors"].append({"kind": "energy", "lo": [0, 0, 0], "hi": [nx, ny, nz], "reduce": True, "name": "span_energy"})
    tags["det_by_name"]["span_field"] = "field:span:full"
    tags["det_by_name"]["span_energy"] = "energy:span:reduce"
    tags["dets"] = sorted(tags["dets"] + ["field:span:full", "energy:span:reduce"])
    return scene, tags


# ------------------------------------------------------------------------------------------------
# parent side
# ------------------------------------------------------------------------------------------------
def run_case(case):
    import json
    import os
    import shutil
    import subprocess
    import sys
    import tempfile

    import numpy as np

    from vf import bootstrap
    from vf.oracles import diffrun
    from vf.result import Res

    r = Res()
    scenes_tags = [_gen(case, j) for j in range(case["n"])]
    tmp = tempfile.mkdtemp(prefix="vf_c42_")
    if os.path.realpath(tmp).startswith(os.path.realpath(bootstrap.VERIF_ROOT) + os.sep):
        shutil.rmtree(tmp, ignore_errors=True)
        r.inconclusive("temporary directory landed inside /verif")
        return r.to_dict()
    try:
        with open(os.path.join(tmp, "job.json"), "w") as f:
            json.dump({"scenes": [s for s, _ in scenes_tags]}, f)
        runs = {}
        for n in DEVICE_COUNTS:
            env = dict(os.environ)
            flags = [x for x in env.get("XLA_FLAGS", "").split() if "xla_force_host_platform_device_count" not in x]
            # first: XLA stops parsing XLA_FLAGS at the first token that is not a --flag
            flags.insert(0, f"--xla_force_host_platform_device_count={n}")
            env["XLA_FLAGS"] = " ".join(flags)
            env["PYTHONPATH"] = bootstrap.VERIF_ROOT
            env["JAX_PLATFORMS"] = "cpu"
            try:
                p = subprocess.run(
                    [sys.executable, "-m", "vf.checks.c42", "--child", tmp, str(n)],
                    env=env, cwd=bootstrap.VERIF_ROOT, stdout=subprocess.PIPE, stderr=subprocess.PIPE, timeout=CHILD_TIMEOUT,
                )
            except subprocess.TimeoutExpired:
                r.inconclusive(f"child with {n} devices timed out after {CHILD_TIMEOUT}s")
                return r.to_dict()
            meta_path = os.path.join(tmp, f"meta_{n}.json")
            if not os.path.exists(meta_path):
                tail = p.stderr.decode("utf8", "replace").splitlines()[-15:]
                r.inconclusive(f"child with {n} devices produced no result (rc={p.returncode}): " + " | ".join(tail)[-600:])
                return r.to_dict()
            with open(meta_path) as f:
                runs[n] = json.load(f)
        r.count("child_processes", len(DEVICE_COUNTS))

        for j, (scene, tags) in enumerate(scenes_tags):
            wit = {"scene_seed": case["scene_seed"], "j": j, "force": case.get("force", 0), "scene": scene}
            metas = {n: runs[n]["scenes"][j] for n in DEVICE_COUNTS}
            # --- a child that could not build / run the scene ----------------------------------------
            failed = {n: m for n, m in metas.items() if m.get("error")}
            if failed:
                if len(failed) == len(DEVICE_COUNTS) and len({m["error_type"] for m in failed.values()}) == 1:
                    # rejected identically for every device count: not a statement about C42
                    r.inconclusive(f"scene {j} failed for every device count: {metas[1]['error'][:300]}")
                    continue
                for n, m in failed.items():
                    w = dict(wit)
                    w.update({"devices": n, "error": m["error"][:600], "traceback_tail": m.get("traceback_tail")})
                    if m.get("in_repo"):
                        r.violate(f"scene runs with {[k for k in metas if k not in failed]} devices but fails with {n}: {m['error'][:200]}", w, mechanism="multi-device-crash")
                    else:
                        r.inconclusive(f"child with {n} devices failed outside fdtdx: {m['error'][:300]}")
                continue
            # --- evidence that the runs really were sharded ---------------------------------------------
            ok_evidence = True
            nx = scene["shape"][0]
            for n in DEVICE_COUNTS:
                m = metas[n]
                r.count("device_count_checks")
                if m["device_count"] != n:
                    r.inconclusive(f"child asked for {n} devices saw {m['device_count']}")
                    ok_evidence = False
                    continue
                for nm in ("E", "H", "inv_permittivities"):
                    sh = m["sharding_placed"][nm]
                    good = sh["n_devices"] == n and sh["n_shards"] == n and all(s[1] == nx // n for s in sh["shard_shapes"]) and len(set(sh["shard_x_ranges"])) == n
                    if not good:
                        r.inconclusive(f"{nm} after place_objects is not split into {n} x-shards in the {n}-device child: {sh}")
                        ok_evidence = False
                if n > 1 and ok_evidence:
                    r.count("sharded_runs_confirmed")
                    r.branch(f"placed-arrays-sharded-over:{n}")
                    fin = m["sharding_final"]
                    r.branch(f"final-E-devices:{n}->{fin['E']['n_devices']}")
                    if fin["E"]["n_devices"] == n and fin["E"]["n_shards"] == n:
                        r.count("final_fields_still_sharded")
            if not ok_evidence:
                continue
            # --- compare -----------------------------------------------------------------------------------
            kinds = sorted({f["type"] for f in scene["faces"].values()})
            ssig = "/".join(kinds) + "|" + tags["mats"]
            for f in scene["faces"].values():
                r.branch("face:" + f["type"])
            for t in tags["mats"].split("+"):
                r.branch("mat:" + t)
            for t in tags["srcs"].split(","):
                r.branch("src:" + t.split("-")[0])
            for t in tags["dets"]:
                r.branch("det:" + t.split(":")[0])
            kind_by_name = {d["name"]: d["kind"] for d in scene["detectors"]}
            ref = dict(np.load(os.path.join(tmp, f"scene{j}_n1.npz")))
            fmax = max(float(np.abs(ref["E"]).max()), float(np.abs(ref["H"]).max()))
            if not fmax > 0:
                r.count("trivial_scenes")
            for n in DEVICE_COUNTS[1:]:
                got = dict(np.load(os.path.join(tmp, f"scene{j}_n{n}.npz")))
                w = dict(wit)
                w["devices"] = n
                if metas[n]["final_step"] != metas[1]["final_step"]:
                    r.violate(f"{n} devices: final step {metas[n]['final_step']} != {metas[1]['final_step']}", w, mechanism="device-count-step-count")
                identical = True
                # deterministic classifier for the one mechanism seen on the unchanged tree: a TFSF box source adds
                # overlapping slices (an x-range plane, then a single-x face) to the same component of the x-sharded
                # field inside one jitted step; the SPMD-partitioned program then differs from the single-device one.
                # Everything downstream of the fields in such a run carries the same key.
                # (all TFSF-type sources share that injection code: the box region, uniform and Gaussian plane sources)
                has_tfsf = any(sv["kind"] in ("tfsf", "uniform", "gaussian") for sv in scene["sources"])
                fields_differ = any(
                    got.get(k) is not None and got[k].shape == ref[k].shape
                    and float(np.abs(got[k] - ref[k]).max()) > 1e-12 * max(fmax, 1e-300)
                    for k in ("E", "H")
                )
                override = "tfsf-source-multi-device" if (has_tfsf and fields_differ and metas[n].get("xla_probe")) else None
                if metas[n].get("xla_probe") is not None:
                    r.branch(f"xla-overlapping-slice-add-probe:n={n}:" + ("miscompiles" if metas[n]["xla_probe"] else "ok"))
                for name, want in ref.items():
                    cls = diffrun.detector_tag(name, tags["det_by_name"])
                    sig = f"n{n}|{cls}|{ssig}"
                    ww = dict(w)
                    ww["array"] = name
                    if name not in got:
                        r.violate(f"{n} devices: array {name} missing", ww, mechanism="missing-array:" + name.split("/")[0])
                        continue
                    g = got[name]
                    if g.dtype != want.dtype:
                        r.violate(f"{n} devices: {name} dtype {g.dtype} != {want.dtype}", ww, mechanism="dtype:" + name.split("/")[0])
                        continue
                    reduced = diffrun.is_reduced_record(name, scene)
                    tol = 1e-9 if reduced else 1e-12
                    if name.startswith(("det/", "flux/", "netflux/")):
                        dk = kind_by_name.get(name.split("/")[1], "?")
                        label = ("red_" if reduced else "spatial_") + dk
                        mech = ("device-count-reduced-record:" if reduced else "device-count-spatial-record:") + dk
                        atol = 1e-12 * fmax if dk == "field" else 0.0
                    else:
                        label = name.split("/")[0]
                        mech = "device-count-field:" + label
                        atol = 1e-12 * fmax if name.startswith("psi") else 0.0
                    # material arrays are written before any source acts: they never carry the key
                    is_material = not name.startswith(("det/", "flux/", "netflux/", "E", "H", "psi", "dispersive_P"))
                    ok = r.check_close(label, g, want, tol, witness=ww, sig=sig, mechanism=(mech if is_material else (override or mech)), atol=atol)
                    if ok and not reduced and g.shape == want.shape and not np.array_equal(g, want):
                        identical = False
                for name in got:
                    if name not in ref:
                        r.violate(f"{n} devices: extra array {name}", {**w, "array": name}, mechanism="extra-array:" + name.split("/")[0])
                r.count(f"runs_n{n}")
                r.count(f"bit_identical_spatial_n{n}", 1 if identical else 0)
            if r.sample is None:
                r.sample = {
                    "shape": scene["shape"], "steps": scene["steps"], "faces": tags["faces"], "materials": tags["mats"],
                    "sources": tags["srcs"], "detectors": tags["dets"], "max|E|": float(np.abs(ref["E"]).max()),
                    "sharding_of_E_after_place_objects": {str(n): metas[n]["sharding_placed"]["E"] for n in DEVICE_COUNTS},
                    "sharding_of_E_after_run": {str(n): metas[n]["sharding_final"]["E"] for n in DEVICE_COUNTS},
                }
    finally:
        shutil.rmtree(tmp, ignore_errors=True)
    return r.to_dict()


# ------------------------------------------------------------------------------------------------
# child side (fresh interpreter, N devices)
# ------------------------------------------------------------------------------------------------
def _sharding_info(a):
    try:
        sh = a.sharding
        shards = list(a.addressable_shards)
        spec = getattr(sh, "spec", None)
        return {
            "type": type(sh).__name__,
            "n_devices": len(sh.device_set),
            "n_shards": len({(s.device.id) for s in shards}),
            "spec": None if spec is None else [None if x is None else str(x) for x in tuple(spec)],
            "shard_shapes": [list(s.data.shape) for s in shards],
            "shard_x_ranges": sorted({str((s.index[1].start, s.index[1].stop)) for s in shards}) if len(shards) and len(shards[0].index) > 1 else [],
            "global_shape": list(a.shape),
        }
    except Exception as e:  # noqa: BLE001
        return {"error": repr(e), "n_devices": 0, "n_shards": 0, "shard_shapes": [], "shard_x_ranges": []}


def _xla_probe(fdtdx):
    """Evidence only (never a verdict): does this JAX/XLA build give a wrong answer for two overlapping slice-adds
    on one component of an x-sharded array inside one jit?  No fdtdx code beyond the array constructor is involved."""
    try:
        import jax
        import jax.numpy as jnp
        import numpy as np

        from fdtdx.core.jax.sharding import create_named_sharded_matrix

        rng = np.random.default_rng(0)
        v1, v2 = rng.normal(size=(6, 4, 1)), rng.normal(size=(1, 4, 4))

        def f(E, a, b):
            return E.at[1, 1:7, 3:7, 3:4].add(a).at[1, 1:2, 3:7, 3:7].add(b)

        E0 = create_named_sharded_matrix((3, 8, 10, 8), value=0.0, sharding_axis=1, dtype=jnp.float64, backend="cpu")
        got = np.asarray(jax.jit(f)(E0, jnp.asarray(v1), jnp.asarray(v2)))
        want = np.zeros((3, 8, 10, 8))
        want[1, 1:7, 3:7, 3:4] += v1
        want[1, 1:2, 3:7, 3:7] += v2
        return bool(np.abs(got - want).max() > 1e-12)
    except Exception:  # noqa: BLE001
        return None


def _child(tmp, n):
    import json
    import os
    import traceback

    from vf import bootstrap

    bootstrap.ensure(devices=n)
    import jax
    import numpy as np

    from vf import scenes
    from vf.oracles import diffrun

    with open(os.path.join(tmp, "job.json")) as f:
        job = json.load(f)
    out = {"device_count_requested": n, "scenes": []}
    src = os.path.realpath(bootstrap.REPO_SRC) + os.sep
    probe = _xla_probe(bootstrap.ensure()) if n > 1 else None
    for j, scene in enumerate(job["scenes"]):
        m = {"device_count": jax.device_count(), "devices": [str(d) for d in jax.devices()], "xla_probe": probe}
        try:
            built = scenes.build(scene)
            arr = built["arrays"]
            m["sharding_placed"] = {
                "E": _sharding_info(arr.fields.E),
                "H": _sharding_info(arr.fields.H),
                "inv_permittivities": _sharding_info(arr.inv_permittivities),
            }
            st = scenes.run(built, jit=True)
            jax.block_until_ready(st)
            m["final_step"] = int(st[0])
            m["sharding_final"] = {"E": _sharding_info(st[1].fields.E), "H": _sharding_info(st[1].fields.H)}
            data = diffrun.collect(built, st, materials=True)
            np.savez(os.path.join(tmp, f"scene{j}_n{n}.npz"), **data)
        except Exception as e:  # noqa: BLE001 - reported to the parent, which decides violation / inconclusive
            tb = traceback.extract_tb(e.__traceback__)
            m["error"] = f"{type(e).__name__}: {e}"
            m["error_type"] = type(e).__name__
            m["in_repo"] = any(os.path.realpath(fr.filename).startswith(src) for fr in tb)
            m["traceback_tail"] = traceback.format_exc().splitlines()[-10:]
        out["scenes"].append(m)
    with open(os.path.join(tmp, f"meta_{n}.json.tmp"), "w") as f:
        json.dump(out, f)
    os.replace(os.path.join(tmp, f"meta_{n}.json.tmp"), os.path.join(tmp, f"meta_{n}.json"))


if __name__ == "__main__":
    import sys

    if len(sys.argv) == 4 and sys.argv[1] == "--child":
        _child(sys.argv[2], int(sys.argv[3]))
    else:
        sys.exit("usage: python -m vf.checks.c42 --child <dir> <n>")

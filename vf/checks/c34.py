"""C34 — symmetric placement keeps the upper half and clips objects consistently.

Two observation levels, both on the real code:
 (a) `fdtdx.fdtd.symmetry.reduce_resolved_slices` / `make_symmetry_walls` called directly for all 27 symmetry
     tuples on volumes of every parity, with object boxes that realise EVERY interval [lo,hi) of each axis
     (so every box/plane relation: below, touching from below, straddling symmetrically / asymmetrically,
     starting on the plane, above, spanning);
 (b) `fdtdx.place_objects(config.symmetry=...)` on random volumes (2..12 cells, both parities), random tuples,
     1..6 boxes (material boxes and detectors) drawn per axis from the relation classes, on UniformGrid, explicit
     uniform edges and explicit mirror-symmetric stretched edges.
Oracle (from the statement and the docstrings of symmetry.py): an odd (or < 2) count on a symmetric axis is
rejected; reduced volume = N/2 cells on symmetric axes; an object is dropped iff it ends at or below the plane
index m = N/2 on some symmetric axis; a survivor's slice is [max(lo,m)-m, hi-m); its unreduced extent is
[lo-m, hi-m); non-symmetric axes are untouched; exactly one PEC wall (axis a, direction '-', cells [0,1) x full
reduced cross-section) per electric axis and nothing else is added.
"""

from __future__ import annotations

PROPERTY = "C34"
RULE = (
    "direct: one evaluation per object box per (shape, symmetry tuple), all intervals of every axis realised; place: one "
    "evaluation per placed scene item (volume, each object, walls); distinct = (level, symmetry tuple, grid kind, parity "
    "class, set of box/plane relations present); non-trivial = at least one symmetric axis or an odd-count rejection"
)
REQUIRED_COUNTERS = ["direct_boxes", "placed_scenes", "rejections_checked", "walls_checked"]
ASSUMPTIONS = [
    "scenes contain only material boxes and energy/field detectors (objects a mirror plane can always represent)",
    "stretched grids are generated mirror-symmetric about the centre on symmetric axes (the other documented precondition)",
    "object boxes are pinned with grid coordinates (uniform) or exact edge coordinates (stretched), so the full-domain "
    "slices are known independently of the constraint solver",
]
CASE_TIMEOUT = {"quick": 600, "thorough": 1800}

TUPLES = [(a, b, c) for a in (-1, 0, 1) for b in (-1, 0, 1) for c in (-1, 0, 1)]


def EXHAUSTIVE(tier):
    return False


def cases(tier, rng):
    out = []
    shapes_even = [[2, 4, 6], [8, 2, 4], [6, 6, 2], [4, 8, 8]]
    shapes_mixed = [[3, 4, 6], [4, 5, 2], [6, 2, 7], [1, 4, 4], [5, 3, 1], [2, 1, 8]]
    if tier == "quick":
        for i in range(4):
            out.append({"kind": "direct", "shapes": [shapes_even[i]] + shapes_mixed[i::4], "tuples": "all"})
        for _ in range(12):
            out.append({"kind": "place", "n": 9})
    else:
        for i in range(14):
            extra = [[int(rng.integers(1, 11)) for _ in range(3)] for _ in range(6)]
            out.append({"kind": "direct", "shapes": shapes_even + shapes_mixed + extra, "tuples": "all"})
        for _ in range(98):
            out.append({"kind": "place", "n": 30})
    return out


# ------------------------------------------------------------------------------------------------
# oracle
# ------------------------------------------------------------------------------------------------
def expect(shape, sym, boxes):
    """-> None if the scene must be rejected, else dict(reduced, plane, objects{name: None|{slice,unreduced}})."""
    if any(sym[a] != 0 and (shape[a] < 2 or shape[a] % 2) for a in range(3)):
        return None
    m = [shape[a] // 2 if sym[a] != 0 else 0 for a in range(3)]
    reduced = [shape[a] - m[a] for a in range(3)]
    out = {}
    for name, box in boxes.items():
        if any(sym[a] != 0 and box[a][1] <= m[a] for a in range(3)):
            out[name] = None
            continue
        out[name] = {
            "slice": [[max(box[a][0], m[a]) - m[a], box[a][1] - m[a]] for a in range(3)],
            "unreduced": [[box[a][0] - m[a], box[a][1] - m[a]] for a in range(3)],
        }
    return {"reduced": reduced, "plane": m, "objects": out}


def relation(lo, hi, n, sym):
    if sym == 0:
        return "nosym"
    m = n // 2
    if (lo, hi) == (0, n):
        return "span"
    if hi < m:
        return "below"
    if hi == m:
        return "touch-below"
    if lo == m:
        return "on-plane"
    if lo > m:
        return "above"
    return "straddle-sym" if lo + hi == 2 * m else "straddle-asym"


def _tup(x):
    return [[int(a), int(b)] for a, b in x]


# ------------------------------------------------------------------------------------------------
def run_case(case):
    import numpy as np

    from vf import bootstrap
    from vf.result import Res

    fdtdx = bootstrap.ensure()
    r = Res()
    rng = np.random.default_rng(case["seed"])
    if case["kind"] == "direct":
        _direct(fdtdx, case, rng, r)
    else:
        _place(fdtdx, case, rng, r)
    return r.to_dict()


def _direct(fdtdx, case, rng, r):
    import jax

    from fdtdx.fdtd import symmetry as S

    mat = fdtdx.Material()
    for shape in case["shapes"]:
        # every interval of every axis, the other two axes random
        boxes = {}
        k = 0
        for a in range(3):
            n = shape[a]
            for lo in range(n):
                for hi in range(lo + 1, n + 1):
                    box = []
                    for b in range(3):
                        if b == a:
                            box.append([lo, hi])
                        else:
                            l2 = int(rng.integers(0, shape[b]))
                            box.append([l2, int(rng.integers(l2 + 1, shape[b] + 1))])
                    boxes[f"b{k}"] = box
                    k += 1
        omap = {n: fdtdx.UniformMaterialObject(partial_grid_shape=(1, 1, 1), material=mat, name=n) for n in boxes}
        vol = fdtdx.SimulationVolume(partial_grid_shape=tuple(shape), name="vol")
        omap["vol"] = vol
        resolved = {"vol": tuple((0, n) for n in shape)}
        resolved.update({n: tuple((b[a][0], b[a][1]) for a in range(3)) for n, b in boxes.items()})
        for sym in TUPLES:
            config = fdtdx.SimulationConfig(grid=fdtdx.UniformGrid(spacing=1e-7), time=1e-15, symmetry=sym)
            exp = expect(shape, sym, boxes)
            wit = {"shape": shape, "symmetry": list(sym)}
            par = "".join("e" if n % 2 == 0 and n >= 2 else "o" for n in shape)
            sig = f"direct|{sym}|{par}"
            try:
                new, unred, dropped, rshape = S.reduce_resolved_slices(resolved_slices=dict(resolved), object_map=omap, config=config, volume_name="vol")
            except ValueError as e:
                r.count("rejections_checked")
                if exp is None:
                    r.ok(sig)
                    r.branch("direct:odd-rejected")
                else:
                    r.violate("reduce_resolved_slices rejected an even volume", {**wit, "error": str(e)[:200]}, mechanism="even-count-rejected", sig=sig)
                continue
            if exp is None:
                r.count("rejections_checked")
                r.violate("odd (or < 2) cell count on a symmetric axis was accepted", {**wit, "reduced_volume_shape": list(rshape)}, mechanism="odd-count-accepted", sig=sig)
                continue
            if list(rshape) != exp["reduced"] or _tup(new["vol"]) != [[0, x] for x in exp["reduced"]]:
                r.violate("reduced volume is not the upper half", {**wit, "got_shape": list(rshape), "got_slice": _tup(new["vol"]), "want": exp["reduced"]}, mechanism="reduced-volume", sig=sig)
            else:
                r.ok(sig if any(sym) else None)
            want_unred_vol = [[0 - exp["plane"][a], shape[a] - exp["plane"][a]] for a in range(3)]
            if _tup(unred["vol"]) != want_unred_vol:
                r.violate("volume's unreduced extent is not shifted by the plane index", {**wit, "got": _tup(unred["vol"]), "want": want_unred_vol}, mechanism="unreduced-extent", sig=sig)
            for name, box in boxes.items():
                r.count("direct_boxes")
                e = exp["objects"][name]
                w = {**wit, "box": box, "plane_index": exp["plane"]}
                rel = ",".join(relation(box[a][0], box[a][1], shape[a], sym[a]) for a in range(3))
                r.branch("rel:" + max((relation(box[a][0], box[a][1], shape[a], sym[a]) for a in range(3)), key=lambda s: s != "nosym"))
                if e is None:
                    if name in dropped and name not in new and name not in unred:
                        r.ok(None)
                    else:
                        r.violate("object entirely in the discarded half was not dropped", {**w, "relations": rel, "got": _tup(new[name]) if name in new else None}, mechanism="drop-rule", sig=sig)
                    continue
                if name in dropped or name not in new:
                    r.violate("object reaching into the kept half was dropped", {**w, "relations": rel}, mechanism="drop-rule", sig=sig)
                    continue
                if _tup(new[name]) != e["slice"]:
                    r.violate("surviving object is not clipped to the kept half", {**w, "relations": rel, "got": _tup(new[name]), "want": e["slice"]}, mechanism="clip-slice", sig=sig)
                elif _tup(unred[name]) != e["unreduced"]:
                    r.violate("unreduced extent is not the original slice shifted by the plane index", {**w, "relations": rel, "got": _tup(unred[name]), "want": e["unreduced"]}, mechanism="unreduced-extent", sig=sig)
                else:
                    r.ok(None)
            # walls on the reduced shape
            existing = {"vol", "_sym_wall_x"} if sym[0] == -1 and shape[1] % 4 == 0 else {"vol"}
            walls = S.make_symmetry_walls(config=config, reduced_volume_shape=tuple(exp["reduced"]), key=jax.random.PRNGKey(0), existing_names=set(existing))
            _judge_walls(fdtdx, r, walls, sym, exp["reduced"], existing, wit, sig)
        if r.sample is None:
            r.sample = {"shape": shape, "boxes": len(boxes), "tuples": len(TUPLES)}


def _judge_walls(fdtdx, r, walls, sym, reduced, existing_names, wit, sig):
    r.count("walls_checked")
    want_axes = [a for a in range(3) if sym[a] == -1]
    got = []
    bad = None
    names = set()
    for w in walls:
        if not isinstance(w, fdtdx.PerfectElectricConductor):
            bad = f"wall object {w.name} is a {type(w).__name__}, not a PEC"
            break
        a = int(w.axis)
        got.append(a)
        want_slice = [[0, reduced[b]] for b in range(3)]
        want_slice[a] = [0, 1]
        if _tup(w.grid_slice_tuple) != want_slice or w.direction != "-":
            bad = f"wall on axis {a}: slice {_tup(w.grid_slice_tuple)} direction {w.direction}, want {want_slice} '-'"
            break
        if w.name in existing_names or w.name in names:
            bad = f"wall name {w.name} is not unique"
            break
        names.add(w.name)
    if bad is None and sorted(got) != want_axes:
        bad = f"walls on axes {sorted(got)}, electric planes on axes {want_axes}"
    if bad:
        r.violate("PEC walls do not match the electric planes: " + bad, {**wit, "reduced": reduced}, mechanism="symmetry-walls", sig=sig)
    else:
        r.ok(sig if want_axes or any(s == 1 for s in sym) else None)
        r.branch(f"walls:{len(want_axes)}")


# ------------------------------------------------------------------------------------------------
def _pick_interval(rng, n, sym):
    """An interval drawn from the relation classes of an axis with n cells."""
    m = n // 2
    cls = str(rng.choice(["any", "below", "touch-below", "on-plane", "straddle-sym", "straddle-asym", "above", "span", "cell-below", "cell-on"]))
    try:
        if cls == "span":
            return 0, n
        if cls == "below" and m >= 2:
            hi = int(rng.integers(1, m))
            return int(rng.integers(0, hi)), hi
        if cls == "touch-below" and m >= 1:
            return int(rng.integers(0, m)), m
        if cls == "on-plane" and m < n:
            return m, int(rng.integers(m + 1, n + 1))
        if cls == "straddle-sym" and m >= 1:
            h = int(rng.integers(1, m + 1))
            return m - h, m + h
        if cls == "straddle-asym" and m >= 1 and n - m >= 1:
            return int(rng.integers(0, m)), int(rng.integers(m + 1, n + 1))
        if cls == "above" and m + 1 < n:
            lo = int(rng.integers(m + 1, n))
            return lo, int(rng.integers(lo + 1, n + 1))
        if cls == "cell-below" and m >= 1:
            return m - 1, m
        if cls == "cell-on" and m < n:
            return m, m + 1
    except ValueError:
        pass
    lo = int(rng.integers(0, n))
    return lo, int(rng.integers(lo + 1, n + 1))


def _scene(rng):
    shape = [int(rng.choice([2, 4, 6, 8, 10, 12, 3, 5, 7, 1], p=[0.12, 0.16, 0.16, 0.14, 0.1, 0.08, 0.08, 0.07, 0.05, 0.04])) for _ in range(3)]
    u = rng.random()
    if u < 0.08:
        sym = (0, 0, 0)
    else:
        sym = TUPLES[int(rng.integers(27))]
        if rng.random() < 0.5:  # prefer scenes that are accepted: symmetric only where the count is even
            sym = tuple(s if (shape[a] % 2 == 0 and shape[a] >= 2) else 0 for a, s in enumerate(sym))
    gk = str(rng.choice(["uniform", "uniform", "rect_uniform", "stretched"]))
    s = float(rng.choice([1e-7, 5e-8, 1.0]))
    edges = None
    if gk == "rect_uniform":
        edges = [[0.3 * s + s * i for i in range(n + 1)] for n in shape]
    elif gk == "stretched":
        edges = []
        for a, n in enumerate(shape):
            half = s * rng.uniform(0.6, 1.8, size=(n + 1) // 2)
            w = np_concat_mirror(half, n)
            if sym[a] == 0 and rng.random() < 0.5:
                w = s * rng.uniform(0.6, 1.8, size=n)  # no symmetry needed on this axis
            x0 = float(rng.choice([0.0, -1.0])) * float(w.sum()) / 2
            e = [x0]
            for x in w:
                e.append(e[-1] + float(x))
            edges.append(e)
        if all(n == 1 for n in shape):
            gk = "rect_uniform"
            edges = [[0.0, s] for _ in shape]
    nobj = int(rng.integers(1, 7))
    objs = []
    for i in range(nobj):
        box = [list(_pick_interval(rng, shape[a], sym[a])) for a in range(3)]
        objs.append({"name": f"b{i}", "box": box, "type": str(rng.choice(["mat", "mat", "mat", "energy", "field"])), "eps": float(rng.uniform(1.5, 5))})
    return {"shape": shape, "symmetry": list(sym), "grid_kind": gk, "spacing": s, "edges": edges, "objects": objs}


def np_concat_mirror(half, n):
    import numpy as np

    if n % 2 == 0:
        return np.concatenate([half[::-1], half])
    return np.concatenate([half[::-1], half[1:]])


def _build(fdtdx, sc):
    import jax.numpy as jnp

    from fdtdx.objects.object import RealCoordinateConstraint

    if sc["edges"] is None:
        grid = fdtdx.UniformGrid(spacing=sc["spacing"])
    else:
        e3 = [jnp.asarray(e, dtype=jnp.float64) for e in sc["edges"]]
        grid = fdtdx.RectilinearGrid(x_edges=e3[0], y_edges=e3[1], z_edges=e3[2])
    config = fdtdx.SimulationConfig(grid=grid, time=1e-15, symmetry=tuple(sc["symmetry"]), dtype=jnp.float64)
    stretched = sc["grid_kind"] == "stretched"
    objs = [fdtdx.SimulationVolume(partial_grid_shape=tuple(sc["shape"]), name="vol")]
    cons = []
    for o in sc["objects"]:
        gs = tuple(b[1] - b[0] for b in o["box"])
        if o["type"] == "mat":
            ob = fdtdx.UniformMaterialObject(partial_grid_shape=gs, material=fdtdx.Material(permittivity=o["eps"]), name=o["name"])
        elif o["type"] == "energy":
            ob = fdtdx.EnergyDetector(partial_grid_shape=gs, name=o["name"], plot=False, dtype=jnp.float64)
        else:
            ob = fdtdx.FieldDetector(partial_grid_shape=gs, name=o["name"], plot=False, dtype=jnp.float64)
        objs.append(ob)
        if stretched:
            cons.append(RealCoordinateConstraint(object=o["name"], axes=(0, 1, 2), sides=("-", "-", "-"), coordinates=tuple(float(sc["edges"][a][o["box"][a][0]]) for a in range(3))))
        else:
            cons.append(ob.set_grid_coordinates(axes=(0, 1, 2), sides=("-", "-", "-"), coordinates=tuple(b[0] for b in o["box"])))
    return objs, cons, config


def _place(fdtdx, case, rng, r):
    import jax
    import numpy as np

    for _ in range(case["n"]):
        sc = _scene(rng)
        shape, sym = sc["shape"], tuple(sc["symmetry"])
        boxes = {o["name"]: o["box"] for o in sc["objects"]}
        exp = expect(shape, sym, boxes)
        if exp is not None and exp["reduced"] == [1, 1, 1]:
            # unrelated to this property: a one-cell domain makes array allocation fail (StopIteration in
            # create_named_sharded_matrix), so such scenes cannot be observed through place_objects
            r.branch("skipped:single-cell-domain")
            continue
        rels = sorted({relation(b[a][0], b[a][1], shape[a], sym[a]) for b in boxes.values() for a in range(3)} - {"nosym"})
        par = "".join("e" if n % 2 == 0 and n >= 2 else "o" for n in shape)
        sig = f"place|{sc['grid_kind']}|{sym}|{par}|{','.join(rels)}" if any(sym) else None
        try:
            objs, cons, config = _build(fdtdx, sc)
        except ValueError as e:
            r.branch("build-rejected")
            r.sample = r.sample or {"scene": sc, "build_error": str(e)[:200]}
            continue
        try:
            oc, arrays, _p, cfg2, _info = fdtdx.place_objects(object_list=objs, config=config, constraints=cons, key=jax.random.PRNGKey(0))
        except ValueError as e:
            msg = str(e)
            r.count("rejections_checked")
            if exp is None:
                if "even number of cells" in msg:
                    r.ok(sig)
                    r.branch("place:odd-rejected")
                else:
                    r.ok(None)
                    r.branch("place:odd-rejected-other-message")
            else:
                r.violate("place_objects rejected a scene with even counts on every symmetric axis", {"scene": sc, "error": msg[:300]}, mechanism="even-count-rejected", sig=sig)
            continue
        r.count("placed_scenes")
        if exp is None:
            r.count("rejections_checked")
            r.violate("odd (or < 2) cell count on a symmetric axis was accepted by place_objects", {"scene": sc, "volume_shape": list(oc.volume.grid_shape)}, mechanism="odd-count-accepted", sig=sig)
            continue
        red = exp["reduced"]
        wit = {"scene": sc, "plane_index": exp["plane"]}
        got_shapes = {
            "volume": list(oc.volume.grid_shape),
            "E": list(arrays.fields.E.shape[1:]),
            "inv_eps": list(arrays.inv_permittivities.shape[1:]),
            "grid": list(cfg2.grid.shape),
        }
        if any(v != red for v in got_shapes.values()) or _tup(oc.volume.grid_slice_tuple) != [[0, x] for x in red]:
            r.violate("reduced domain is not the upper half of the volume", {**wit, "got": got_shapes, "want": red}, mechanism="reduced-volume", sig=sig)
        else:
            r.ok(sig)
        if sc["edges"] is not None:
            for a in range(3):
                want_e = np.asarray(sc["edges"][a][exp["plane"][a] :])
                r.check_close("kept_edges", np.asarray(cfg2.grid.edges(a)), want_e, 1e-12, witness={**wit, "axis": a}, mechanism="reduced-grid-edges", sig=sig, atol=1e-12 * float(abs(want_e).max() + sc["spacing"]))
        by_name = {o.name: o for o in oc.objects}
        if any(sym):
            want_unred_vol = [[-exp["plane"][a], shape[a] - exp["plane"][a]] for a in range(3)]
            if _tup(oc.volume.unreduced_grid_slice_tuple) != want_unred_vol:
                r.violate("volume's unreduced extent is not shifted by the plane index", {**wit, "got": _tup(oc.volume.unreduced_grid_slice_tuple), "want": want_unred_vol}, mechanism="unreduced-extent", sig=sig)
        for name, box in boxes.items():
            e = exp["objects"][name]
            rel = ",".join(relation(box[a][0], box[a][1], shape[a], sym[a]) for a in range(3))
            for a in range(3):
                r.branch("rel:" + relation(box[a][0], box[a][1], shape[a], sym[a]))
            w = {**wit, "object": name, "relations": rel}
            if e is None:
                if name in by_name:
                    r.violate("object entirely in the discarded half was not dropped", {**w, "got": _tup(by_name[name].grid_slice_tuple)}, mechanism="drop-rule", sig=sig)
                else:
                    r.ok(sig)
                continue
            if name not in by_name:
                r.violate("object reaching into the kept half was dropped", w, mechanism="drop-rule", sig=sig)
                continue
            o = by_name[name]
            if _tup(o.grid_slice_tuple) != e["slice"]:
                r.violate("surviving object is not clipped to the kept half", {**w, "got": _tup(o.grid_slice_tuple), "want": e["slice"]}, mechanism="clip-slice", sig=sig)
            elif _tup(o.unreduced_grid_slice_tuple) != e["unreduced"]:
                r.violate("unreduced extent is not the original slice shifted by the plane index", {**w, "got": _tup(o.unreduced_grid_slice_tuple), "want": e["unreduced"]}, mechanism="unreduced-extent", sig=sig)
            elif [o.straddles_symmetry_plane(a) for a in range(3)] != [sym[a] != 0 and box[a][0] < exp["plane"][a] for a in range(3)]:
                r.violate("straddles_symmetry_plane disagrees with the recorded extents", {**w, "got": [bool(o.straddles_symmetry_plane(a)) for a in range(3)]}, mechanism="unreduced-extent", sig=sig)
            else:
                r.ok(sig)
        extra = [o for n, o in by_name.items() if n not in boxes and n != "vol"]
        _judge_walls(fdtdx, r, extra, sym, red, set(boxes) | {"vol"}, wit, sig)
        if len(oc.pmc_objects) != 0 or len(oc.pec_objects) != sum(1 for s in sym if s == -1):
            r.violate("container lists PEC/PMC objects that do not match the electric planes", {**wit, "pec": len(oc.pec_objects), "pmc": len(oc.pmc_objects)}, mechanism="symmetry-walls", sig=sig)
        if r.sample is None and any(sym) and len(boxes) >= 2:
            r.sample = {"scene": sc, "placed": {n: {"slice": _tup(o.grid_slice_tuple), "unreduced": _tup(o.unreduced_grid_slice_tuple)} for n, o in by_name.items()}}

"""C12 — absorbing layers absorb.

Threshold monitor on the library's own detectors: (a) interior field energy after a zero-net-charge pulse has
left is < 1e-6 of its peak; (b) the interior field record differs from the one of a much larger reference
domain by < 1e-4 in relative energy over the same time window.
"""

from __future__ import annotations

PROPERTY = "C12"
RULE = (
    "PML thickness 8..20 (always incl. 8) on all six faces, narrow-band pulsed point dipole (electric/magnetic, "
    "any polarisation incl. tilted, random position >= 2 cells from the layers), interior 12-16 cells, 9-12 cells "
    "per wavelength; plane-wave pulses against one PML pair with periodic transverse axes in the thorough tier. "
    "distinct = (thickness, source type, polarisation, position class); non-trivial iff peak energy > 0"
)
REQUIRED_COUNTERS = ["runs", "reference_runs"]
ASSUMPTIONS = [
    "pulse bandwidth f0/8 so that its DC content (static charge of an electric dipole) is < 1e-13 of the peak",
    "reference domain = same interior + 12 cells margin + 20-cell PML per face (not an unboundedly large box)",
    "energy of the difference measured as sum(eps0 |dE|^2 + mu0 |dH|^2) over the interior FieldDetector records of the whole run",
]
CASE_TIMEOUT = {"quick": 1800, "thorough": 3600}


def cases(tier, rng):
    out = []
    n = 3 if tier == "quick" else 36
    for i in range(n):
        out.append(
            {
                "kind": "dipole",
                "thickness": 8 if i % 3 == 0 else int(rng.integers(8, 21)),
                "interior": int(rng.integers(12, 17)),
                "cells_per_wl": float(rng.uniform(9, 12)),
                "source_type": ["electric", "magnetic"][int(rng.integers(2))],
                "polarization": int(rng.integers(3)),
                "tilt": [0.0, 0.0] if rng.random() < 0.6 else [float(rng.uniform(-80, 80)), float(rng.uniform(-80, 80))],
                "pos_frac": [float(x) for x in rng.random(3)],
                "seed": int(rng.integers(1 << 30)),
                # every third layer set is kappa-graded (real coordinate stretching from 1 at the interface to
                # kappa_end at the wall, the standard CPML option); the reference domain keeps default layers
                "kappa_end": float(rng.uniform(5.0, 5.6)) if i % 3 == 1 else None,
            }
        )
        if out[-1]["kappa_end"] is not None:
            # the stated bounds are those of default layers; with real stretching the unchanged code only keeps them
            # for moderate kappa (probes: kappa_end 9 on 8 cells, or 10.8 on 20 cells with the source next to the
            # layer, exceed 1e-4 on the unchanged tree; kappa_end <= 6 on 8..12 cells stays below 1.3e-5), so graded
            # sets are confined to that regime
            out[-1]["thickness"] = int(8 + (i // 3) % 3)
    if tier == "thorough":
        for a in range(3):
            for d in "+-":
                out.append({"kind": "plane", "axis": a, "direction": d, "thickness": int(rng.integers(8, 21)), "cells_per_wl": float(rng.uniform(10, 14)), "angle": float(rng.uniform(0, 6.28)), "seed": 1})
    return out


def run_case(case):
    from vf import bootstrap
    from vf.result import Res

    bootstrap.ensure()
    r = Res()
    if case["kind"] == "dipole":
        _dipole(case, r)
    else:
        _plane(case, r)
    return r.to_dict()


def _build(c, thickness, margin):
    import numpy as np

    from vf import scenes

    spacing = 25e-9
    n_in = c["interior"]
    N = n_in + 2 * (margin + thickness)
    wl = c["cells_per_wl"] * spacing
    period_steps = c["cells_per_wl"] * np.sqrt(3) / 0.99
    sigma_t_steps = 8.0 / (2 * np.pi) * period_steps
    T = int(12 * sigma_t_steps + 3.0 * (n_in + 2 * 8) * np.sqrt(3) / 0.99)
    s = scenes.default_scene(shape=(N, N, N), steps=T, spacing=spacing)
    for f in scenes.FACES:
        s["faces"][f] = {"type": "pml", "thickness": thickness}
        if c.get("kappa_end") is not None and margin == 0:
            s["faces"][f]["kappa_end"] = c["kappa_end"]
    off = margin + thickness
    pos = [off + 2 + int(round(p * (n_in - 5))) for p in c["pos_frac"]]
    s["sources"] = [
        {
            "kind": "dipole", "lo": pos, "polarization": c["polarization"], "source_type": c["source_type"], "wavelength": wl,
            "azimuth_angle": c["tilt"][0], "elevation_angle": c["tilt"][1],
            "profile": {"kind": "pulse", "center_wavelength": wl, "width_wavelength": wl * 8.0},
        }
    ]
    lo, hi = [off] * 3, [off + n_in] * 3
    s["detectors"] = [
        {"kind": "energy", "name": "energy", "lo": lo, "hi": hi, "reduce": True},
        {"kind": "field", "name": "field", "lo": lo, "hi": hi},
    ]
    return s, T


def _dipole(c, r):
    import numpy as np

    from vf import scenes

    s, T = _build(c, c["thickness"], 0)
    st = scenes.run(scenes.build(s))
    r.count("runs")
    D = scenes.detector_arrays(st[1])
    en = np.asarray(D["energy/energy"], dtype=np.float64)[:, 0]
    peak = float(en.max())
    resid = float(en[-1]) / peak if peak > 0 else float("inf")
    pos_class = tuple(0 if p < 0.2 else (2 if p > 0.8 else 1) for p in c["pos_frac"])
    sig = (c["thickness"], c["source_type"], c["polarization"], c["tilt"] != [0.0, 0.0], pos_class)
    r.branch(f"thickness:{c['thickness']}")
    r.branch("type:" + c["source_type"])
    r.branch("kappa:" + ("graded" if c.get("kappa_end") is not None else "default"))
    sig = sig + (c.get("kappa_end") is not None,)
    r.worst("worst_residual_energy", resid)
    wit = {"case": c, "steps": T, "peak_energy": peak, "final_energy": float(en[-1]), "residual": resid}
    if not np.all(np.isfinite(en)):
        r.violate("energy trace not finite", wit, sig=sig)
        return
    if not (peak > 0):
        r.inconclusive("the source injected nothing")
        return
    if resid >= 1e-6:
        r.violate(f"energy left after the pulse: {resid:.3e} of the peak (>= 1e-6)", wit, sig=sig)
    else:
        r.ok(sig)
    # (b) reference domain
    c_ref = dict(c)
    s_ref, T_ref = _build(c_ref, 20, 12)
    s_ref["steps"] = T
    st_ref = scenes.run(scenes.build(s_ref))
    r.count("reference_runs")
    F = np.asarray(D["field/fields"], dtype=np.float64)
    Fr = np.asarray(scenes.detector_arrays(st_ref[1])["field/fields"], dtype=np.float64)
    eps0, mu0 = 8.8541878128e-12, 1.25663706212e-6
    w = np.array([eps0] * 3 + [mu0] * 3).reshape(1, 6, 1, 1, 1)
    num = float(np.sum(w * (F - Fr) ** 2))
    den = float(np.sum(w * Fr**2))
    rel = num / den if den > 0 else float("inf")
    r.worst("worst_rel_energy_vs_reference", rel)
    wit2 = {**wit, "rel_energy_difference": rel}
    if rel >= 1e-4:
        r.violate(f"interior record differs from the large reference domain by {rel:.3e} in relative energy (>= 1e-4)", wit2, sig=sig)
    else:
        r.ok(sig)
    r.sample = wit2


def _plane(c, r):
    """normal-incidence plane pulse against a single PML pair (transversely periodic): residual energy."""
    import numpy as np

    from vf import scenes

    spacing = 25e-9
    a = c["axis"]
    t = [b for b in range(3) if b != a]
    th = c["thickness"]
    n_in = 24
    shape = [4, 4, 4]
    shape[a] = n_in + 2 * th
    wl = c["cells_per_wl"] * spacing
    period_steps = c["cells_per_wl"] * np.sqrt(3) / 0.99
    T = int(12 * 8.0 / (2 * np.pi) * period_steps + 3.0 * (n_in + 16) * np.sqrt(3) / 0.99)
    s = scenes.default_scene(shape=shape, steps=T, spacing=spacing)
    for b in t:
        s["faces"][f"min_{'xyz'[b]}"] = {"type": "periodic"}
        s["faces"][f"max_{'xyz'[b]}"] = {"type": "periodic"}
    s["faces"][f"min_{'xyz'[a]}"] = {"type": "pml", "thickness": th}
    s["faces"][f"max_{'xyz'[a]}"] = {"type": "pml", "thickness": th}
    lo, hi = [0, 0, 0], list(shape)
    lo[a], hi[a] = th + n_in // 2, th + n_in // 2 + 1
    pol = [0.0, 0.0, 0.0]
    pol[t[0]], pol[t[1]] = float(np.cos(c["angle"])), float(np.sin(c["angle"]))
    s["sources"] = [{"kind": "uniform", "lo": lo, "hi": hi, "direction": c["direction"], "wavelength": wl, "e_pol": pol,
                     "profile": {"kind": "pulse", "center_wavelength": wl, "width_wavelength": wl * 8.0}}]
    dlo, dhi = [0, 0, 0], list(shape)
    dlo[a], dhi[a] = th, th + n_in
    s["detectors"] = [{"kind": "energy", "name": "energy", "lo": dlo, "hi": dhi, "reduce": True}]
    st = scenes.run(scenes.build(s))
    r.count("runs")
    r.count("reference_runs", 0)
    en = np.asarray(scenes.detector_arrays(st[1])["energy/energy"], dtype=np.float64)[:, 0]
    peak = float(en.max())
    resid = float(en[-1]) / peak if peak > 0 else float("inf")
    sig = ("plane", a, c["direction"], th)
    r.branch(f"plane:axis{a}{c['direction']}")
    r.worst("worst_residual_energy_plane", resid)
    wit = {"case": c, "steps": T, "residual": resid}
    if not (peak > 0) or not np.isfinite(resid):
        r.violate("plane pulse: no or non-finite energy", wit, sig=sig)
    elif resid >= 1e-6:
        r.violate(f"plane pulse: energy left {resid:.3e} of the peak (>= 1e-6)", wit, sig=sig)
    else:
        r.ok(sig)
    r.sample = wit

"""Von-Neumann reference model for the coupled (E, P_p) recurrence of the ADE scheme in a uniform medium.

For a Fourier mode with Yee curl-curl eigenvalue nu2 = c_num^2 * lambda / (eps_inf * mu), lambda in [0, 12]:
    (z - 2 + 1/z) * (1 + inv_eps * sum_p c3_p / (z - c1_p - c2_p / z)) + nu2 = 0
The medium is stable iff no root leaves the closed unit disc for any nu2 in [0, 4*courant_factor^2/(eps_inf*mu)].
"""

from __future__ import annotations

import numpy as np


def max_root_modulus(c1, c2, c3, inv_eps, nu2_max, n_scan=240):
    """c1,c2,c3: per-pole scalars (one axis).  Returns the largest |z| over the scanned spectrum."""
    c1, c2, c3 = (np.atleast_1d(np.asarray(x, dtype=np.float64)) for x in (c1, c2, c3))
    worst = 0.0
    # multiply by z * prod_p (z^2 - c1 z - c2):  (z^2 - 2z + 1) * [prod + inv_eps * sum_p c3_p z * prod_{q!=p}] + nu2 z prod = 0
    qs = [np.poly1d([1.0, -a, -b]) for a, b in zip(c1, c2)]
    prod = np.poly1d([1.0])
    for q in qs:
        prod = prod * q
    coupling = np.poly1d([0.0])
    for i, c in enumerate(c3):
        term = np.poly1d([c, 0.0])  # c3 * z
        for j, q in enumerate(qs):
            if j != i:
                term = term * q
        coupling = coupling + term
    lap = np.poly1d([1.0, -2.0, 1.0])
    base = lap * (prod + inv_eps * coupling)
    zprod = np.poly1d([1.0, 0.0]) * prod
    for nu2 in np.linspace(0.0, nu2_max, n_scan):
        roots = (base + nu2 * zprod).roots
        if len(roots):
            worst = max(worst, float(np.abs(roots).max()))
    return worst

"""Seeded generators for scene descriptions (pure python / numpy; no jax, no fdtdx)."""

from __future__ import annotations

import math

import numpy as np

FACES = ("min_x", "max_x", "min_y", "max_y", "min_z", "max_z")
XYZ = "xyz"


def spd_tensor(rng, lo=1.0, hi=4.0, cond_max=4.0):
    """Random symmetric positive definite 3x3 tensor (row-major 9-list) with bounded condition number."""
    q, _ = np.linalg.qr(rng.standard_normal((3, 3)))
    base = rng.uniform(lo, hi)
    ev = base * np.exp(rng.uniform(0, np.log(cond_max), size=3))
    m = (q * ev) @ q.T
    m = 0.5 * (m + m.T)
    return [float(x) for x in m.reshape(-1)]


def random_switch(rng, T, dt, period, allow_off=True):
    """One of the documented switch forms (as OnOffSwitch kwargs); None = default always on."""
    k = int(rng.integers(0, 9))
    if k == 0:
        return None
    if k == 1:
        a = float(rng.uniform(0, 0.6)) * T * dt
        return {"start_time": a, "end_time": a + float(rng.uniform(0.1, 0.6)) * T * dt}
    if k == 2:
        return {"start_after_periods": float(rng.uniform(0, 1.5)), "end_after_periods": float(rng.uniform(1.5, 4.0)), "period": period}
    if k == 3:
        return {"start_time": float(rng.uniform(0, 0.5)) * T * dt, "on_for_time": float(rng.uniform(0.1, 0.5)) * T * dt}
    if k == 4:
        return {"interval": int(rng.integers(2, 5))}
    if k == 5:
        n = int(rng.integers(0, max(1, T // 2) + 1))
        return {"fixed_on_time_steps": sorted(int(x) for x in rng.choice(T, size=min(n, T), replace=False))} if T > 0 else None
    if k == 6 and allow_off:
        return {"is_always_off": True}
    if k == 7:
        return {"end_time": float(rng.uniform(0.2, 0.9)) * T * dt, "on_for_time": float(rng.uniform(0.1, 0.4)) * T * dt}
    return {"start_time": float(rng.uniform(0.0, 0.4)) * T * dt, "interval": int(rng.integers(1, 4))}


def random_detector_switch(rng, T, dt):
    """Switch forms that are guaranteed to have at least one active step (a detector that never records cannot
    be traced by fdtdx: its state has a zero-length time axis)."""
    k = int(rng.integers(0, 6))
    if k == 0 or T < 2:
        return None
    if k == 1:
        return {"interval": int(rng.integers(2, 5))}
    if k == 2:
        n = int(rng.integers(1, max(2, T // 2) + 1))
        return {"fixed_on_time_steps": sorted(int(x) for x in rng.choice(T, size=min(n, T), replace=False))}
    if k == 3:
        return {"start_time": 0.0, "end_time": float(rng.uniform(0.1, 0.9)) * T * dt}
    if k == 4:
        return {"start_time": float(rng.uniform(0.0, 0.4)) * T * dt, "interval": int(rng.integers(1, 3))}
    return {"start_time": float(rng.uniform(0.0, 0.3)) * T * dt}


def random_profile(rng, wavelength, T):
    k = int(rng.integers(0, 4))
    if k == 0:
        return None
    if k == 1:
        return {"kind": "cw", "phase_shift": float(rng.uniform(-3, 3))}
    if k == 2:
        return {"kind": "pulse", "center_wavelength": wavelength, "width_wavelength": wavelength * float(rng.uniform(4, 12))}
    return {"kind": "signal", "signal": [float(x) for x in rng.standard_normal(max(T + 2, 3))]}


def random_scene(
    rng,
    steps,
    interior=(5, 8),
    boundaries=("pec", "pmc", "periodic", "none"),
    pml=None,  # None, "all", "some", or explicit dict face->thickness
    pml_thickness=(1, 4),
    bloch=False,
    materials="any",  # "none" | "iso" | "diag" | "full" | "any" | "any_lossless"
    lossy=False,
    magnetic=None,
    n_sources=(0, 3),
    source_kinds=("dipole", "mdipole", "uniform", "gaussian", "tilted_dipole", "tfsf"),
    switches=True,
    profiles=True,
    detectors=(),
    n_detectors=(0, 0),
    grid=("uniform", "rect"),
    spacing=50e-9,
    wavelength_cells=(8, 16),
    material_class=None,
):
    """Returns a scene dict for vf.scenes.build plus a 'meta' sub-dict describing what was drawn.

    material_class (int | None): when given, the material class of the static boxes (permittivity tier, permeability
    none / same tier / wider tier, conductivities none / same tier / other tier / with scalar or vector magnetic
    conductivity) is not drawn but taken from the grid of classes admissible under `materials`, `lossy` and
    `magnetic`, at index material_class modulo the grid size -- callers pass a running index so that every class is
    driven in every tier."""
    forced = None
    if material_class is not None:
        tiers = {"any": ["iso", "diag", "full"], "any_lossless": ["iso", "diag", "full"]}.get(materials, [materials])
        tiers = [t for t in tiers if t != "none"]
        if lossy:
            tiers = [t for t in tiers if t != "full"] or ["diag"]
        mus = ["none"] if magnetic is False else ["none", "same", "wider"]
        losses = ["e_same", "e_other", "e_same+m_scalar", "e_other+m_vector"] if lossy else ["none"]
        if magnetic is False:
            losses = [l for l in losses if "m_" not in l]
        if tiers:
            # mixed-radix walk in which every pair of coordinates is covered within a few consecutive indices
            k, nt, nl, nm = int(material_class), len(tiers), len(losses), len(mus)
            mi = (k % nm) if math.gcd(nm, nt) == 1 else ((k + k // nt) % nm)
            forced = (tiers[k % nt], mus[mi], losses[(k // nt) % nl])
            if forced[1] != "none" or "m_" in forced[2]:
                magnetic = True
    faces = {}
    meta = {"axis_kinds": [], "pml_faces": [], "source_kinds": [], "switch_kinds": [], "profile_kinds": [], "detector_kinds": []}
    pml_t = {f: 0 for f in FACES}
    if isinstance(pml, dict):
        pml_t.update(pml)
    elif pml == "all":
        for f in FACES:
            pml_t[f] = int(rng.integers(pml_thickness[0], pml_thickness[1] + 1))
    elif pml == "some":
        chosen = [f for f in FACES if rng.random() < 0.5]
        if not chosen:
            chosen = [FACES[int(rng.integers(6))]]
        for f in chosen:
            pml_t[f] = int(rng.integers(pml_thickness[0], pml_thickness[1] + 1))
    inner = [int(rng.integers(interior[0], interior[1] + 1)) for _ in range(3)]
    shape = []
    bloch_vec = [0.0, 0.0, 0.0]
    needs_complex = False
    for a in range(3):
        lo, hi = f"min_{XYZ[a]}", f"max_{XYZ[a]}"
        tl, th = pml_t[lo], pml_t[hi]
        n = tl + inner[a] + th
        shape.append(n)
        if tl > 0 and th > 0:
            faces[lo] = {"type": "pml", "thickness": tl}
            faces[hi] = {"type": "pml", "thickness": th}
            meta["axis_kinds"].append("pml")
            continue
        kinds = [k for k in boundaries]
        k = kinds[int(rng.integers(len(kinds)))]
        if tl > 0 or th > 0:
            # one PML face: the other face is a wall (never periodic: wrap would feed the PML)
            walls = [w for w in kinds if w in ("pec", "pmc", "none")] or ["none"]
            w = walls[int(rng.integers(len(walls)))]
            faces[lo] = {"type": "pml", "thickness": tl} if tl > 0 else {"type": w}
            faces[hi] = {"type": "pml", "thickness": th} if th > 0 else {"type": w}
            meta["axis_kinds"].append("pml+" + w)
            continue
        if k == "periodic":
            if bloch and rng.random() < 0.5:
                faces[lo] = {"type": "bloch"}
                faces[hi] = {"type": "bloch"}
                phase = float(rng.uniform(-4, 4))
                bloch_vec[a] = phase  # converted to rad/m below once the extent is known
                needs_complex = True
                meta["axis_kinds"].append("bloch")
            else:
                faces[lo] = {"type": "periodic"}
                faces[hi] = {"type": "periodic"}
                meta["axis_kinds"].append("periodic")
        else:
            k2 = k
            if rng.random() < 0.3:
                walls = [w for w in kinds if w != "periodic"]
                k2 = walls[int(rng.integers(len(walls)))]
            faces[lo] = {"type": k}
            faces[hi] = {"type": k2}
            meta["axis_kinds"].append(f"{k}/{k2}")
    meta["pml_faces"] = [f for f in FACES if pml_t[f] > 0]
    gkind = grid[int(rng.integers(len(grid)))]
    if gkind == "rect":
        edges = []
        for a in range(3):
            w = spacing * np.exp(rng.uniform(0.0, np.log(2.0), size=shape[a]))
            # keep the grid uniform inside PML slabs (default grading assumes it) — stretch the interior only
            tl, th = pml_t[f"min_{XYZ[a]}"], pml_t[f"max_{XYZ[a]}"]
            if tl:
                w[: tl + 1] = w[tl]
            if th:
                w[-th - 1 :] = w[-th - 1]
            e = np.concatenate([[0.0], np.cumsum(w)])
            edges.append([float(x) for x in (e - e[-1] / 2)])
        g = {"kind": "rect", "edges": edges}
        ext = [edges[a][-1] - edges[a][0] for a in range(3)]
    else:
        g = {"kind": "uniform", "spacing": spacing}
        ext = [shape[a] * spacing for a in range(3)]
    for a in range(3):
        if bloch_vec[a] != 0.0:
            bloch_vec[a] = bloch_vec[a] / ext[a]
    ilo = [pml_t[f"min_{XYZ[a]}"] for a in range(3)]
    ihi = [shape[a] - pml_t[f"max_{XYZ[a]}"] for a in range(3)]
    wl_cells = float(rng.uniform(*wavelength_cells))
    wavelength = wl_cells * spacing
    period = wavelength / 299792458.0
    dt = 0.99 * spacing / (np.sqrt(3.0) * 299792458.0)  # nominal (uniform) — only to scale schedules

    scene = {
        "shape": shape,
        "grid": g,
        "steps": int(steps),
        "dtype": "f64",
        "complex": True if needs_complex else None,
        "courant": 0.99,
        "faces": {f: faces.get(f, {"type": "none"}) for f in FACES},
        "bloch": bloch_vec,
        "volume": {"eps": float(rng.uniform(1.0, 2.5))},
        "materials": [],
        "sources": [],
        "detectors": [],
        "gradient": None,
        "symmetry": [0, 0, 0],
    }
    if magnetic or (magnetic is None and rng.random() < 0.4):
        scene["volume"]["mu"] = float(rng.uniform(1.0, 2.0))
        meta["magnetic"] = True
    else:
        meta["magnetic"] = False

    # ---- plane source position decides where anisotropic boxes may go -------------------------
    n_src = int(rng.integers(n_sources[0], n_sources[1] + 1))
    kinds = [source_kinds[int(rng.integers(len(source_kinds)))] for _ in range(n_src)]
    plane_axis = int(rng.integers(3))
    plane_pos = ilo[plane_axis] + (1 if pml_t[f"min_{XYZ[plane_axis]}"] else 0)
    has_plane = any(k in ("uniform", "gaussian") for k in kinds)
    # material tier
    tier = materials
    if forced is not None:
        tier = forced[0]
        meta["material_class"] = "/".join(forced)
    elif tier == "any":
        tier = ["none", "iso", "diag", "full"][int(rng.integers(4))]
    elif tier == "any_lossless":
        tier = ["none", "iso", "diag", "full"][int(rng.integers(4))]
    if lossy and tier == "full":
        tier = "diag"
    if "tfsf" in kinds and tier in ("diag", "full"):
        tier = "iso"  # plane-wave injection inside anisotropic media is rejected by fdtdx (NotImplementedError)
    meta["material_tier"] = tier
    meta["lossy"] = bool(lossy and tier != "none")
    if tier != "none":
        for _ in range(int(rng.integers(1, 3))):
            lo, hi = [], []
            for a in range(3):
                amin = ilo[a]
                if has_plane and a == plane_axis:
                    amin = plane_pos + 2
                amax = ihi[a]
                if amax - amin < 1:
                    amin = amax - 1
                l = int(rng.integers(amin, amax))
                h = int(rng.integers(l + 1, amax + 1))
                lo.append(l)
                hi.append(h)
            if tier == "iso":
                mat = {"eps": float(rng.uniform(1.5, 5.0))}
            elif tier == "diag":
                mat = {"eps": [float(x) for x in rng.uniform(1.5, 5.0, size=3)]}
            else:
                mat = {"eps": spd_tensor(rng)}
            if forced is not None:
                use_mu, wider = forced[1] != "none", forced[1] == "wider"
            else:
                use_mu, wider = bool(meta["magnetic"] and rng.random() < 0.7), None
            if use_mu:
                if tier == "full":
                    mat["mu"] = spd_tensor(rng, 1.0, 2.0, 2.0)
                elif tier == "diag":
                    mat["mu"] = [float(x) for x in rng.uniform(1.0, 2.5, size=3)]
                elif "tfsf" not in kinds and (wider if wider is not None else rng.random() < 0.4):
                    # anisotropic permeability on top of an isotropic permittivity (tiers are independent)
                    mat["mu"] = [float(x) for x in rng.uniform(1.0, 2.5, size=3)]
                    meta["mu_tier_wider_than_eps"] = True
                else:
                    mat["mu"] = float(rng.uniform(1.0, 2.5))
            if lossy:
                # loss number a = c*sigma*eta0/(2 eps) * spacing-scale <= 0.5 is enforced by the caller via 'sig_scale'
                # S/m scaled so that the loss number c*sigma*spacing*eta0/(2 eps) stays below ~0.3
                s = float(rng.uniform(0.0, 1.0)) * 5e4 * (50e-9 / spacing)
                # the conductivity tiers are independent of the permittivity tier: one-component conductivity on a
                # three-component permittivity and the reverse both occur (never with a TFSF source in the scene)
                vec_e = tier == "diag"
                if forced is not None:
                    flip, use_sm, vec_m = forced[2].startswith("e_other"), "m_" in forced[2], "m_vector" in forced[2]
                else:
                    flip, use_sm, vec_m = rng.random() < 0.35, None, None
                if "tfsf" not in kinds and flip:
                    vec_e = not vec_e
                    meta["sigma_e_tier_differs_from_eps"] = True
                mat["sig_e"] = [s * float(x) for x in rng.uniform(0.2, 1.0, size=3)] if vec_e else s
                if use_sm if use_sm is not None else (meta["magnetic"] and rng.random() < 0.5):
                    sm = float(rng.uniform(0.0, 1.0)) * 5e9 * (50e-9 / spacing)
                    if "tfsf" not in kinds and (vec_m if vec_m is not None else rng.random() < 0.35):
                        mat["sig_m"] = [sm * float(x) for x in rng.uniform(0.2, 1.0, size=3)]
                        meta["sigma_m_vector"] = True
                    else:
                        mat["sig_m"] = sm
            scene["materials"].append({"lo": lo, "hi": hi, "mat": mat, "order": int(rng.integers(0, 3))})

    # ---- sources ------------------------------------------------------------------------------
    for i, k in enumerate(kinds):
        src = {"wavelength": wavelength * float(rng.uniform(0.8, 1.25)), "factor": float(rng.uniform(0.5, 2.0))}
        if switches:
            sw = random_switch(rng, steps, dt, period)
            src["switch"] = sw
            meta["switch_kinds"].append("default" if sw is None else "+".join(sorted(sw)))
        if profiles:
            pr = random_profile(rng, wavelength, steps)
            src["profile"] = pr
            meta["profile_kinds"].append("default" if pr is None else pr["kind"])
        if k in ("dipole", "mdipole", "tilted_dipole"):
            pos = [int(rng.integers(ilo[a], ihi[a])) for a in range(3)]
            src.update({"kind": "dipole", "lo": pos, "polarization": int(rng.integers(3))})
            if k == "mdipole":
                src["source_type"] = "magnetic"
            if k == "tilted_dipole":
                src["azimuth_angle"] = float(rng.uniform(-60, 60))
                src["elevation_angle"] = float(rng.uniform(-60, 60))
        elif k in ("uniform", "gaussian"):
            a = plane_axis
            lo = list(ilo)
            hi = list(ihi)
            for b in range(3):
                if b != a and faces.get(f"min_{XYZ[b]}", {}).get("type") in ("periodic", "bloch"):
                    lo[b], hi[b] = 0, shape[b]
            lo[a] = plane_pos
            hi[a] = plane_pos + 1
            t = [b for b in range(3) if b != a]
            pol = [0.0, 0.0, 0.0]
            ang = float(rng.uniform(0, 2 * np.pi))
            pol[t[0]], pol[t[1]] = float(np.cos(ang)), float(np.sin(ang))
            src.update({"kind": k, "lo": lo, "hi": hi, "direction": "+", "e_pol": pol})
            if k == "gaussian":
                src["radius"] = float(rng.uniform(1.5, 3.0)) * spacing
        elif k == "tfsf":
            lo, hi = [], []
            for a in range(3):
                if ihi[a] - ilo[a] < 4:
                    lo.append(ilo[a])
                    hi.append(ihi[a])
                else:
                    l = int(rng.integers(ilo[a] + 1, ihi[a] - 2))
                    h = int(rng.integers(l + 2, ihi[a]))
                    lo.append(l)
                    hi.append(h)
            a = int(rng.integers(3))
            t = [b for b in range(3) if b != a]
            pol = [0.0, 0.0, 0.0]
            pol[t[int(rng.integers(2))]] = 1.0
            src.update({"kind": "tfsf", "lo": lo, "hi": hi, "propagation_axis": a, "direction": "+-"[int(rng.integers(2))], "e_pol": pol})
        meta["source_kinds"].append(k)
        scene["sources"].append(src)

    # ---- detectors ----------------------------------------------------------------------------
    nd = int(rng.integers(n_detectors[0], n_detectors[1] + 1)) if detectors else 0
    for i in range(nd):
        k = detectors[int(rng.integers(len(detectors)))]
        lo, hi = [], []
        for a in range(3):
            l = int(rng.integers(ilo[a], ihi[a]))
            h = int(rng.integers(l + 1, ihi[a] + 1))
            lo.append(l)
            hi.append(h)
        d = {"kind": k, "lo": lo, "hi": hi}
        if k in ("poynting", "phasor_poynting"):
            a = int(rng.integers(3))
            hi[a] = lo[a] + 1
            d["axis"] = a
            d["reduce"] = bool(rng.integers(2))
        if k in ("phasor", "phasor_poynting", "closed_phasor_poynting"):
            d["wavelengths"] = [wavelength]
        if k in ("field", "energy", "phasor"):
            d["reduce"] = bool(rng.integers(2))
        d["exact"] = bool(rng.integers(2))
        if switches and k not in ():
            d["switch"] = random_detector_switch(rng, steps, dt)
        meta["detector_kinds"].append(k)
        scene["detectors"].append(d)
    # ---- boundary construction route ------------------------------------------------------------
    # when every face has a plain type the boundaries are, half of the time, built through the public
    # BoundaryConfig / boundary_objects_from_config route, with stray wave-vector components on the axes that are not
    # typed "bloch" (documented to be unused there)
    plain = all(
        scene["faces"][f]["type"] != "none" and all(k in ("type", "thickness") for k in scene["faces"][f]) for f in FACES
    )
    if plain and rng.random() < 0.5:
        scene["boundary_api"] = "config"
        for a in range(3):
            if scene["faces"][f"min_{XYZ[a]}"]["type"] != "bloch":
                scene["bloch"][a] = float(rng.uniform(-3.0, 3.0)) / (shape[a] * spacing)
        meta["boundary_api"] = "config"
    scene["meta"] = meta
    return scene

"""C02 — one backward step exactly undoes one forward step (no PML, no dispersion).

Metamorphic monitor inside the time loop: at every step of a real run (sources active, switches,
profiles) the monitor calls backward(forward(s)) and compares with s; additionally the same relation is
judged on random wall-consistent states at random time indices.
"""

from __future__ import annotations

PROPERTY = "C02"
RULE = (
    "seeded scenes without PML: boundaries pec/pmc/periodic/bloch/none per axis (mixed faces), materials none/iso/"
    "diag(+sigma_E,+sigma_H)/full SPD tensor (lossless), uniform or rectilinear grid, 0-4 public sources (dipole, "
    "magnetic dipole, tilted dipole, uniform/gaussian plane, TFSF region) with every switch form and temporal "
    "profile. distinct = (axis kinds, material tier, lossy, magnetic, sorted source kinds, sorted switch kinds, "
    "grid); non-trivial iff the compared state is non-zero"
)
REQUIRED_COUNTERS = ["roundtrips"]
ASSUMPTIONS = [
    "tolerance 1e-9 relative to the state norm, scaled by 1/(1-a_max) for lossy media (a = loss number bounded by the generator) and by the tensor condition bound (<= 4) for full tensors",
    "ModePlaneSource is not driven (external mode solver)",
]
CASE_TIMEOUT = {"quick": 900, "thorough": 2400}


def cases(tier, rng):
    n_cases = 14 if tier == "quick" else 56
    per = 2 if tier == "quick" else 14
    out = []
    nclass = {True: 0, False: 0}
    for i in range(n_cases):
        sc = []
        for j in range(per):
            lossy = bool((i + j) % 2 == 0)
            # the material class (tensor tier x permeability x conductivity tiers) is walked, not drawn
            sc.append({"seed": int(rng.integers(1 << 30)), "lossy": lossy, "steps": int(rng.integers(12, 30 if tier == "quick" else 40)), "mclass": nclass[lossy]})
            nclass[lossy] += 1
        out.append({"scenes": sc})
    return out


def run_case(case):
    from vf import bootstrap
    from vf.result import Res

    bootstrap.ensure()
    r = Res()
    for sc in case["scenes"]:
        _one(sc, r)
    return r.to_dict()


def make_scene(sc):
    import numpy as np

    from vf import gen

    rng = np.random.default_rng(sc["seed"])
    scene = gen.random_scene(
        rng,
        steps=sc["steps"],
        interior=(4, 8),
        boundaries=("pec", "pmc", "periodic", "none"),
        pml=None,
        bloch=True,
        materials="any",
        lossy=sc["lossy"],
        n_sources=(0, 4),
        material_class=sc.get("mclass"),
    )
    if scene["complex"] is None and rng.random() < 0.2:
        scene["complex"] = True
    scene["gradient"] = {"method": "reversible"}
    return scene, rng


def _one(sc, r):
    import jax
    import jax.numpy as jnp
    import numpy as np

    from vf import scenes, sim

    scene, rng = make_scene(sc)
    meta = scene["meta"]
    r.branch("material_class:" + str(meta.get("material_class", "drawn")))
    built = scenes.build(scene)
    arrays, objects = built["arrays"], built["objects"]
    T = sc["steps"]
    key = jax.random.PRNGKey(1)
    E0, H0 = sim.random_fields(rng, arrays, objects, scale=1e-3)
    arrays = sim.set_fields(arrays, E0, H0)

    def rel(a, b):
        return jnp.max(jnp.abs(a - b)), jnp.max(jnp.abs(b))

    def body(state, _):
        new = sim.forward_step(state, built, key=key, record_boundaries=True)
        back = sim.backward_step(new, built, key=key)
        eE, sE = rel(back[1].fields.E, state[1].fields.E)
        eH, sH = rel(back[1].fields.H, state[1].fields.H)
        return new, (eE, sE, eH, sH, back[0] - state[0])

    @jax.jit
    def go(arr):
        return jax.lax.scan(body, (jnp.asarray(0, dtype=jnp.int32), arr), None, length=T)

    final, (eE, sE, eH, sH, dstep) = go(arrays)
    eE, sE, eH, sH, dstep = (np.asarray(x) for x in (eE, sE, eH, sH, dstep))

    # random states at random time indices
    n_rand = 3

    @jax.jit
    def one(arr, t):
        st = (t, arr)
        new = sim.forward_step(st, built, key=key, record_boundaries=True)
        back = sim.backward_step(new, built, key=key)
        return rel(back[1].fields.E, arr.fields.E) + rel(back[1].fields.H, arr.fields.H) + (back[0] - t,)

    rE, rsE, rH, rsH, rd = [], [], [], [], []
    for _ in range(n_rand):
        E, H = sim.random_fields(rng, arrays, objects, scale=float(10 ** rng.uniform(-4, 0)))
        t = jnp.asarray(int(rng.integers(0, T)), dtype=jnp.int32)
        a, b, c, d, e = one(sim.set_fields(arrays, E, H), t)
        rE.append(float(a)); rsE.append(float(b)); rH.append(float(c)); rsH.append(float(d)); rd.append(int(e))

    tol = 1e-9
    if meta["lossy"]:
        tol *= 4.0  # 1/(1-a_max) with a_max <= 0.5 plus slack for sigma_H
    if meta["material_tier"] == "full":
        tol *= 16.0
    sig = (
        tuple(meta["axis_kinds"]),
        meta["material_tier"],
        meta["lossy"],
        meta["magnetic"],
        tuple(sorted(meta["source_kinds"])),
        tuple(sorted(set(meta["switch_kinds"]))),
        scene["grid"]["kind"],
    )
    for k in meta["source_kinds"]:
        r.branch("source:" + k)
    for k in meta["switch_kinds"]:
        r.branch("switch:" + k)
    for k in meta["profile_kinds"]:
        r.branch("profile:" + k)
    for k in meta["axis_kinds"]:
        r.branch("axis:" + k)
    r.branch("tier:" + meta["material_tier"] + ("+lossy" if meta["lossy"] else ""))
    r.branch("grid:" + scene["grid"]["kind"])
    r.count("roundtrips", T + n_rand)
    wit = {"scene_params": sc, "meta": meta}
    scale_all = max(float(sE.max()), float(sH.max() * 376.73), 1e-300)
    bad = None
    for name, e, s, f in (("E", eE, sE, 1.0), ("H", eH, sH, 376.73)):
        # a component is judged against the larger of its own norm and the partner field's norm (E ~ eta0*H)
        relerr = e * f / np.maximum(np.maximum(s * f, 0), scale_all)
        r.worst(f"worst_rel_err_{name}", float(relerr.max()))
        k = int(np.argmax(relerr))
        if relerr[k] > tol or not np.all(np.isfinite(e)):
            bad = (name, k, float(relerr[k]))
            break
    if bad is None and np.any(dstep != 0):
        r.violate("time index not restored by backward(forward(s))", {**wit, "dstep": dstep.tolist()}, sig=sig)
    elif bad is not None:
        r.violate(
            f"backward(forward(s)) != s in {bad[0]} at step {bad[1]}: rel err {bad[2]:.3e} > {tol:.1e}",
            {**wit, "field": bad[0], "step": bad[1], "rel_err": bad[2]},
            sig=sig,
        )
    else:
        r.ok(sig if scale_all > 1e-200 else None, n=T)
    for i in range(n_rand):
        sc_all = max(rsE[i], rsH[i] * 376.73, 1e-300)
        e = max(rE[i], rH[i] * 376.73) / sc_all
        r.worst("worst_rel_err_random_state", e)
        if rd[i] != 0 or not (e <= tol):
            r.violate(f"random state round trip: rel err {e:.3e}, dstep {rd[i]}", {**wit, "random_state": i}, sig=sig)
        else:
            r.ok(sig)
    r.sample = {"params": sc, "meta": meta, "worst_E": float((eE / np.maximum(sE, 1e-300)).max())}

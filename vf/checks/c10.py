"""C10 — fields are linear in sources and initial state; quadratic records scale with the square.

Metamorphic monitor over families of real runs of one scene: each source alone (factor 1), all sources with
random static_amplitude_factors, everything scaled by a common factor, and an initial state alone / together
with the sources (stepped with the real forward(), detectors recording).
"""

from __future__ import annotations

PROPERTY = "C10"
RULE = (
    "seeded scenes (PML subsets / periodic / walls, iso or diag materials, optional loss, half of them with a Lorentz or Drude box) with 2-3 sources out of "
    "dipole, magnetic dipole, tilted dipole, uniform plane, Gaussian plane (random switches and profiles) and 2-4 "
    "detectors (field, phasor: linear; energy, poynting: quadratic). distinct = (relation, source kinds, detector "
    "kinds, has_pml); non-trivial iff the combined run's fields are non-zero"
)
REQUIRED_COUNTERS = ["runs", "comparisons"]
ASSUMPTIONS = ["float64; tolerance 1e-9 relative to the largest term of the superposition"]
CASE_TIMEOUT = {"quick": 1200, "thorough": 3000}


def cases(tier, rng):
    n = 12 if tier == "quick" else 70
    return [
        {"seed": int(rng.integers(1 << 30)), "steps": int(rng.integers(8, 22 if tier == "quick" else 45)), "pml": ["some", None, "all"][i % 3], "mclass": i}
        for i in range(n)
    ]


def run_case(case):
    from vf import bootstrap
    from vf.result import Res

    bootstrap.ensure()
    r = Res()
    _one(case, r)
    return r.to_dict()


def _one(sc, r):
    import copy

    import jax
    import jax.numpy as jnp
    import numpy as np

    from vf import gen, scenes, sim

    rng = np.random.default_rng(sc["seed"])
    T = sc["steps"]
    scene = gen.random_scene(
        rng,
        steps=T,
        interior=(4, 7),
        pml=sc["pml"],
        pml_thickness=(1, 3),
        materials=["none", "iso", "iso", "diag"][int(rng.integers(4))],
        lossy=bool(rng.random() < 0.3),
        n_sources=(2, 3),
        source_kinds=("dipole", "mdipole", "tilted_dipole", "uniform", "gaussian"),
        detectors=("field", "phasor", "energy", "poynting"),
        n_detectors=(2, 4),
        grid=("uniform", "uniform", "rect"),
        material_class=sc.get("mclass"),
    )
    meta = scene["meta"]
    # half of the scenes carry a (stable) dispersive box: dispersion switches the plane sources to a separate
    # injection path (pre-computed H-side temporal profile) that must be just as linear
    meta["dispersive"] = bool(rng.random() < 0.5)
    if meta["dispersive"]:
        dtn = 0.99 * 50e-9 / (np.sqrt(3.0) * 299792458.0)
        ilo, ihi = scenes.interior_box(scene)
        pole = [{"kind": "lorentz", "w0": 0.9 / dtn, "gamma": 0.05 / dtn, "deps": 1.0}, {"kind": "drude", "wp": 0.1 / dtn, "gamma": 0.02 / dtn}][int(rng.integers(2))]
        scene["materials"].append({"lo": [h - 2 for h in ihi], "hi": list(ihi), "mat": {"eps": 2.0, "dispersion": {"poles": [pole]}}, "order": 5})
    for s in scene["sources"]:
        s["factor"] = 1.0
    nsrc = len(scene["sources"])
    factors = [float(x) for x in rng.uniform(-2.0, 2.0, size=nsrc)]
    common = float(rng.choice([-1.5, 0.5, 2.0, 3.0]))
    lin = {f"det{i}" for i, d in enumerate(scene["detectors"]) if d["kind"] in ("field", "phasor")}
    quad = {f"det{i}" for i, d in enumerate(scene["detectors"]) if d["kind"] in ("energy", "poynting")}

    def run(sc_):
        b = scenes.build(sc_)
        st = scenes.run(b)
        r.count("runs")
        return b, np.asarray(st[1].fields.E), np.asarray(st[1].fields.H), scenes.detector_arrays(st[1])

    singles = []
    for i in range(nsrc):
        s_i = copy.deepcopy(scene)
        s_i["sources"] = [copy.deepcopy(scene["sources"][i])]
        singles.append(run(s_i))
    s_all = copy.deepcopy(scene)
    for s, f in zip(s_all["sources"], factors):
        s["factor"] = f
    b_all, E_all, H_all, D_all = run(s_all)
    s_sc = copy.deepcopy(s_all)
    for s in s_sc["sources"]:
        s["factor"] = s["factor"] * common
    _, E_sc, H_sc, D_sc = run(s_sc)

    nontriv = float(np.abs(E_all).max()) > 0
    base_sig = (tuple(sorted(meta["source_kinds"])), tuple(sorted(meta["detector_kinds"])), bool(meta["pml_faces"]), meta["dispersive"])
    r.branch("dispersive_scene" if meta["dispersive"] else "non_dispersive_scene")
    r.branch("material_class:" + str(meta.get("material_class", "none")))
    for k in meta["source_kinds"]:
        r.branch("source:" + k)
    for k in meta["detector_kinds"]:
        r.branch("det:" + k)
    wit = {"case": sc, "meta": meta, "factors": factors, "common": common}

    def close(name, got, terms, rel, sig, atol=0.0):
        want = sum(terms)
        scale = max([float(np.abs(t).max()) for t in terms] + [0.0])
        err = float(np.abs(got - want).max())
        r.count("comparisons")
        if err <= atol and scale <= 10.0 * atol:
            # a record that is itself only the round-off residue of cancelling products (see flux_floor below)
            r.ok(None)
            r.count("flux_records_at_cancellation_level")
            return
        relerr = err / scale if scale > 0 else (0.0 if err == 0 else float("inf"))
        r.worst("worst_rel_err_" + rel, relerr)
        if relerr <= 1e-9 or err <= atol:
            r.ok(sig if (nontriv and scale > 0) else None)
        else:
            r.violate(f"{rel}: {name} violates the relation, rel err {relerr:.3e}", {**wit, "array": name, "rel_err": relerr}, sig=sig)

    sig = ("superposition",) + base_sig
    close("E", E_all, [f * s[1] for f, s in zip(factors, singles)], "superposition", sig)
    close("H", H_all, [f * s[2] for f, s in zip(factors, singles)], "superposition", sig)
    for k in D_all:
        if k.split("/")[0] in lin:
            close(k, D_all[k], [f * s[3][k] for f, s in zip(factors, singles)], "superposition", sig)
    sig = ("scaling",) + base_sig
    close("E", E_sc, [common * E_all], "scaling", sig)
    for k in D_all:
        name = k.split("/")[0]
        if name in lin:
            close(k, D_sc[k], [common * D_all[k]], "scaling", sig)
        elif name in quad:
            # a Poynting flux is a sum of products E_i*H_j of both signs: it is only defined up to the round-off of its
            # largest term. Records far below 1e-10 of (max|E| max|H| area) are cancellation residue (seen: 6e-51 from
            # fields of 1e-17 scaling by -4 instead of 9) and carry no information about the relation.
            dd = scene["detectors"][int(name[3:])]
            flux_floor = 0.0
            if dd["kind"] == "poynting":
                ncell = int(np.prod([h - l for l, h in zip(dd["lo"], dd["hi"])]))
                flux_floor = 1e-10 * common**2 * float(np.abs(E_all).max()) * float(np.abs(H_all).max()) * ncell * (2 * 50e-9) ** 2
            close(k, D_sc[k], [common**2 * D_all[k]], "quadratic_scaling", ("quadratic",) + base_sig, atol=flux_floor)

    # ---- initial state: stepped with forward(), detectors recording --------------------------------
    arrays = b_all["arrays"]
    E0, H0 = sim.random_fields(rng, arrays, b_all["objects"], scale=float(np.abs(E_all).max() or 1e-3))
    m = jnp.asarray(sim.pml_mask(b_all, tuple(scene["shape"])))[None]
    E0, H0 = E0 * m, H0 * m * (1.0 / 376.73)
    key = jax.random.PRNGKey(0)

    def stepped(built, arr):
        def body(state, _):
            return sim.forward_step(state, built, key=key, record_detectors=True), None

        fin, _ = jax.jit(lambda a: jax.lax.scan(body, (jnp.asarray(0, dtype=jnp.int32), a), None, length=T))(arr)
        r.count("runs")
        return np.asarray(fin[1].fields.E), np.asarray(fin[1].fields.H), scenes.detector_arrays(fin[1])

    s_none = copy.deepcopy(s_all)
    s_none["sources"] = []
    b_none = scenes.build(s_none)
    Ei, Hi, Di = stepped(b_none, sim.set_fields(b_none["arrays"], E0, H0))
    Eb, Hb, Db = stepped(b_all, sim.set_fields(arrays, E0, H0))
    sig = ("initial_state",) + base_sig
    close("E", Eb, [E_all, Ei], "initial_state", sig)
    close("H", Hb, [H_all, Hi], "initial_state", sig)
    for k in D_all:
        if k.split("/")[0] in lin:
            close(k, Db[k], [D_all[k], Di[k]], "initial_state", sig)
    r.sample = {"case": sc, "meta": meta, "factors": factors, "common": common}

"""C23 — fabrication clean-up keeps exactly the connected material.

`RemoveFloatingMaterial`   : (output != background) must equal the face-adjacency BFS component of the
                             bottom layer (z == 0) inside the input material mask, cell for cell.
`ConnectHolesAndStructures`: in the output every material cell is BFS-reachable from the bottom layer through
                             material and every background cell is BFS-reachable from the four sides / the top
                             through background; output values are valid material indices.

The oracle is `vf.oracles.connectivity` (level-synchronous numpy BFS with graph distances, cross-checked
against an independent pure-python queue BFS).  The transforms are the real fdtdx modules, initialised the
way a Device initialises them (`init_module` + `init_type`) and called both eagerly and under `jax.jit`.

Mechanism keys (a violation is classified only when the deterministic classifier below matches, anything
else stays an unclassified violation):
  * "flood-fill-sweep-limit"             : RemoveFloatingMaterial keeps no cell it should not keep, and every
                                           connected cell it dropped lies at BFS graph distance > max(shape)
                                           (= number of dilation sweeps of compute_polymer_connection).
  * "single-layer-seed-in-zero-padding"  : nz == 1, the input has material (all of it is the bottom layer)
                                           and RemoveFloatingMaterial returns no material at all.
"""

from __future__ import annotations

PROPERTY = "C23"
RULE = (
    "designs = seeded random (iid density 0.2-0.8, smoothed blobs, pillars+islands, empty/full/one-cell) and "
    "adversarial families (serpentine in xz / yz / raised xy, 3-D serpentine, square spiral, comb, diagonal "
    "staircase, sealed air-serpentine = complement) on shapes 3..24 per axis plus nz==1 and tiny shapes; x "
    "material configs (2 materials with background index 0 or 1, 3 materials with fill material) x dtype x "
    "eager/jit.  One evaluation = one transform call judged by the BFS oracle.  Non-trivial (sig) = the input "
    "actually contained floating material / enclosed background (so the transform had to act) or connected "
    "material farther than 1 step from the bottom; sig = (transform, family, material config, shape class, "
    "distance class)"
)
REQUIRED_COUNTERS = ["rf_judged", "chs_judged", "rf_inputs_with_floating", "chs_inputs_infeasible", "oracle_crosschecks"]
ASSUMPTIONS = [
    "bottom layer = z index 0; adjacency = 6 face neighbours; sides/top = x=0, x=-1, y=0, y=-1, z=-1 faces",
    "material = cells whose index differs from the background index (ordering by permittivity, recomputed here)",
    "shapes with an axis < 3 that make jax convolve2d raise ValueError are recorded as rejected, not judged",
    "ConnectHolesAndStructures is only required to produce a feasible design, not a particular one",
]
CASE_TIMEOUT = {"quick": 600, "thorough": 1800}

FAMILIES = ["serp_xz", "serp_yz", "serp_xy", "serp_3d", "spiral_xz", "spiral_xy", "comb", "stair", "air_serp", "air_spiral"]
SWEEP_KEY = "flood-fill-sweep-limit"
Z1_KEY = "single-layer-seed-in-zero-padding"


def EXHAUSTIVE(tier):
    return False


# ------------------------------------------------------------------------------------------------
# case enumeration (numpy only)
# ------------------------------------------------------------------------------------------------
def _chs_shape(rng, budget, lo=4, hi=11):
    """Small shape for ConnectHolesAndStructures: its jit cost grows with nz * max(shape) (unrolled sweeps)."""
    for _ in range(100):
        s = [int(rng.integers(lo, hi)), int(rng.integers(lo, hi)), int(rng.integers(3, 9))]
        if s[2] * max(s) <= budget:
            return s
    return [lo, lo, 3]


def cases(tier, rng):
    quick = tier == "quick"
    out = []
    mats = ["m2_bg0", "m2_bg1", "m3_bg0", "m3_bg1", "m3_bg2"]
    # random designs
    n_rand = 6 if quick else 70
    for i in range(n_rand):
        rf_shapes = []
        for j in range(3 if quick else 5):
            hi = 25 if j == 0 else 13
            s = [int(rng.integers(3, hi)) for _ in range(3)]
            if rng.random() < 0.3:
                s[int(rng.integers(3))] = 3
            rf_shapes.append(s)
        chs_shapes = [_chs_shape(rng, 40 if quick else 60, lo=3)]
        if not quick and i % 5 == 0:
            chs_shapes.append([int(rng.integers(8, 17)) for _ in range(3)])
        out.append(
            {
                "kind": "random",
                "rf_shapes": rf_shapes,
                "chs_shapes": chs_shapes,
                "n_rf": 22 if quick else 60,
                "n_chs": 44 if quick else 120,
                "mat": mats[i % 5],
                "dtype": ["float32", "int32", "float64"][i % 3],
            }
        )
    # adversarial designs
    n_adv = 1 if quick else 8
    for rep in range(n_adv):
        for j, fam in enumerate(FAMILIES):
            rf_shapes = [[9, 3, 9] if fam == "serp_xz" else [9, 9, 9]] if rep == 0 else []
            for _ in range(1 if quick else 3):
                rf_shapes.append([int(rng.integers(5, 17 if quick else 25)) for _ in range(3)])
            chs_shapes = [_chs_shape(rng, 45 if quick else 70, lo=5)]
            if not quick and rep % 4 == 1:
                chs_shapes.append([int(rng.integers(9, 15)) for _ in range(3)])
            out.append(
                {
                    "kind": "adversarial",
                    "family": fam,
                    "rf_shapes": rf_shapes,
                    "chs_shapes": chs_shapes,
                    "reps": 2 if quick else 4,
                    "mat": mats[(j + rep) % 5],
                    "dtype": ["float32", "int32"][(j + rep) % 2],
                }
            )
    # single-layer and tiny shapes
    out.append({"kind": "flat", "shapes": [[5, 5, 1], [3, 8, 1], [12, 4, 1], [1, 1, 1]], "mat": "m2_bg0", "dtype": "float32"})
    out.append({"kind": "flat", "shapes": [[7, 6, 1], [3, 3, 1]], "mat": "m2_bg1", "dtype": "int32"})
    out.append(
        {
            "kind": "tiny",
            "shapes": [[3, 3, 3], [3, 3, 2], [2, 2, 2], [2, 3, 3], [3, 2, 3], [2, 2, 3], [1, 5, 5], [5, 2, 5], [5, 5, 2], [1, 1, 4]],
            "mat": "m2_bg0",
            "dtype": "float32",
        }
    )
    return out


# ------------------------------------------------------------------------------------------------
# design generators (numpy only; all return bool material masks of the requested shape)
# ------------------------------------------------------------------------------------------------
def serp2d(p, q, lane=1, gap=1):
    """Rows along axis 0 at axis-1 offsets 0, lane+gap, ...; consecutive rows joined at alternating ends."""
    import numpy as np

    a = np.zeros((p, q), bool)
    period = lane + gap
    k = 0
    b = 0
    while b + lane <= q:
        a[:, b : b + lane] = True
        nb = b + period
        if nb + lane <= q:
            if k % 2 == 0:
                a[p - 1, b : nb + lane] = True
            else:
                a[0, b : nb + lane] = True
        b = nb
        k += 1
    return a


def spiral2d(p, q):
    """Square inward spiral path of width 1 with gap 1, starting at (0, 0) and first running along axis 0."""
    import numpy as np

    a = np.zeros((p, q), bool)
    x, y = 0, 0
    dx, dy = 1, 0
    a[0, 0] = True
    for _ in range(p * q):
        nx, ny = x + dx, y + dy
        n2x, n2y = x + 2 * dx, y + 2 * dy
        blocked = not (0 <= nx < p and 0 <= ny < q) or a[nx, ny]
        if not blocked and 0 <= n2x < p and 0 <= n2y < q and a[n2x, n2y]:
            blocked = True
        if blocked:
            dx, dy = -dy, dx
            nx, ny = x + dx, y + dy
            n2x, n2y = x + 2 * dx, y + 2 * dy
            if not (0 <= nx < p and 0 <= ny < q) or a[nx, ny]:
                break
            if 0 <= n2x < p and 0 <= n2y < q and a[n2x, n2y]:
                break
        x, y = nx, ny
        a[x, y] = True
    return a


def adversarial(family, shape, rng):
    """Returns (mask, params dict) for one adversarial design."""
    import numpy as np

    nx, ny, nz = shape
    m = np.zeros(shape, bool)
    lane = int(rng.integers(1, 3)) if min(shape) >= 8 else 1
    gap = int(rng.integers(1, 3)) if min(shape) >= 8 else 1
    par = {"lane": lane, "gap": gap}
    if family in ("serp_xz", "spiral_xz"):
        s = serp2d(nx, nz, lane, gap) if family == "serp_xz" else spiral2d(nx, nz)
        y0 = int(rng.integers(0, ny))
        t = int(rng.integers(1, 3))
        m[:, y0 : y0 + t, :] = s[:, None, :]
        par.update(y0=y0, t=t)
    elif family == "serp_yz":
        s = serp2d(ny, nz, lane, gap)
        x0 = int(rng.integers(0, nx))
        m[x0 : x0 + 1, :, :] = s[None, :, :]
        par.update(x0=x0)
    elif family in ("serp_xy", "spiral_xy", "stair"):
        if family == "serp_xy":
            s = serp2d(nx, ny, lane, gap)
        elif family == "spiral_xy":
            s = spiral2d(nx, ny)
        else:
            s = np.zeros((nx, ny), bool)
            for i in range(max(nx, ny) * 2):
                x, y = (i + 1) // 2, i // 2
                if x < nx and y < ny:
                    s[x, y] = True
        z0 = int(rng.integers(1, nz))
        m[:, :, z0] = s
        m[0, 0, :z0] = True  # single foot under the start of the path
        par.update(z0=z0)
    elif family == "serp_3d":
        s = serp2d(nx, ny, 1, 1)
        ends = [(0, 0)]
        # the serpentine ends in its last lane, at x = 0 or nx-1 depending on the lane parity
        last = ((ny - 1) // 2) * 2
        k = last // 2
        ends.append(((0 if k % 2 == 0 else nx - 1), last))
        m[0, 0, 0] = True
        zs = list(range(1, nz, 2))
        for i, z in enumerate(zs):
            m[:, :, z] = s
            if z + 2 < nz:
                e = ends[(i + 1) % 2]
                m[e[0], e[1], z + 1] = True
        par.update(layers=len(zs))
    elif family == "comb":
        m[:, :, 0] = rng.random((nx, ny)) < 0.5
        for x in range(0, nx, 2):
            for y in range(0, ny, 2):
                h = int(rng.integers(0, nz + 1))
                m[x, y, :h] = True
                if rng.random() < 0.5 and h + 2 < nz:
                    m[x, y, h + 1 :] = True  # floating continuation of the tooth
    elif family in ("air_serp", "air_spiral"):
        # solid block with a serpentine / spiral AIR channel in one interior xy layer and one chimney to the top
        m[:] = True
        s = serp2d(nx - 2, ny - 2, 1, 1) if family == "air_serp" else spiral2d(nx - 2, ny - 2)
        z0 = int(rng.integers(1, nz - 1))
        m[1:-1, 1:-1, z0] = ~s
        chim = bool(rng.integers(2))
        if chim:
            m[1, 1, z0:] = False
        par.update(z0=z0, chimney=chim)
    else:
        raise ValueError(family)
    return m, par


def random_design(style, shape, rng):
    import numpy as np

    if style == "iid":
        dens = float(rng.uniform(0.2, 0.8))
        return rng.random(shape) < dens, {"density": round(dens, 3)}
    if style == "blob":
        a = rng.random(shape)
        for ax in range(3):
            if shape[ax] >= 3:
                b = a.copy()
                sl = [slice(None)] * 3
                s1 = list(sl)
                s2 = list(sl)
                s1[ax] = slice(1, None)
                s2[ax] = slice(None, -1)
                b[tuple(s1)] += a[tuple(s2)]
                b[tuple(s2)] += a[tuple(s1)]
                a = b / 3.0
        thr = float(np.quantile(a, rng.uniform(0.3, 0.7)))
        return a > thr, {"threshold": thr}
    if style == "pillars":
        m = np.zeros(shape, bool)
        for _ in range(int(rng.integers(1, 6))):
            x, y = int(rng.integers(shape[0])), int(rng.integers(shape[1]))
            m[x, y, : int(rng.integers(0, shape[2] + 1))] = True
        for _ in range(int(rng.integers(1, 6))):
            lo = [int(rng.integers(0, s)) for s in shape]
            hi = [int(rng.integers(l + 1, min(s, l + 4) + 1)) for l, s in zip(lo, shape)]
            m[lo[0] : hi[0], lo[1] : hi[1], lo[2] : hi[2]] = True
        return m, {}
    if style == "shell":
        # closed box of material with air inside (enclosed background) and a floating core
        m = np.zeros(shape, bool)
        lo = [int(rng.integers(0, max(1, s - 2))) for s in shape]
        hi = [int(rng.integers(min(s, l + 3), s + 1)) for l, s in zip(lo, shape)]
        m[lo[0] : hi[0], lo[1] : hi[1], lo[2] : hi[2]] = True
        m[lo[0] + 1 : hi[0] - 1, lo[1] + 1 : hi[1] - 1, lo[2] + 1 : hi[2] - 1] = False
        if min(h - l for l, h in zip(lo, hi)) >= 5:
            m[lo[0] + 2 : hi[0] - 2, lo[1] + 2 : hi[1] - 2, lo[2] + 2 : hi[2] - 2] = True
        return m, {"lo": lo, "hi": hi}
    if style == "empty":
        return np.zeros(shape, bool), {}
    if style == "full":
        return np.ones(shape, bool), {}
    if style == "one":
        m = np.zeros(shape, bool)
        m[tuple(int(rng.integers(s)) for s in shape)] = True
        return m, {}
    if style == "no_bottom":
        m = rng.random(shape) < 0.6
        m[:, :, 0] = False
        return m, {}
    raise ValueError(style)


# ------------------------------------------------------------------------------------------------
# fdtdx side
# ------------------------------------------------------------------------------------------------
def _materials(mat):
    """-> (materials dict, background_material arg, fill_material arg, bg index, fill index, n materials)."""
    from fdtdx.materials import Material

    if mat.startswith("m2"):
        perms = {"low": 1.0, "high": 11.7}
    else:
        perms = {"mid": 2.25, "high": 11.7, "low": 1.0}
    order = sorted(perms, key=lambda k: perms[k])  # documented ordering: ascending permittivity
    bg = int(mat[-1])
    materials = {k: Material(permittivity=v) for k, v in perms.items()}
    bg_arg = None if bg == 0 else order[bg]
    fill_arg, fill_idx = None, None
    if len(perms) == 3:
        fill_idx = [i for i in range(3) if i != bg][-1 if bg == 0 else 0]
        fill_arg = order[fill_idx]
    else:
        fill_idx = 1 - bg
    return materials, bg_arg, fill_arg, bg, fill_idx, len(perms), order


class _Tf:
    """Builds (and caches per shape) the initialised transforms and their jitted callables."""

    def __init__(self, mat):
        import fdtdx

        self.fdtdx = fdtdx
        self.mat = mat
        self.materials, self.bg_arg, self.fill_arg, self.bg, self.fill_idx, self.nmat, order = _materials(mat)
        from fdtdx.materials import compute_ordered_names

        got = compute_ordered_names(self.materials)
        if list(got) != list(order):
            from vf.result import HarnessInconclusive

            raise HarnessInconclusive(f"material ordering differs from ascending permittivity: {got} vs {order}")
        self.cfg = fdtdx.SimulationConfig(time=100e-15, grid=fdtdx.UniformGrid(spacing=100e-9), backend="cpu")
        self.cache = {}

    def get(self, which, shape):
        import jax

        key = (which, tuple(shape))
        if key in self.cache:
            return self.cache[key]
        fdtdx = self.fdtdx
        from fdtdx.typing import ParameterType

        if which == "rf":
            t = fdtdx.RemoveFloatingMaterial(background_material=self.bg_arg)
        else:
            t = fdtdx.ConnectHolesAndStructures(background_material=self.bg_arg, fill_material=self.fill_arg)
        t = t.init_module(
            config=self.cfg,
            materials=self.materials,
            matrix_voxel_grid_shape=tuple(shape),
            single_voxel_size=(1e-7, 1e-7, 1e-7),
            output_shape={"p": tuple(shape)},
        )
        t = t.init_type({"p": ParameterType.BINARY if self.nmat == 2 else ParameterType.DISCRETE})
        eager = lambda a: t({"p": a})["p"]  # noqa: E731
        jitted = jax.jit(eager)
        self.cache[key] = (eager, jitted)
        return self.cache[key]


def _to_params(mask, tf, dtype, rng):
    """Material mask -> index array as the device would hand it to the transform."""
    import numpy as np

    nonbg = [i for i in range(tf.nmat) if i != tf.bg]
    if len(nonbg) == 1:
        vals = np.full(mask.shape, nonbg[0])
    else:
        vals = rng.choice(nonbg, size=mask.shape)
    p = np.where(mask, vals, tf.bg)
    return p.astype(dtype)


def _small_axis_rejection(e):
    return isinstance(e, ValueError) and "smaller than the other in every dimension" in str(e)


def _shape_class(shape):
    mx, mn = max(shape), min(shape)
    return f"{'1' if mn == 1 else '2' if mn == 2 else '3' if mn == 3 else 'm'}-{'s' if mx <= 6 else 'm' if mx <= 12 else 'l'}"


def _witness(meta, mask, extra=None):
    w = dict(meta)
    if mask.size <= 400:
        w["material_mask_xyz"] = mask.astype(int).tolist()
    if extra:
        w.update(extra)
    return w


# ------------------------------------------------------------------------------------------------
# judges
# ------------------------------------------------------------------------------------------------
def judge_rf(r, tf, mask, meta, dtype, rng, use_jit, family):
    import jax.numpy as jnp
    import numpy as np

    from vf.oracles import connectivity as co

    shape = mask.shape
    eager, jitted = tf.get("rf", shape)
    p = _to_params(mask, tf, dtype, rng)
    try:
        out = np.asarray((jitted if use_jit else eager)(jnp.asarray(p)))
    except ValueError as e:
        if min(shape) < 3 and _small_axis_rejection(e):
            r.branch("rf:rejected-small-axis")
            return
        raise
    r.count("rf_judged")
    r.branch(f"rf:{'jit' if use_jit else 'eager'}")
    dist = co.bfs_distance(mask, co.bottom_seed(shape))
    want = dist >= 0
    if mask.size <= 1500 or int(r.counters.get("oracle_crosschecks", 0)) < 3:
        r.count("oracle_crosschecks")
        if not np.array_equal(co.bfs_component_py(mask, co.bottom_seed(shape)), want):
            r.inconclusive("the two BFS oracles disagree")
            return
    floating = int((mask & ~want).sum())
    maxd = int(dist.max()) if want.any() else -1
    n_sweeps = max(shape)
    if floating:
        r.count("rf_inputs_with_floating")
    if maxd > n_sweeps:
        r.count("rf_inputs_deeper_than_max_shape")
    r.worst("rf_max_graph_distance_over_max_shape", maxd / n_sweeps)
    dcls = "deep" if maxd > n_sweeps else "far" if maxd > 1 else "near"
    sig = ("rf", family, tf.mat, _shape_class(shape), dcls, bool(floating)) if (floating or maxd > 1) else None
    meta = dict(meta, transform="RemoveFloatingMaterial", mat=tf.mat, dtype=dtype, jit=use_jit, shape=list(shape))
    if out.shape != tuple(shape):
        r.violate("RemoveFloatingMaterial changed the array shape", _witness(meta, mask, {"got_shape": list(out.shape)}), sig=sig)
        return
    if not np.isin(out, [0, 1]).all():
        r.violate(
            "RemoveFloatingMaterial output contains values other than the two material indices",
            _witness(meta, mask, {"values": np.unique(out).tolist()[:10]}),
            sig=sig,
        )
        return
    got = out != tf.bg
    if np.array_equal(got, want):
        r.ok(sig)
        if r.sample is None and floating:
            r.sample = {
                "transform": "RemoveFloatingMaterial",
                "family": family,
                "shape": list(shape),
                "material_cells": int(mask.sum()),
                "connected_cells": int(want.sum()),
                "max_graph_distance": maxd,
            }
        return
    missed = want & ~got
    extra = got & ~want
    mech = None
    if shape[2] == 1 and mask.any() and not got.any():
        mech = Z1_KEY
    elif not extra.any() and missed.any() and int(dist[missed].min()) > n_sweeps:
        mech = SWEEP_KEY
    r.branch(f"rf:mismatch:{mech or 'unclassified'}")
    idx = np.argwhere(missed | extra)[0]
    r.violate(
        f"RemoveFloatingMaterial != BFS component of the bottom layer: dropped {int(missed.sum())} connected cells, "
        f"kept {int(extra.sum())} floating cells (material {int(mask.sum())}, connected {int(want.sum())}, kept {int(got.sum())})",
        _witness(
            meta,
            mask,
            {
                "connected_cells": int(want.sum()),
                "kept_cells": int(got.sum()),
                "dropped_connected": int(missed.sum()),
                "kept_floating": int(extra.sum()),
                "min_graph_distance_of_dropped": int(dist[missed].min()) if missed.any() else None,
                "max_graph_distance": maxd,
                "sweeps_max_shape": n_sweeps,
                "first_bad_cell": [int(i) for i in idx],
            },
        ),
        mechanism=mech,
        sig=sig,
    )


def judge_chs(r, tf, mask, meta, dtype, rng, use_jit, family):
    import jax.numpy as jnp
    import numpy as np

    from vf.oracles import connectivity as co

    shape = mask.shape
    eager, jitted = tf.get("chs", shape)
    p = _to_params(mask, tf, dtype, rng)
    try:
        out = np.asarray((jitted if use_jit else eager)(jnp.asarray(p)))
    except ValueError as e:
        if min(shape) < 3 and _small_axis_rejection(e):
            r.branch("chs:rejected-small-axis")
            return
        raise
    r.count("chs_judged")
    r.branch(f"chs:{'jit' if use_jit else 'eager'}")
    in_float = int((mask & (co.bfs_distance(mask, co.bottom_seed(shape)) < 0)).sum())
    in_encl = int((~mask & (co.bfs_distance(~mask, co.sides_top_seed(shape)) < 0)).sum())
    if in_float or in_encl:
        r.count("chs_inputs_infeasible")
    if in_encl:
        r.count("chs_inputs_with_enclosed_background")
    sig = ("chs", family, tf.mat, _shape_class(shape), bool(in_float), bool(in_encl)) if (in_float or in_encl) else None
    meta = dict(meta, transform="ConnectHolesAndStructures", mat=tf.mat, dtype=dtype, jit=use_jit, shape=list(shape))
    if out.shape != tuple(shape):
        r.violate("ConnectHolesAndStructures changed the array shape", _witness(meta, mask, {"got_shape": list(out.shape)}), sig=sig)
        return
    if not np.isin(out, list(range(tf.nmat))).all():
        r.violate(
            "ConnectHolesAndStructures output contains values that are not material indices",
            _witness(meta, mask, {"values": np.unique(out).tolist()[:10]}),
            sig=sig,
        )
        return
    c = out != tf.bg
    dm = co.bfs_distance(c, co.bottom_seed(shape))
    da = co.bfs_distance(~c, co.sides_top_seed(shape))
    floating = c & (dm < 0)
    enclosed = ~c & (da < 0)
    r.branch("chs:changed" if not np.array_equal(c, mask) else "chs:unchanged")
    if not floating.any() and not enclosed.any():
        r.ok(sig)
        return
    bad = np.argwhere(floating | enclosed)[0]
    r.branch("chs:mismatch")
    r.violate(
        f"ConnectHolesAndStructures output is infeasible: {int(floating.sum())} floating material cells, "
        f"{int(enclosed.sum())} enclosed background cells",
        _witness(
            meta,
            mask,
            {
                "floating_cells_out": int(floating.sum()),
                "enclosed_background_cells_out": int(enclosed.sum()),
                "floating_cells_in": in_float,
                "enclosed_background_cells_in": in_encl,
                "first_bad_cell": [int(i) for i in bad],
                "output_material_mask_xyz": c.astype(int).tolist() if c.size <= 400 else None,
            },
        ),
        mechanism=None,
        sig=sig,
    )


# ------------------------------------------------------------------------------------------------
# case runner
# ------------------------------------------------------------------------------------------------
_TF_CACHE = {}


def _tf(mat):
    if mat not in _TF_CACHE:
        _TF_CACHE[mat] = _Tf(mat)
    return _TF_CACHE[mat]


def run_case(case):
    import numpy as np

    from vf import bootstrap
    from vf.result import Res

    bootstrap.ensure()
    r = Res()
    rng = np.random.default_rng(case["seed"])
    tf = _tf(case["mat"])  # ConnectHolesAndStructures: 2 or 3 materials
    tf_rf = _tf("m2_bg" + str(int(case["mat"][-1]) % 2))  # RemoveFloatingMaterial is documented for binary systems only
    dtype = case["dtype"]
    kind = case["kind"]
    if kind == "random":
        styles = ["iid", "iid", "iid", "blob", "blob", "pillars", "shell", "no_bottom", "empty", "full", "one"]
        for which, shapes, n in (("rf", case["rf_shapes"], case["n_rf"]), ("chs", case["chs_shapes"], case["n_chs"])):
            for k, shape in enumerate(shapes):
                shape = tuple(shape)
                for i in range(n):
                    st = styles[i % len(styles)]
                    sub = int(rng.integers(1 << 31))
                    m, par = random_design(st, shape, np.random.default_rng(sub))
                    r.branch(f"design:{st}")
                    meta = {"style": st, "design_seed": sub, "params": par}
                    if which == "rf":
                        judge_rf(r, tf_rf, m, meta, dtype, rng, use_jit=not (i == 0 and k == 0), family=st)
                    else:
                        judge_chs(r, tf, m, meta, dtype, rng, use_jit=True, family=st)
    elif kind == "adversarial":
        fam = case["family"]
        for which, shapes in (("rf", case["rf_shapes"]), ("chs", case["chs_shapes"])):
            for k, shape in enumerate(shapes):
                shape = tuple(shape)
                for i in range(4 * case["reps"]):
                    sub = int(rng.integers(1 << 31))
                    m, par = adversarial(fam, shape, np.random.default_rng(sub))
                    variant = ["plain", "plain", "complement", "noisy"][i % 4]
                    if variant == "complement":  # long air paths, material everywhere else
                        m = ~m
                    elif variant == "noisy":  # noise on top of the structure
                        m = m ^ (np.random.default_rng(sub + 1).random(shape) < 0.03)
                    r.branch(f"design:{fam}:{variant}")
                    meta = {"family": fam, "variant": variant, "design_seed": sub, "params": par}
                    if which == "rf":
                        judge_rf(r, tf_rf, m, meta, dtype, rng, use_jit=not (i == 0 and k == 0), family=f"{fam}:{variant}")
                    else:
                        judge_chs(r, tf, m, meta, dtype, rng, use_jit=True, family=f"{fam}:{variant}")
    else:  # flat / tiny
        styles = ["full", "iid", "one", "empty", "iid", "blob"]
        for k, shape in enumerate(case["shapes"]):
            shape = tuple(shape)
            for i, st in enumerate(styles):
                sub = int(rng.integers(1 << 31))
                m, par = random_design(st, shape, np.random.default_rng(sub))
                r.branch(f"design:{kind}:{st}")
                meta = {"style": st, "design_seed": sub, "params": par}
                judge_rf(r, tf_rf, m, meta, dtype, rng, use_jit=(i != 0), family=f"{kind}:{st}")
                judge_chs(r, tf, m, meta, dtype, rng, use_jit=not (i == 0 and k == 0), family=f"{kind}:{st}")
    return r.to_dict()

"""C37 — grid geometry helpers are exact.

M3: brute-force numpy oracles (vf.oracles.grid_contracts) judge every call of the real
`RectilinearGrid.coord_to_index / bounds_for_center / bounds_for_anchor / anchor_coordinate /
length_to_cell_count / axis_extent / slice_extent / face_area / cell_volume / centers / cell_widths /
min_spacing(s) / cfl_time_step / is_uniform / reduce_symmetric` (and the snapping / time-step helpers of the
`UniformGrid` / `QuasiUniformGrid` policies and `SimulationConfig.time_step_duration`) on seeded hostile edge
arrays.
M5: the same judges are attached as icontract post-conditions to the real class, so calls issued by
`place_objects` on rectilinear scenes (real sizes, real positions, anchors, PML slabs) are judged as well;
their evaluation counters are required to be non-zero.
"""

from __future__ import annotations

PROPERTY = "C37"
RULE = (
    "grids: seeded edge arrays per axis from {uniform, graded, random widths over 3 decades, two-scale, float32} x "
    "{1,2,3,4,7,12,25 cells} x origin {centred, zero, negative, far}; queries: every edge, every midpoint (exact tie), "
    "nextafter neighbours, random, out of range, +-inf x {nearest, lower, upper}; intervals: sizes {1,2,n/2,n-1,n} and "
    "rejected {0,-1,n+1} x centres/anchors at interval centres, ties between candidates, random, outside x positions "
    "{-1,0,1,random}; cfl: uniform spacings {nice, wavelength/N, log-uniform 1e-10..1e-4}, quasi-uniform, stretched, "
    "nearly-uniform x courant factors; is_uniform / reduce_symmetric over all 27 symmetry tuples; placement scenes with "
    "contracts attached.  distinct = (helper, grid kind, origin class, cell-count class, query class)"
)
REQUIRED_COUNTERS = [
    "snap_judged",
    "interval_judged",
    "cfl_judged",
    "reduce_judged",
    "uniform_judged",
    "contract_evals_coord_to_index",
    "contract_evals_bounds_for_center",
    "contract_evals_bounds_for_anchor",
    "contract_evals_in_placement",
]
ASSUMPTIONS = [
    "float ties (|d1-d2| <= 8 eps max|edge|) accept every minimiser",
    "lower/upper snapping is judged only when an edge on the requested side exists",
    "is_uniform is judged only for exactly equispaced edges (must be True) and for a width deviating by >= 1% (must be "
    "False); reduce_symmetric asymmetry is judged at >= 1% (must raise) or exact mirror symmetry (must succeed)",
    "CFL bound judged at rtol 1e-9 on c*dt*sqrt(sum_a 1/min(dx_a)^2) <= courant_factor computed from the raw float64 edges",
]
CASE_TIMEOUT = {"quick": 600, "thorough": 1800}

NS = (1, 2, 3, 4, 7, 12, 25)
KINDS = ("uniform", "graded", "random", "two_scale", "float32")
ORIGINS = ("centred", "zero", "negative", "far")


def cases(tier, rng):
    q = tier == "quick"
    out = []
    for i in range(6 if q else 40):
        out.append({"kind": "helpers", "grids": 6 if q else 60, "extents": False})
    for i in range(4 if q else 28):
        out.append({"kind": "helpers", "grids": 4 if q else 24, "extents": True})
    for i in range(4 if q else 28):
        out.append({"kind": "cfl", "n": 220 if q else 1500})
    for i in range(3 if q else 14):
        out.append({"kind": "uniform_reduce", "n": 40 if q else 160})
    for i in range(3 if q else 14):
        out.append({"kind": "placement", "variant": i})
    return out


def _violate(r, what, witness=None, mechanism=None, sig=None):
    """Record at most two violations per mechanism key and case, so that a frequent (possibly already known)
    mechanism cannot crowd a different one out of the bounded violation list of `Res`."""
    k = f"violations[{mechanism}]"
    r.count(k)
    if r.counters[k] <= 2:
        r.violate(what, witness, mechanism, sig)
    else:
        r.evals += 1
        if sig is not None:
            r.sigs.add(sig if isinstance(sig, str) else repr(sig))



def run_case(case):
    import numpy as np

    from vf.oracles import grid_contracts as gc
    from vf.result import Res

    r = Res()
    if not gc.attach(cfl=False):
        r.inconclusive("icontract could not be installed from the offline wheelhouse")
        return r.to_dict()
    before = dict(gc.COUNTS)
    rng = np.random.default_rng(case["seed"])
    try:
        {"helpers": _helpers, "cfl": _cfl, "uniform_reduce": _uniform_reduce, "placement": _placement}[case["kind"]](case, r, rng)
    except gc.GridContractError as e:
        _violate(r, f"contract: {e}", e.witness, mechanism=e.mechanism)
    for k, v in gc.COUNTS.items():
        d = v - before.get(k, 0)
        if d:
            r.count(f"contract_evals_{k}", d)
            if case["kind"] == "placement":
                r.count("contract_evals_in_placement", d)
    return r.to_dict()


# ------------------------------------------------------------------------------------------------
# generators
# ------------------------------------------------------------------------------------------------
def _edges(rng, kind, n, origin):
    import numpy as np

    scale = float(10 ** rng.uniform(-9, -4))
    if kind in ("uniform", "float32"):
        w = np.full(n, scale)
    elif kind == "graded":
        w = scale * float(rng.uniform(1.05, 1.6)) ** np.arange(n)
        if rng.random() < 0.5:
            w = w[::-1]
    elif kind == "random":
        w = scale * 10 ** rng.uniform(0, 3, n)
    else:
        w = scale * np.where(np.arange(n) % 2 == 0, 1.0, float(rng.uniform(3, 40)))
    ext = float(w.sum())
    o = {"centred": -0.5 * ext, "zero": 0.0, "negative": -ext * float(rng.uniform(1.5, 4)), "far": ext * float(rng.choice([-1, 1])) * 1e3}[origin]
    if kind == "uniform":
        e = o + scale * np.arange(n + 1)
    else:
        e = o + np.concatenate([[0.0], np.cumsum(w)])
    if kind == "float32":
        if origin == "far":
            e = e - o
        e = e.astype(np.float32)
        if np.any(np.diff(e) <= 0):
            e = (scale * np.arange(n + 1)).astype(np.float32)
    return e


def _nclass(n):
    return "n1" if n == 1 else "n2" if n == 2 else "n3-4" if n <= 4 else "n7+"


def _make_grid(fdtdx, edges):
    return fdtdx.RectilinearGrid(x_edges=edges[0], y_edges=edges[1], z_edges=edges[2])


# ------------------------------------------------------------------------------------------------
# helpers: snapping, intervals, extents
# ------------------------------------------------------------------------------------------------
def _helpers(case, r, rng):
    import numpy as np

    from vf import bootstrap
    from vf.oracles import grid_contracts as gc

    fdtdx = bootstrap.ensure()
    for gi in range(case["grids"]):
        kind = KINDS[int(rng.integers(len(KINDS)))]
        origin = ORIGINS[int(rng.integers(len(ORIGINS)))]
        ns = [int(NS[int(rng.integers(len(NS)))]) for _ in range(3)]
        if gi % 5 == 0:
            ns[int(rng.integers(3))] = 1
        edges = [_edges(rng, kind, n, origin) for n in ns]
        # float32 grids: all three axes float32; otherwise float64
        grid = _make_grid(fdtdx, edges)
        E = [np.asarray(grid.edges(a)) for a in range(3)]
        for a in range(3):
            if E[a].dtype != edges[a].dtype or not np.array_equal(E[a], edges[a]):
                _violate(r, "edges(axis) does not return the constructor's edge array", {"axis": a, "edges": edges[a].tolist()})
        r.branch(f"grid:{kind}")
        r.branch(f"origin:{origin}")
        if case["extents"]:  # every distinct slice shape costs an XLA compilation inside the library
            _extent_queries(r, rng, grid, E, kind, origin)
        else:
            for a in range(3):
                _snap_queries(r, rng, grid, a, E[a], kind, origin)
                _interval_queries(r, rng, grid, a, E[a], kind, origin)
        if r.sample is None:
            r.sample = {"grid_kind": kind, "origin": origin, "x_edges": [float(x) for x in E[0][:6]], "shape": list(grid.shape)}
    del gc


def _snap_queries(r, rng, grid, a, e, kind, origin):
    import numpy as np

    from vf.oracles import grid_contracts as gc

    e64 = e.astype(np.float64)
    n = len(e) - 1
    ext = float(e64[-1] - e64[0])
    qs = []
    for x in e64:
        qs.append(("on_edge", float(x)))
        qs.append(("just_below", float(np.nextafter(x, -np.inf))))
        qs.append(("just_above", float(np.nextafter(x, np.inf))))
    for i in range(n):
        m = 0.5 * (e64[i] + e64[i + 1])
        qs.append(("midpoint_tie", float(m)))
        qs.append(("near_mid", float(np.nextafter(m, np.inf))))
    for x in rng.uniform(e64[0], e64[-1], 6):
        qs.append(("random", float(x)))
    qs += [("below", float(e64[0] - rng.uniform(0.1, 3) * ext)), ("above", float(e64[-1] + rng.uniform(0.1, 3) * ext))]
    qs += [("inf", float("inf")), ("inf", float("-inf")), ("huge", 1e300), ("huge", -1e300)]
    for qc, x in qs:
        for snap in ("nearest", "lower", "upper"):
            got = grid.coord_to_index(a, x, snap=snap) if snap != "nearest" or rng.random() < 0.5 else grid.coord_to_index(a, x)
            v, detail = gc.judge_snap(e, x, snap, got)
            if v is None:
                r.branch(f"snap_unspecified:{snap}")
                continue
            r.count("snap_judged")
            sig = ("snap", snap, kind, origin, _nclass(n), qc)
            if v:
                r.ok(sig)
            else:
                _violate(r, 
                    f"coord_to_index(snap={snap}) is not the {snap} edge: {detail}",
                    {"edges": e64.tolist(), "dtype": str(e.dtype), "coord": x, "snap": snap, "got": int(got)},
                    sig=sig,
                )
    # unknown snapping rule must be rejected
    try:
        grid.coord_to_index(a, float(e64[0]), snap="closest")
        _violate(r, "unknown snapping rule accepted", {"snap": "closest"})
    except ValueError:
        r.ok(None)
    # length_to_cell_count = snapping of edges[0] + length; negative lengths are rejected
    for L in (0.0, float(ext), float(rng.uniform(0, ext)), float(e64[min(1, n)] - e64[0])):
        for snap in ("nearest", "lower", "upper"):
            got = grid.length_to_cell_count(a, L, snap=snap)
            v, detail = gc.judge_snap(e, float(e64[0]) + L, snap, got)
            if v is None:
                continue
            r.count("snap_judged")
            if v:
                r.ok(("length_to_cell_count", snap, kind, origin))
            else:
                _violate(r, f"length_to_cell_count(snap={snap}): {detail}", {"edges": e64.tolist(), "length": L, "snap": snap, "got": int(got)})
    try:
        grid.length_to_cell_count(a, -abs(ext) * 0.1 - 1e-300)
        _violate(r, "negative length accepted by length_to_cell_count", {"edges": e64.tolist()})
    except ValueError:
        r.ok(None)


def _interval_queries(r, rng, grid, a, e, kind, origin):
    import numpy as np

    from vf.oracles import grid_contracts as gc

    e64 = e.astype(np.float64)
    n = len(e) - 1
    ext = float(e64[-1] - e64[0])
    sizes = sorted({1, 2, max(1, n // 2), max(1, n - 1), n} & set(range(1, n + 1)))
    for size in sizes:
        k = np.arange(0, n - size + 1)
        for pos_cls, pos in (("lower", -1.0), ("centre", 0.0), ("upper", 1.0), ("random", float(rng.uniform(-1, 1)))):
            anchors = e64[k] + 0.5 * (pos + 1.0) * (e64[k + size] - e64[k])
            targets = [("at_candidate", float(x)) for x in anchors[:: max(1, len(anchors) // 4)]]
            for i in range(0, len(anchors) - 1, max(1, len(anchors) // 3)):
                targets.append(("tie", float(0.5 * (anchors[i] + anchors[i + 1]))))
            targets += [("random", float(x)) for x in rng.uniform(e64[0], e64[-1], 3)]
            targets += [("below", float(e64[0] - ext)), ("above", float(e64[-1] + ext))]
            for tc, t in targets:
                # bounds_for_anchor
                got = grid.bounds_for_anchor(a, size, t, pos)
                v, detail = gc.judge_bounds_for_anchor(e, size, t, pos, got)
                r.count("interval_judged")
                sig = ("anchor", pos_cls, kind, origin, _nclass(n), "full" if size == n else "s1" if size == 1 else "mid", tc)
                if v:
                    r.ok(sig)
                elif v is False:
                    _violate(r, 
                        f"bounds_for_anchor: {detail}",
                        {"edges": e64.tolist(), "size": size, "anchor": t, "position": pos, "got": [int(x) for x in got]},
                        sig=sig,
                    )
                # anchor_coordinate is the inverse on the returned interval
                ac = grid.anchor_coordinate(a, (int(got[0]), int(got[1])), pos)
                want = float(e64[got[0]] + 0.5 * (pos + 1.0) * (e64[got[1]] - e64[got[0]]))
                tol = 8 * float(np.finfo(e.dtype).eps) * float(np.max(np.abs(e64)))
                if abs(float(ac) - want) <= tol + 1e-9 * abs(want):
                    r.ok(None)
                else:
                    _violate(r, "anchor_coordinate inconsistent with the edges", {"edges": e64.tolist(), "bounds": [int(x) for x in got], "position": pos, "got": float(ac), "want": want})
                if pos == 0.0:
                    got = grid.bounds_for_center(a, t, size)
                    v, detail = gc.judge_bounds_for_center(e, t, size, got)
                    r.count("interval_judged")
                    sig = ("center", kind, origin, _nclass(n), "full" if size == n else "s1" if size == 1 else "mid", tc)
                    if v:
                        r.ok(sig)
                    elif v is False:
                        _violate(r, 
                            f"bounds_for_center: {detail}",
                            {"edges": e64.tolist(), "size": size, "center": t, "got": [int(x) for x in got]},
                            sig=sig,
                        )
    # impossible sizes are rejected, never answered with a wrong-sized interval
    for bad in (0, -1, n + 1, n + 7):
        for which in ("center", "anchor"):
            try:
                got = grid.bounds_for_center(a, float(e64[0]), bad) if which == "center" else grid.bounds_for_anchor(a, bad, float(e64[0]), 0.0)
            except ValueError:
                r.ok(("reject", which, "nonpositive" if bad <= 0 else "too_large"))
                r.branch("interval_rejected")
                continue
            _violate(r, f"bounds_for_{which} answered an impossible size {bad} on {n} cells with {got}", {"edges": e64.tolist(), "size": bad})


def _extent_queries(r, rng, grid, E, kind, origin):
    import numpy as np

    E64 = [e.astype(np.float64) for e in E]
    ns = [len(e) - 1 for e in E]
    f32 = E[0].dtype == np.float32
    eps = float(np.finfo(E[0].dtype).eps)
    sig = ("extent", kind, origin)
    wit = {"edges": [e.tolist() for e in E64]}
    if tuple(grid.shape) != tuple(ns):
        _violate(r, "shape != len(edges)-1", {**wit, "got": list(grid.shape)})
    W = [np.diff(e) for e in E64]
    mins = [float(w.min()) for w in W]
    rt = 1e-9 if not f32 else 1e-5
    for a in range(3):
        at = 8 * eps * float(np.max(np.abs(E64[a])))
        r.check_close("cell_widths", np.asarray(grid.cell_widths(a)), W[a], rt, witness=wit, sig=sig, atol=at)
        r.check_close("widths_prop", np.asarray((grid.dx, grid.dy, grid.dz)[a]), W[a], rt, witness=wit, sig=sig, atol=at)
        r.check_close("centers", np.asarray(grid.centers(a)), 0.5 * (E64[a][:-1] + E64[a][1:]), rt, witness=wit, sig=sig, atol=at)
        r.check_close("min_spacings", np.asarray(grid.min_spacings[a]), mins[a], rt, witness=wit, sig=sig, atol=at)
    r.check_close("min_spacing", np.asarray(grid.min_spacing), min(mins), rt, witness=wit, sig=sig, atol=8 * eps * max(float(np.max(np.abs(e))) for e in E64))
    for _ in range(2):
        # slices from a small fixed family per cell count, so that XLA compilations are shared between grids
        sl = []
        for a in range(3):
            n = ns[a]
            fam = [(0, n), (0, 1), (n - 1, n), (n // 2, n), (min(1, n - 1), max(min(1, n - 1) + 1, n - 1))]
            sl.append(fam[int(rng.integers(len(fam)))])
        sl = tuple(sl)
        w2 = {**wit, "slice": [list(s) for s in sl]}
        ats = [8 * eps * float(np.max(np.abs(E64[a]))) for a in range(3)]
        ext = [float(E64[a][sl[a][1]] - E64[a][sl[a][0]]) for a in range(3)]
        for a in range(3):
            r.check_close("axis_extent", grid.axis_extent(a, sl[a]), ext[a], rt, witness=w2, sig=sig, atol=ats[a])
        got = grid.slice_extent(sl)
        for a in range(3):
            r.check_close("slice_extent", got[a], ext[a], rt, witness=w2, sig=sig, atol=ats[a])
        ws = [W[a][sl[a][0] : sl[a][1]] for a in range(3)]
        vol = ws[0][:, None, None] * ws[1][None, :, None] * ws[2][None, None, :]
        gv = np.asarray(grid.cell_volume(sl))
        rv = rt if origin != "far" else 1e-3
        if origin == "far" or f32:
            # widths of far-offset / float32 edges carry eps*|edge| absolute noise: compare at that level
            av = float(vol.max()) * sum(ats[a] / float(ws[a].min()) for a in range(3))
        else:
            av = 0.0
        r.check_close("cell_volume", gv, vol, rv, witness=w2, sig=sig, atol=av)
        for a in range(3):
            t = [b for b in range(3) if b != a]
            area = ws[t[0]][:, None] * ws[t[1]][None, :]
            shp = [1, 1, 1]
            shp[t[0]], shp[t[1]] = area.shape
            ga = np.asarray(grid.face_area(a, sl))
            aa = 0.0 if av == 0.0 else float(area.max()) * sum(ats[b] / float(ws[b].min()) for b in t)
            r.check_close("face_area", ga, area.reshape(shp), rv, witness={**w2, "axis": a}, sig=sig, atol=aa)
        # consistency: the cell volumes tile the box (only where the sum is well conditioned)
        if origin != "far" and not f32:
            r.check_close("volume_sum", float(gv.sum()), ext[0] * ext[1] * ext[2], 1e-9, witness=w2, sig=sig)


# ------------------------------------------------------------------------------------------------
# CFL
# ------------------------------------------------------------------------------------------------
def _spacing(rng, cls):
    if cls == "nice":
        return float(rng.choice([1, 2, 5, 10, 20, 25, 40, 50, 100, 250, 1000])) * 1e-9
    if cls == "wavelength_over_n":
        return float(rng.choice([1.55e-6, 1e-6, 0.633e-6, 0.8e-6, 1.31e-6])) / int(rng.integers(7, 1200))
    if cls == "loguniform":
        return float(10 ** rng.uniform(-10, -4))
    if cls == "subnm":
        return float(10 ** rng.uniform(-12, -10))
    raise ValueError(cls)


def _cfl(case, r, rng):
    import numpy as np

    from vf import bootstrap
    from vf.oracles import grid_contracts as gc

    fdtdx = bootstrap.ensure()
    import jax.numpy as jnp

    classes = ("nice", "wavelength_over_n", "loguniform", "subnm", "quasi", "stretched", "nearly_uniform", "explicit_equal")
    for i in range(case["n"]):
        cls = classes[i % len(classes)]
        cf = float([0.99, 0.5, 1.0, 0.1, float(rng.uniform(0.05, 1.0))][int(rng.integers(5))])
        shape = tuple(int(x) for x in rng.choice([2, 4, 6, 10], 3))
        policy = None
        if cls in ("nice", "wavelength_over_n", "loguniform", "subnm"):
            s = _spacing(rng, cls)
            how = int(rng.integers(3))
            if how == 0:
                grid = fdtdx.RectilinearGrid.uniform(shape=shape, spacing=s)
            elif how == 1:
                policy = fdtdx.UniformGrid(spacing=s)
                grid = policy.resolve(shape)
            else:
                policy = fdtdx.QuasiUniformGrid(dx=s, dy=s, dz=s)
                grid = policy.resolve(shape)
            desc = {"class": cls, "spacing": s, "shape": list(shape), "how": ["rect_uniform", "UniformGrid.resolve", "QuasiUniformGrid.resolve"][how]}
        elif cls == "quasi":
            d = [float(10 ** rng.uniform(-9, -6)) * f for f in (1.0, float(rng.uniform(0.2, 5)), float(rng.uniform(0.2, 5)))]
            policy = fdtdx.QuasiUniformGrid(dx=d[0], dy=d[1], dz=d[2])
            grid = policy.resolve(shape)
            desc = {"class": cls, "d": d, "shape": list(shape)}
        elif cls == "stretched":
            ed = [_edges(rng, ("graded", "random", "two_scale")[int(rng.integers(3))], int(n), "centred") for n in shape]
            grid = _make_grid(fdtdx, ed)
            desc = {"class": cls, "edges": [e.tolist() for e in ed]}
        elif cls == "nearly_uniform":
            s = float(10 ** rng.uniform(-8, -5))
            ed = []
            for n in shape:
                w = s * (1 + rng.uniform(-0.9e-4, 0.9e-4, n))
                w[0] = s
                ed.append(np.concatenate([[0.0], np.cumsum(w)]))
            grid = _make_grid(fdtdx, ed)
            desc = {"class": cls, "edges": [e.tolist() for e in ed]}
        else:
            s = _spacing(rng, ("nice", "wavelength_over_n")[int(rng.integers(2))])
            ed = [np.linspace(-n * s / 2, n * s / 2, n + 1) for n in shape]
            grid = _make_grid(fdtdx, ed)
            desc = {"class": cls, "spacing": s, "shape": list(shape)}
        E = [np.asarray(grid.edges(a)) for a in range(3)]
        desc["courant_factor"] = cf
        desc["is_uniform"] = bool(grid.is_uniform)
        r.branch(f"cfl:{cls}:{'uniform' if grid.is_uniform else 'nonuniform'}")

        def judge(dt, via):
            v, detail, mech = gc.judge_cfl(E, cf, dt)
            r.count("cfl_judged")
            r.worst("cfl_number_over_courant_factor", gc.cfl_number(E, dt) / cf if np.isfinite(dt) else np.inf)
            sig = ("cfl", cls, via, "uniform" if grid.is_uniform else "nonuniform", "cf1" if cf == 1.0 else "cf<1")
            if v:
                r.ok(sig)
            else:
                _violate(r, f"{via}: {detail}", {**desc, "via": via, "dt": float(dt), "x_edges": E[0][:4].tolist()}, mechanism=mech, sig=sig)

        judge(grid.cfl_time_step(cf), "RectilinearGrid.cfl_time_step")
        cfg = fdtdx.SimulationConfig(time=1e-13, grid=grid, backend="cpu", dtype=jnp.float64, courant_factor=cf)
        judge(cfg.time_step_duration, "SimulationConfig(RectilinearGrid).time_step_duration")
        if policy is not None:
            cfgp = fdtdx.SimulationConfig(time=1e-13, grid=policy, backend="cpu", dtype=jnp.float64, courant_factor=cf)
            judge(cfgp.time_step_duration, f"SimulationConfig({type(policy).__name__}).time_step_duration")
            if abs(cfgp.courant_number - cf / 3**0.5) <= 1e-12:
                r.ok(None)
            else:
                _violate(r, "courant_number != courant_factor/sqrt(3)", {"cf": cf, "got": cfgp.courant_number})
        if r.sample is None:
            r.sample = {**{k: v for k, v in desc.items() if k != "edges"}, "dt": float(grid.cfl_time_step(cf))}


# ------------------------------------------------------------------------------------------------
# is_uniform / reduce_symmetric
# ------------------------------------------------------------------------------------------------
def _uniform_reduce(case, r, rng):
    import itertools

    import numpy as np

    from vf import bootstrap

    fdtdx = bootstrap.ensure()
    tuples = list(itertools.product((-1, 0, 1), repeat=3))
    for i in range(case["n"]):
        # ---- is_uniform ----------------------------------------------------------------------
        n3 = [int(rng.choice([1, 2, 3, 8, 40, 300])) for _ in range(3)]
        s = float(10 ** rng.uniform(-10, -2))
        off_cls = ("centred", "zero", "offset")[int(rng.integers(3))]
        dt = (np.float64, np.float32)[int(rng.random() < 0.25)]
        ed = []
        for n in n3:
            o = {"centred": -n * s / 2, "zero": 0.0, "offset": s * float(rng.uniform(-50, 50))}[off_cls]
            ed.append((o + s * np.arange(n + 1)).astype(dt))
        g = _make_grid(fdtdx, ed)
        r.count("uniform_judged")
        sig = ("is_uniform", "equispaced", off_cls, dt.__name__, "n300" if max(n3) == 300 else "small")
        if g.is_uniform is True:
            r.ok(sig)
            us = g.uniform_spacing
            if abs(us - s) <= 1e-14 + 1e-4 * s:
                r.ok(None)
            else:
                _violate(r, "uniform_spacing far from the constructed spacing", {"spacing": s, "got": us})
        else:
            _violate(r, "equispaced edges are not detected as uniform", {"spacing": s, "shape": n3, "offset_class": off_cls, "dtype": dt.__name__}, sig=sig)
        # one width off by >= 1 %
        n3b = [max(2, n) for n in n3]
        ax = int(rng.integers(3))
        ed2 = []
        dev = float(rng.choice([0.01, 0.05, 0.5, 3.0])) * float(rng.choice([-1, 1]))
        dev = max(dev, -0.9)
        where = int(rng.integers(n3b[ax]))
        for a, n in enumerate(n3b):
            w = np.full(n, s)
            if a == ax:
                w[where] = s * (1 + dev)
            ed2.append(-w.sum() / 2 + np.concatenate([[0.0], np.cumsum(w)]))
        g2 = _make_grid(fdtdx, ed2)
        r.count("uniform_judged")
        sig = ("is_uniform", "one_width_off", f"axis{ax}", "first" if where == 0 else "last" if where == n3b[ax] - 1 else "inner", "small" if abs(dev) < 0.1 else "large")
        if g2.is_uniform is False:
            r.ok(sig)
            try:
                g2.uniform_spacing
                _violate(r, "uniform_spacing answered on a non-uniform grid", {"edges": [e.tolist() for e in ed2]})
            except ValueError:
                r.ok(None)
        else:
            _violate(r, "a width deviating by >= 1% is labelled uniform", {"spacing": s, "shape": n3b, "axis": ax, "cell": where, "relative_deviation": dev}, sig=sig)

        # ---- reduce_symmetric ----------------------------------------------------------------
        ns = [int(rng.choice([1, 2, 3, 4, 6, 9, 10])) for _ in range(3)]
        sym_cls = []
        ed3 = []
        for n in ns:
            c = ("mirror", "uniform", "asym")[int(rng.integers(3))]
            if c == "uniform":
                w = np.full(n, s)
            elif c == "mirror":
                h = s * 10 ** rng.uniform(0, 1.5, (n + 1) // 2)
                w = np.concatenate([h[::-1], h]) if n % 2 == 0 else np.concatenate([h[1:][::-1], h])
            else:
                w = s * 10 ** rng.uniform(0, 1.5, n)
                if n >= 2 and abs(w[0] - w[-1]) < 0.02 * w[0]:
                    w[0] *= 1.5
            o = float(rng.uniform(-3, 3)) * s
            ed3.append(o + np.concatenate([[0.0], np.cumsum(w)]))
            wd = np.diff(ed3[-1])
            asym = float(np.max(np.abs(wd - wd[::-1]) / np.maximum(wd, wd[::-1])))
            sym_cls.append("sym" if asym < 1e-9 else "asym" if asym >= 0.01 else "gray")
        g3 = _make_grid(fdtdx, ed3)
        snap = [np.asarray(g3.edges(a)).copy() for a in range(3)]
        for tpl in (tuples if i % 4 == 0 else [tuples[int(rng.integers(27))] for _ in range(6)]):
            must_raise = any(tpl[a] != 0 and (ns[a] < 2 or ns[a] % 2 or sym_cls[a] == "asym") for a in range(3))
            gray = any(tpl[a] != 0 and sym_cls[a] == "gray" for a in range(3))
            wit = {"edges": [e.tolist() for e in ed3], "symmetry": list(tpl)}
            sig = ("reduce", tuple(0 if t == 0 else 1 for t in tpl), tuple(sorted(set(
                ("odd" if ns[a] % 2 or ns[a] < 2 else sym_cls[a]) for a in range(3) if tpl[a] != 0))))
            try:
                red = g3.reduce_symmetric(tpl)
            except ValueError:
                if gray and not must_raise:
                    r.branch("reduce_gray")
                    continue
                r.count("reduce_judged")
                if must_raise:
                    r.ok(sig)
                    r.branch("reduce_rejected")
                else:
                    _violate(r, "reduce_symmetric rejected a mirror-symmetric even grid", wit, sig=sig)
                continue
            r.count("reduce_judged")
            if must_raise:
                _violate(r, "reduce_symmetric accepted an odd or asymmetric axis", wit, sig=sig)
                continue
            good = True
            for a in range(3):
                want = snap[a] if tpl[a] == 0 else snap[a][ns[a] // 2 :]
                got = np.asarray(red.edges(a))
                if got.shape != want.shape or not np.array_equal(got, want):
                    good = False
                    _violate(r, "reduced edges are not the kept upper half", {**wit, "axis": a, "got": got.tolist(), "want": want.tolist()}, sig=sig)
                if not np.array_equal(np.asarray(g3.edges(a)), snap[a]):
                    good = False
                    _violate(r, "reduce_symmetric changed the original grid", wit, sig=sig)
            if tuple(red.shape) != tuple(ns[a] if tpl[a] == 0 else ns[a] // 2 for a in range(3)):
                good = False
                _violate(r, "reduced shape is not halved on the symmetric axes", {**wit, "got": list(red.shape)}, sig=sig)
            if good:
                r.ok(sig)
                r.branch("reduce_accepted")
        if r.sample is None:
            r.sample = {"reduce_shape": ns, "width_symmetry": sym_cls}


# ------------------------------------------------------------------------------------------------
# placement under contracts (M5)
# ------------------------------------------------------------------------------------------------
def _placement(case, r, rng):
    import numpy as np

    from vf import bootstrap, scenes
    from vf.oracles import grid_contracts as gc

    fdtdx = bootstrap.ensure()
    for rep in range(2):
        shape = [int(rng.choice([10, 12, 14])) for _ in range(3)]
        s = float(rng.choice([20e-9, 25e-9, 50e-9, 100e-9]))
        gk = ("uniform", "rect_uniform", "rect")[(case["variant"] + rep) % 3]
        sc = scenes.default_scene(shape=shape, steps=2, spacing=s)
        if gk == "rect_uniform":
            sc["grid"] = {"kind": "rect_uniform", "spacing": s}
        elif gk == "rect":
            ed = []
            for n in shape:
                w = s * rng.uniform(0.6, 1.8, n)
                ed.append((-w.sum() / 2 + np.concatenate([[0.0], np.cumsum(w)])).tolist())
            sc["grid"] = {"kind": "rect", "edges": ed}
        for f in scenes.FACES:
            sc["faces"][f] = {"type": "pml", "thickness": 2} if rng.random() < 0.6 else {"type": "pec"}
        mat = {"a": fdtdx.Material(permittivity=2.0), "b": fdtdx.Material(permittivity=3.0)}
        ext = [shape[a] * s for a in range(3)]
        box = fdtdx.UniformMaterialObject(
            name="rbox",
            partial_real_shape=tuple(float(rng.uniform(0.15, 0.4)) * ext[a] for a in range(3)),
            partial_real_position=tuple(float(rng.uniform(-0.15, 0.15)) * ext[a] for a in range(3)),
            material=mat["a"],
        )
        sph = fdtdx.Sphere(name="sph", radius=float(rng.uniform(0.1, 0.2)) * min(ext), materials=mat, material_name="b")
        slab = fdtdx.UniformMaterialObject(name="slab", partial_real_shape=(None, None, float(rng.uniform(0.1, 0.3)) * ext[2]), material=mat["b"])
        det = fdtdx.EnergyDetector(name="edet", partial_grid_shape=(None, None, 1), plot=False)
        extra = [box, sph, slab, det]
        cons = []
        cons.append(fdtdx.RealCoordinateConstraint(object="slab", axes=(2,), sides=("-",), coordinates=(float(rng.uniform(-0.3, 0.1)) * ext[2],)))
        try:
            # volume object is created inside scenes.build under the name "volume": refer to it via a stub
            vol_stub = fdtdx.SimulationVolume(partial_grid_shape=tuple(shape), name="volume")
            cons.append(sph.place_relative_to(vol_stub, axes=(0, 1, 2), own_positions=(0, -1, 1), other_positions=(0.2, -0.5, 0.5)))
            cons.append(det.place_relative_to(box, axes=(2,), own_positions=(-1,), other_positions=(1,), margins=(float(rng.uniform(0, 0.1)) * ext[2],)))
            before = dict(gc.COUNTS)
            built = scenes.build(sc, extra_objects=extra, extra_constraints=cons)
        except gc.GridContractError:
            raise
        n_eval = sum(gc.COUNTS.values()) - sum(before.values())
        r.ok(("placement", gk), n=max(1, n_eval))
        r.branch(f"placement:{gk}")
        r.sample = r.sample or {"grid": gk, "shape": shape, "contract_evaluations": n_eval,
                                "box_slice": [list(x) for x in next(o for o in built["objects"].objects if o.name == "rbox").grid_slice_tuple]}

"""C22 — Gaussian smoothing of a 2D design: affine, constants preserved, range preserved, mirror-equivariant.

The real `fdtdx.GaussianSmoothing2D` is initialised through `init_module` for random widths, in-plane shapes,
singleton axis positions and padding configurations (every subset of the four optional padding arrays), and is
judged by algebraic identities that need no copy of the kernel:

    affine      f(a x + (1-a) y) == a f(x) + (1-a) f(y)   for every padding configuration, a also outside [0,1]
    linear      f(c x + d y) == c f(x) + d f(y)            with default (edge-replicated) padding
    constants   x == c everywhere and every given padding array == c   ->   f(x) == c
    range       min(x, given paddings) <= f(x) <= max(x, given paddings)          (+ 1e-12 of the scale)
    mirror      f'(flip_k x) == flip_k f(x), k = in-plane axis 0 / 1 / both, where f' has the padding arrays mirrored
                accordingly (low <-> high on the flipped axis, the arrays of the other axis reversed)
    shape       f(x).shape == x.shape, finite

Width 0 (the delta kernel) is a separate input class: the only acceptable behaviours are the identity or an
explicit ValueError.
"""

from __future__ import annotations

PROPERTY = "C22"
RULE = (
    "cases = width std in {1,2,3,(4,5,7 thorough)} x singleton axis position; inside: in-plane shapes (2x2, 2xN, Nx2, odd, "
    "even, smaller and larger than the kernel) x 7 padding configurations (none, all four, each axis only, single arrays, "
    "random subset; padding values inside and far outside the design range) x design classes (uniform, normal, binary, "
    "checkerboard, impulse, wide range, constant); one evaluation = one judged identity for one (transform, design); "
    "non-trivial when the design is not constant (constants: counted for the 'constants' identity); distinct = (std, axis, "
    "shape, padding configuration, design class, identity)"
)
REQUIRED_COUNTERS = ["comparisons", "transforms_built"]
ASSUMPTIONS = [
    "float64 designs and padding arrays",
    "identities are compared at rtol 1e-9 of max|expected| (observed 1e-15); range at 1e-12 of the value scale",
    "std_discrete is an int >= 1 except for the separate zero-width class",
]
CASE_TIMEOUT = {"quick": 600, "thorough": 1800}

ZERO_WIDTH_CLASS = True
MECH_ZERO = "gaussian-smoothing-zero-width"

PADCFGS = ["none", "all", "axis0", "axis1", "low0", "high1", "random"]
DESIGNS = ["uniform", "normal", "binary", "checker", "impulse", "wide", "const"]


def EXHAUSTIVE(tier):
    return False


def cases(tier, rng):
    out = []
    stds = [1, 2, 3] if tier == "quick" else [1, 2, 3, 4, 5, 7]
    reps = 1 if tier == "quick" else 4
    for rep in range(reps):
        for s in stds:
            for axis in range(3):
                out.append({"kind": "smooth", "std": s, "axis": axis, "n_shapes": 6, "rep": rep})
    if ZERO_WIDTH_CLASS:
        out.append({"kind": "zero"})
    return out


def _shape3(plane, axis):
    s = list(plane)
    s.insert(axis, 1)
    return tuple(s)


def _pads(cfgname, nx, ny, rng, lo=-2.0, hi=3.0, const=None):
    """dict of the four optional padding arrays (numpy or None)."""
    import numpy as np

    names = ["low0", "high0", "low1", "high1"]
    if cfgname == "none":
        use = []
    elif cfgname == "all":
        use = names
    elif cfgname == "axis0":
        use = ["low0", "high0"]
    elif cfgname == "axis1":
        use = ["low1", "high1"]
    elif cfgname in ("low0", "high1"):
        use = [cfgname]
    else:
        use = [n for n in names if rng.random() < 0.5]
    out = {}
    for n in names:
        if n not in use:
            out[n] = None
            continue
        length = ny if n.endswith("0") else nx
        if const is not None:
            out[n] = np.full(length, const)
        else:
            mode = int(rng.integers(3))
            if mode == 0:
                out[n] = rng.uniform(0, 1, length)
            elif mode == 1:
                out[n] = rng.uniform(lo, hi, length)
            else:
                out[n] = np.full(length, float(rng.choice([0.0, 1.0, lo, hi])))
    return out


def _mirror_pads(p, k):
    """Padding arrays of the mirrored problem; k = 0, 1 or 2 (both in-plane axes)."""

    def rev(a):
        return None if a is None else a[::-1].copy()

    q = dict(p)
    if k in (0, 2):  # rows reversed: low/high of axis 0 swap, the axis-1 arrays (indexed by row) are reversed
        q = {"low0": q["high0"], "high0": q["low0"], "low1": rev(q["low1"]), "high1": rev(q["high1"])}
    if k in (1, 2):
        q = {"low0": rev(q["low0"]), "high0": rev(q["high0"]), "low1": q["high1"], "high1": q["low1"]}
    return q


def _design(cls, plane, rng):
    import numpy as np

    n, m = plane
    if cls == "uniform":
        return rng.uniform(0, 1, plane)
    if cls == "normal":
        return rng.normal(size=plane)
    if cls == "binary":
        return (rng.uniform(size=plane) > 0.5).astype(float)
    if cls == "checker":
        return ((np.arange(n)[:, None] + np.arange(m)[None, :]) % 2).astype(float)
    if cls == "impulse":
        a = np.zeros(plane)
        a[int(rng.integers(n)), int(rng.integers(m))] = 1.0
        return a
    if cls == "wide":
        return rng.choice([-1.0, 1.0], plane) * 10.0 ** rng.uniform(-6, 6, plane)
    if cls == "const":
        return np.full(plane, float(rng.uniform(-2, 2)))
    raise ValueError(cls)


def run_case(case):
    import numpy as np

    from vf import bootstrap
    from vf.result import Res

    bootstrap.ensure()
    import jax.numpy as jnp
    from fdtdx.config import SimulationConfig
    from fdtdx.core.grid import UniformGrid
    from fdtdx.materials import Material
    from fdtdx.objects.device.parameters.continuous import GaussianSmoothing2D
    from fdtdx.typing import ParameterType

    r = Res()
    cfg = SimulationConfig(time=100e-15, grid=UniformGrid(spacing=50e-9), backend="cpu")
    mats = {"a": Material(permittivity=1.0), "b": Material(permittivity=4.0)}

    def build(std, shape3, pads):
        kw = {f"padding_{k[:-1]}_axis{k[-1]}": (None if v is None else jnp.asarray(v)) for k, v in pads.items()}
        t = GaussianSmoothing2D(std_discrete=std, **kw)
        t = t.init_module(config=cfg, materials=mats, matrix_voxel_grid_shape=shape3, single_voxel_size=(5e-8,) * 3, output_shape={"p": shape3})
        t = t.init_type({"p": ParameterType.CONTINUOUS})
        r.count("transforms_built")
        return lambda a: np.asarray(t({"p": jnp.asarray(a)})["p"])

    if case["kind"] == "zero":
        _zero(r, build)
        return r.to_dict()

    rng = np.random.default_rng(case["seed"])
    std, axis = int(case["std"]), int(case["axis"])
    ker = 6 * std + 1
    fixed = [(2, 2), (2, 7), (5, 2), (3, 3), (ker + 2, 4), (6, 6)]
    planes = fixed[: case["n_shapes"]]
    if case.get("rep", 0) > 0:
        planes = fixed[:2] + [tuple(int(v) for v in rng.integers(2, 13, 2)) for _ in range(case["n_shapes"] - 2)]
    r.branch(f"std:{std}")
    r.branch(f"singleton_axis:{axis}")
    for plane in planes:
        nx, ny = plane
        shape3 = _shape3(plane, axis)
        r.branch("shape:" + ("smaller-than-kernel" if max(plane) < ker else "not-smaller-than-kernel"))

        def to3(a, shape3=shape3):
            return np.ascontiguousarray(a).reshape(shape3)

        def to2(a, plane=plane):
            return np.asarray(a).reshape(plane)

        for pc in PADCFGS:
            pads = _pads(pc, nx, ny, rng)
            given = [v for v in pads.values() if v is not None]
            f = build(std, shape3, pads)
            fm = {k: build(std, shape3, _mirror_pads(pads, k)) for k in (0, 1, 2)}
            r.branch(f"padding:{pc}")
            base = (std, axis, f"{nx}x{ny}", pc)
            padwit = {k: (None if v is None else v.tolist()) for k, v in pads.items()}
            for cls in DESIGNS:
                x = _design(cls, plane, rng)
                y_in = _design("normal" if cls != "const" else "uniform", plane, rng)
                wit = {"std_discrete": std, "shape": list(shape3), "singleton_axis": axis, "paddings": padwit, "design_class": cls, "x_2d": x.tolist()}
                nontriv = cls != "const"
                fx3 = f(to3(x))
                if fx3.shape != shape3:
                    r.violate("output shape differs from input shape", {**wit, "out_shape": list(fx3.shape)}, sig=base + (cls, "shape"))
                    continue
                fx = to2(fx3)
                r.count("comparisons")
                if not np.all(np.isfinite(fx)):
                    r.violate("output is not finite", wit, sig=base + (cls, "finite"))
                    continue
                r.ok(None)
                # ---- range ---------------------------------------------------------------------------------
                lo = min([x.min()] + [g.min() for g in given])
                hi = max([x.max()] + [g.max() for g in given])
                scale = max(abs(lo), abs(hi), 1e-300)
                r.count("comparisons")
                r.worst("worst_range_excess_rel", max(0.0, lo - fx.min(), fx.max() - hi) / scale)
                if fx.min() >= lo - 1e-12 * scale and fx.max() <= hi + 1e-12 * scale:
                    r.ok(base + (cls, "range") if nontriv else None)
                else:
                    r.violate(
                        "output leaves the range of the input and padding values",
                        {**wit, "lo": float(lo), "hi": float(hi), "out_min": float(fx.min()), "out_max": float(fx.max())},
                        sig=base + (cls, "range"),
                    )
                # ---- affine / linear ---------------------------------------------------------------------
                a = float(rng.choice([0.0, 1.0, 0.5, rng.uniform(0, 1), rng.uniform(-3, 4)]))
                fy = to2(f(to3(y_in)))
                fa = to2(f(to3(a * x + (1 - a) * y_in)))
                r.check_close(
                    "affine", fa, a * fx + (1 - a) * fy, 1e-9, what="f(a x + (1-a) y) != a f(x) + (1-a) f(y)", witness={**wit, "a": a, "y_2d": y_in.tolist()}, sig=base + (cls, "affine")
                )
                if pc == "none":
                    c, d = float(rng.uniform(-3, 3)), float(rng.uniform(-3, 3))
                    fl = to2(f(to3(c * x + d * y_in)))
                    r.check_close(
                        "linear", fl, c * fx + d * fy, 1e-9, what="default padding: f(c x + d y) != c f(x) + d f(y)", witness={**wit, "c": c, "d": d, "y_2d": y_in.tolist()}, sig=base + (cls, "linear")
                    )
                # ---- mirror ------------------------------------------------------------------------------
                for k in (0, 1, 2):
                    flip = (lambda z: z[::-1, :]) if k == 0 else ((lambda z: z[:, ::-1]) if k == 1 else (lambda z: z[::-1, ::-1]))
                    got = to2(fm[k](to3(flip(x))))
                    r.check_close(
                        f"mirror{k}",
                        got,
                        flip(fx),
                        1e-9,
                        what=f"smoothing does not commute with mirroring (in-plane axis {'both' if k == 2 else k}) when the padding is mirrored accordingly",
                        witness={**wit, "mirror": k},
                        sig=base + (cls, f"mirror{k}"),
                        atol=1e-15 * scale,
                    )
            # ---- constants with matching padding (same subset of arrays, all equal to c) --------------------
            cval = float(rng.choice([0.0, 1.0, rng.uniform(-5, 5), 1e6, -1e-6]))
            fc = build(std, shape3, _pads(pc, nx, ny, rng, const=cval))
            got = to2(fc(to3(np.full(plane, cval))))
            r.check_close(
                "constant",
                got,
                np.full(plane, cval),
                1e-9,
                what="a constant design with matching/default padding is changed",
                witness={"std_discrete": std, "shape": list(shape3), "padding_config": pc, "constant": cval},
                sig=base + ("const", "constant"),
                atol=0.0 if cval != 0 else 1e-300,
            )
    r.sample = {"std_discrete": std, "singleton_axis": axis, "planes": [list(p) for p in planes], "padding_configs": PADCFGS, "designs": DESIGNS}
    return r.to_dict()


def _zero(r, build):
    """std_discrete = 0 is the delta kernel: identity, or an explicit ValueError; never NaN."""
    import numpy as np

    rng = np.random.default_rng(7)
    for shape3 in ((3, 4, 1), (1, 2, 2), (5, 1, 3)):
        x = rng.uniform(0, 1, shape3)
        wit = {"std_discrete": 0, "shape": list(shape3), "x": x.tolist(), "paddings": "default"}
        r.count("comparisons")
        try:
            f = build(0, shape3, {"low0": None, "high0": None, "low1": None, "high1": None})
            y = f(x)
        except ValueError as e:
            r.ok(("zero-width", "rejected"))
            r.branch("zero-width:rejected")
            r.sample = {"std_discrete": 0, "raised": str(e)[:100]}
            continue
        if y.shape == x.shape and np.allclose(y, x, rtol=1e-9, atol=0):
            r.ok(("zero-width", "identity", str(shape3)))
            r.branch("zero-width:identity")
        else:
            nan = bool(np.isnan(y).all())
            r.violate(
                "width 0 neither rejected nor the identity" + (" (all NaN)" if nan else ""),
                {**wit, "out_all_nan": nan},
                mechanism=MECH_ZERO if nan else None,
                sig=("zero-width", str(shape3)),
            )
    r.sample = r.sample or {"std_discrete": 0}

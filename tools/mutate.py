#!/venv/bin/python
"""Self-test of the monitors: apply one textual mutation to a scratch copy of /repo/src and run a check on it.

usage: tools/mutate.py <check id> <relative file under src/fdtdx> <old text> <new text> [tier]
Prints `MUT <id> rc=<rc> ...`; rc=1 means the check fired (VIOLATION), 0 means the mutation was missed.
The scratch copy lives under a fresh temp dir and is removed afterwards.
"""
import os
import shutil
import subprocess
import sys
import tempfile

cid, rel, old, new = sys.argv[1:5]
tier = sys.argv[5] if len(sys.argv) > 5 else "quick"
root = os.path.dirname(os.path.dirname(os.path.abspath(__file__)))
tmp = tempfile.mkdtemp(prefix="vf_mut_")
try:
    shutil.copytree("/repo/src", os.path.join(tmp, "src"))
    p = os.path.join(tmp, "src", "fdtdx", rel)
    s = open(p).read()
    if s.count(old) < 1:
        print(f"MUT {cid} rc=NA pattern not found in {rel}")
        sys.exit(3)
    open(p, "w").write(s.replace(old, new, 1))
    env = dict(os.environ, VERIF_REPO=tmp, VERIF_WORKERS=os.environ.get("VERIF_WORKERS", "6"))
    out = subprocess.run([os.path.join(root, "check"), cid, "--tier", tier], capture_output=True, text=True, env=env, cwd=root)
    first = next((l for l in out.stdout.splitlines() if l.strip().startswith("what:")), "")
    print(f"MUT {cid} rc={out.returncode} {rel}: {old[:40]!r} -> {new[:40]!r} | {first.strip()[:160]}")
finally:
    shutil.rmtree(tmp, ignore_errors=True)
    # replays of mutation runs are not evidence

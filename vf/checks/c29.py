"""C29 — sources and detectors see the device materials after parameters are applied.

Monitor: real `place_objects` + `apply_params` on scenes holding one or two devices and many sources /
detectors whose boxes stand in every interval relation (Allen's 13 per axis, the 7 that a size-1 extent
admits for dipoles and along the propagation axis of plane sources) to the device box.  After every
`apply_params` of a parameter history, each object whose box shares at least one cell with a device box
must equal a fresh copy of the placed object applied directly against the post-device arrays (all pytree
leaves), and, independently of the library's `apply`, a point dipole's cached local inverse permittivity
must equal the post-device array at its cell.
"""

from __future__ import annotations

PROPERTY = "C29"
RULE = (
    "per-axis interval relation of the object box to the device box enumerated (dipoles: all 7^3 size-1 "
    "relations per device layout; plane sources: two box shapes per scene slid over seeded positions (all 13 "
    "relations reachable on the transverse axes, 7 along propagation) plus a strictly-inside placement per "
    "device; detectors: strictly inside, identical and random relations); an evaluation = one object after one apply_params; distinct = "
    "(object kind, relation triple, device kind); non-trivial = object box shares a cell with a device whose "
    "permittivity differs from what the object saw at placement"
)
REQUIRED_COUNTERS = ["objects_judged", "intersecting_objects", "strictly_inside_objects", "comparisons"]
ASSUMPTIONS = [
    "reference state = the placed object's own `apply` run directly on the arrays returned by apply_params",
    "objects whose box shares no cell with any device are not judged (the statement only covers intersecting ones)",
    "mode sources/detectors (external mode solver) and TFSF regions are not driven; the field/energy/Poynting "
    "detectors that are driven keep no material-dependent state, so their evaluations are counted as trivial",
]
CASE_TIMEOUT = {"quick": 600, "thorough": 1800}

MECH = "C29-check-overlap-misses-contained-box"

REL13 = (
    "before",
    "meets",
    "overlaps",
    "starts",
    "during",
    "finishes",
    "equals",
    "contains",
    "started_by",
    "finished_by",
    "overlapped_by",
    "met_by",
    "after",
)
REL7 = ("before", "meets", "starts", "during", "finishes", "met_by", "after")
INTERSECTING = {"overlaps", "starts", "during", "finishes", "equals", "contains", "started_by", "finished_by", "overlapped_by"}


def EXHAUSTIVE(tier):
    return False


def interval_for(rel, d0, d1, variant=0):
    """An [o0,o1) interval standing in Allen relation `rel` to [d0,d1) (needs d0>=2, d1-d0>=3, room above)."""
    v = variant % 2
    return {
        "before": (d0 - 2, d0 - 1),
        "meets": (d0 - 1 - v, d0),
        "overlaps": (d0 - 1, d0 + 1 + v),
        "starts": (d0, d0 + 1 + v),
        "during": (d0 + 1, d0 + 2 + (v if d1 - d0 >= 4 else 0)),
        "finishes": (d1 - 1 - v, d1),
        "equals": (d0, d1),
        "contains": (d0 - 1 - v, d1 + 1),
        "started_by": (d0, d1 + 1 + v),
        "finished_by": (d0 - 1 - v, d1),
        "overlapped_by": (d1 - 1 - v, d1 + 1),
        "met_by": (d1, d1 + 1 + v),
        "after": (d1 + 1, d1 + 2),
    }[rel]


def size1_interval_for(rel, d0, d1):
    return {
        "before": (d0 - 2, d0 - 1),
        "meets": (d0 - 1, d0),
        "starts": (d0, d0 + 1),
        "during": (d0 + 1, d0 + 2),
        "finishes": (d1 - 1, d1),
        "met_by": (d1, d1 + 1),
        "after": (d1 + 1, d1 + 2),
    }[rel]


def relation(o, d):
    """Allen relation of [o0,o1) to [d0,d1) (independent classifier used for the signature)."""
    o0, o1 = o
    d0, d1 = d
    if o1 < d0:
        return "before"
    if o1 == d0:
        return "meets"
    if o0 > d1:
        return "after"
    if o0 == d1:
        return "met_by"
    if o0 == d0 and o1 == d1:
        return "equals"
    if o0 == d0:
        return "starts" if o1 < d1 else "started_by"
    if o1 == d1:
        return "finishes" if o0 > d0 else "finished_by"
    if o0 < d0:
        return "overlaps" if o1 < d1 else "contains"
    return "during" if o1 < d1 else "overlapped_by"


DEVICE_KINDS = ("cont_iso", "cont_diag", "discrete3", "etch", "cont_dispersive")
PLANE_DEVICE_KINDS = ("cont_iso", "discrete3", "etch", "cont_dispersive")  # plane sources reject anisotropic media


def cases(tier, rng):
    out = []
    import itertools

    triples7 = list(itertools.product(REL7, repeat=3))
    nblk = 4 if tier == "quick" else 14
    per = (len(triples7) + nblk - 1) // nblk
    layouts = 1 if tier == "quick" else 8
    for lay in range(layouts):
        for b in range(nblk):
            out.append(
                {
                    "kind": "dipoles",
                    "triples": triples7[b * per : (b + 1) * per],
                    "device_kind": DEVICE_KINDS[(b + lay) % len(DEVICE_KINDS)],
                    "layout_seed": int(rng.integers(1 << 30)),
                }
            )
    nplane = 4 if tier == "quick" else 200
    for i in range(nplane):
        out.append(
            {
                "kind": "planes",
                "n": 11,
                "device_kind": PLANE_DEVICE_KINDS[i % len(PLANE_DEVICE_KINDS)],
                "layout_seed": int(rng.integers(1 << 30)),
            }
        )
    ntwo = 2 if tier == "quick" else 80
    for i in range(ntwo):
        out.append(
            {"kind": "two_devices", "n": 12, "device_kind": PLANE_DEVICE_KINDS[i % len(PLANE_DEVICE_KINDS)], "layout_seed": int(rng.integers(1 << 30))}
        )
    return out


# ------------------------------------------------------------------------------------------------
def _device_spec(kind, lo, hi, rng):
    d = {"lo": list(lo), "hi": list(hi), "voxel": [1, 1, 1]}
    if kind == "cont_iso":
        d["materials"] = {"low": {"eps": 1.0 + float(rng.uniform(0, 0.5))}, "high": {"eps": float(rng.uniform(6, 12))}}
    elif kind == "cont_diag":
        d["materials"] = {
            "low": {"eps": [1.5, 1.2, 1.9]},
            "high": {"eps": [float(rng.uniform(5, 9)), float(rng.uniform(5, 9)), float(rng.uniform(5, 9))]},
        }
    elif kind == "discrete3":
        d["materials"] = {"a": {"eps": 1.0}, "b": {"eps": float(rng.uniform(3, 5))}, "c": {"eps": float(rng.uniform(8, 12))}}
        d["transforms"] = [{"kind": "StandardToCustomRange", "min_value": 0.0, "max_value": 2.0}, {"kind": "ClosestIndex"}]
    elif kind == "etch":
        d["materials"] = {"etchant": {"eps": float(rng.uniform(5, 9))}}
        d["etch"] = True
    elif kind == "cont_dispersive":
        d["materials"] = {
            "low": {"eps": 1.0},
            "high": {
                "eps": float(rng.uniform(4, 8)),
                "dispersion": {"poles": [{"kind": "lorentz", "w0": 2.5e15, "gamma": 1e14, "deps": 1.5}]},
            },
        }
    else:
        raise ValueError(kind)
    return d


def _layout(rng, ndev=1):
    """Domain and device boxes with >= 2 cells of room on every side and device size >= 4."""
    shape, boxes = [], [[], []]
    for a in range(3):
        if ndev == 1:
            size = int(rng.integers(4, 6))
            d0 = int(rng.integers(2, 4))
            n = d0 + size + int(rng.integers(3, 5))
            shape.append(n)
            boxes[0].append((d0, d0 + size))
        else:
            s1, s2 = int(rng.integers(4, 6)), int(rng.integers(4, 6))
            d0 = int(rng.integers(2, 4))
            if a == 0:
                gap = int(rng.integers(0, 3))  # devices side by side along x (touching allowed)
                e0 = d0 + s1 + gap
                n = e0 + s2 + int(rng.integers(3, 5))
                boxes[0].append((d0, d0 + s1))
                boxes[1].append((e0, e0 + s2))
            else:
                e0 = int(rng.integers(2, 4))
                n = max(d0 + s1, e0 + s2) + int(rng.integers(3, 5))
                boxes[0].append((d0, d0 + s1))
                boxes[1].append((e0, e0 + s2))
            shape.append(n)
    return shape, boxes[:ndev]


def _clip(o, n):
    return (max(0, o[0]), min(n, o[1]))


def _intersects(obox, dbox):
    return all(max(obox[a][0], dbox[a][0]) < min(obox[a][1], dbox[a][1]) for a in range(3))


def _strictly_inside(obox, dbox):
    return all(dbox[a][0] < obox[a][0] and obox[a][1] < dbox[a][1] for a in range(3))


def run_case(case):
    import numpy as np

    from vf.result import Res

    r = Res()
    rng = np.random.default_rng(case["layout_seed"])
    ndev = 2 if case["kind"] == "two_devices" else 1
    shape, dboxes = _layout(rng, ndev)
    from vf import scenes

    s = scenes.default_scene(shape=shape, steps=6)
    s["volume"] = {"eps": float(rng.choice([1.0, 2.25]))}
    if rng.random() < 0.5:
        # a static slab under part of the domain so that "pre-device" materials are not uniform
        s["materials"] = [{"lo": [0, 0, 0], "hi": [shape[0], shape[1], max(1, shape[2] // 2)], "mat": {"eps": 3.0}}]
    s["devices"] = []
    for i, db in enumerate(dboxes):
        dk = case["device_kind"] if i == 0 else "cont_iso"
        s["devices"].append(_device_spec(dk, [b[0] for b in db], [b[1] for b in db], rng))
    objs_desc = []  # (name, kind, box)
    d = dboxes[0]
    if case["kind"] == "dipoles":
        for i, tr in enumerate(case["triples"]):
            box = [size1_interval_for(tr[a], d[a][0], d[a][1]) for a in range(3)]
            stype = "electric" if i % 4 else "magnetic"
            name = f"dip{i}"
            s["sources"].append(
                {
                    "kind": "dipole",
                    "name": name,
                    "lo": [b[0] for b in box],
                    "polarization": int(i % 3),
                    "source_type": stype,
                    "wavelength": 1e-6,
                    **({"azimuth_angle": 20.0, "elevation_angle": 10.0} if i % 5 == 0 else {}),
                }
            )
            objs_desc.append((name, "dipole_" + stype, box))
        # a few detectors, including strictly inside
        for i, tr in enumerate([("during",) * 3, ("contains",) * 3, ("overlaps", "during", "finishes")]):
            box = [_clip(interval_for(tr[a], d[a][0], d[a][1], i), shape[a]) for a in range(3)]
            name = f"det{i}"
            s["detectors"].append({"kind": ("field", "energy", "poynting")[i], "name": name, "lo": [b[0] for b in box], "hi": [b[1] for b in box]})
            objs_desc.append((name, "detector", box))
    else:
        # One small plane-source shape (size 2 on both transverse axes, 1 along propagation) slid over positions
        # realises 9 of the 13 relations per transverse axis and all 7 along the propagation axis; one big shape
        # (device size + 2) realises contains / started_by / finished_by.  Few distinct shapes keep XLA compiles low.
        pa = int(rng.integers(3))
        skind = ("uniform", "gaussian")[int(rng.integers(2))]
        e_pol = [0, 0, 0]
        e_pol[(pa + 1) % 3] = 1

        def slide(dd, a, w):
            lo_min, lo_max = max(0, dd[a][0] - w - 1), min(shape[a] - w, dd[a][1] + 1)
            o0 = int(rng.integers(lo_min, lo_max + 1))
            return (o0, o0 + w)

        def slide_inside(dd, a, w):
            o0 = int(rng.integers(dd[a][0] + 1, dd[a][1] - w))
            return (o0, o0 + w)

        def add_plane(name, box):
            spec = {
                "kind": skind,
                "name": name,
                "lo": [b[0] for b in box],
                "hi": [b[1] for b in box],
                "direction": "+-"[int(rng.integers(2))],
                "wavelength": 1e-6,
                "e_pol": e_pol,
            }
            if skind == "gaussian":
                spec["radius"] = 150e-9
            s["sources"].append(spec)
            objs_desc.append((name, skind, box))

        n = case["n"]
        for i in range(n):
            dd = dboxes[i % len(dboxes)]
            name = f"o{i}"
            if i < len(dboxes):
                # hostile class: strictly inside the device on all three axes
                box = [slide_inside(dd, a, 1 if a == pa else 2) for a in range(3)]
                add_plane(name, box)
            elif i < n - 3:
                inside = rng.random() < 0.5
                box = []
                for a in range(3):
                    w = 1 if a == pa else 2
                    box.append(slide_inside(dd, a, w) if (inside and rng.random() < 0.6) else slide(dd, a, w))
                add_plane(name, box)
            else:
                # big shape: contains / started_by / finished_by on the transverse axes
                box = []
                for a in range(3):
                    if a == pa:
                        box.append(slide(dd, a, 1))
                    else:
                        o0 = dd[a][0] - int(rng.integers(0, 3))
                        box.append((o0, o0 + (dd[a][1] - dd[a][0]) + 2))
                add_plane(name, box)
        for i in range(4):
            dd = dboxes[i % len(dboxes)]
            name = f"dip{i}"
            box = [slide_inside(dd, a, 1) if i < 2 else slide(dd, a, 1) for a in range(3)]
            s["sources"].append({"kind": "dipole", "name": name, "lo": [b[0] for b in box], "polarization": int(i % 3), "wavelength": 1e-6})
            objs_desc.append((name, "dipole_electric", box))
        for i, tr in enumerate([("during",) * 3, ("equals",) * 3, tuple(str(rng.choice(REL13)) for _ in range(3))]):
            dd = dboxes[i % len(dboxes)]
            box = [_clip(interval_for(tr[a], dd[a][0], dd[a][1], int(rng.integers(2))), shape[a]) for a in range(3)]
            dk = ("field", "energy", "poynting")[i]
            spec = {"kind": dk, "name": f"det{i}", "lo": [b[0] for b in box], "hi": [b[1] for b in box]}
            if dk == "poynting":
                spec["axis"] = 0
            s["detectors"].append(spec)
            objs_desc.append((f"det{i}", "detector", box))
    _judge(case, s, shape, dboxes, objs_desc, rng, r)
    return r.to_dict()


def _judge(case, scene, shape, dboxes, objs_desc, rng, r):
    import jax
    import jax.numpy as jnp
    import numpy as np

    from vf import bootstrap, scenes

    fdtdx = bootstrap.ensure()
    built = scenes.build(scene, apply=False)
    objects0, arrays0, params0 = built["objects"], built["arrays"], built["params"]
    placed = {o.name: o for o in objects0.object_list}
    dev_objs = objects0.devices
    # placed boxes must be the requested ones (guards the harness, not the property)
    for name, kind, box in objs_desc:
        got = tuple(tuple(int(x) for x in ax) for ax in placed[name].grid_slice_tuple)
        if got != tuple(tuple(b) for b in box):
            r.inconclusive(f"harness: object {name} placed at {got}, wanted {box}")
            return
    for dv, db in zip(dev_objs, dboxes):
        got = tuple(tuple(int(x) for x in ax) for ax in dv.grid_slice_tuple)
        if got != tuple(tuple(b) for b in db):
            r.inconclusive(f"harness: device placed at {got}, wanted {db}")
            return
    key = jax.random.PRNGKey(int(rng.integers(1 << 30)))
    beta_kw = {}
    # history of two parameter sets: first pushes the device towards its high-index material, second is random
    hist = []
    p1 = {}
    for k, v in params0.items():
        p1[k] = jax.tree.map(lambda a: jnp.ones_like(a) * 0.93, v)
    hist.append(("high", p1))
    p2 = {}
    for k, v in params0.items():
        p2[k] = jax.tree.map(lambda a: jnp.asarray(rng.uniform(0, 1, size=a.shape), dtype=a.dtype), v)
    hist.append(("random", p2))
    arrays, objects = arrays0, objects0
    pre_inv = np.asarray(arrays0.inv_permittivities)
    for hname, p in hist:
        arrays, objects, _ = fdtdx.apply_params(arrays, objects, p, key, **beta_kw)
        post_inv = np.asarray(arrays.inv_permittivities)
        changed = np.any(np.abs(post_inv - pre_inv) > 1e-6 * np.abs(pre_inv), axis=0)
        now = {o.name: o for o in objects.object_list}
        kw = dict(
            inv_permittivities=arrays.inv_permittivities,
            inv_permeabilities=arrays.inv_permeabilities,
            dispersive_c1=arrays.dispersive_c1,
            dispersive_c2=arrays.dispersive_c2,
            dispersive_c3=arrays.dispersive_c3,
            dispersive_c4=arrays.dispersive_c4,
            electric_conductivity=arrays.electric_conductivity,
        )
        for name, kind, box in objs_desc:
            inter = [_intersects(box, db) for db in dboxes]
            r.count("objects_seen")
            rels = ",".join(relation(box[a], dboxes[0][a]) for a in range(3))
            r.branch("relation_class:" + ("intersecting" if any(inter) else "non_intersecting"))
            if not any(inter):
                r.count("non_intersecting_skipped")
                continue
            r.count("objects_judged")
            r.count("intersecting_objects")
            strict = any(_strictly_inside(box, db) for db in dboxes)
            if strict:
                r.count("strictly_inside_objects")
                r.branch("strictly_inside:" + kind)
            obj = now[name]
            flags = [bool(dv.check_overlap(obj)) for dv in dev_objs]
            r.branch("check_overlap:" + ("true" if any(flags) else "false"))
            mech = MECH if (any(inter) and not any(flags)) else None
            sl = tuple(slice(b[0], b[1]) for b in box)
            sees_change = bool(changed[sl].any())
            # detectors driven here keep no material-dependent state (their apply is the base no-op): judged, but trivial
            sig = (kind, rels, case["device_kind"], len(dboxes)) if (sees_change and kind != "detector") else None
            wit = {
                "object": name,
                "kind": kind,
                "box": [list(b) for b in box],
                "device_boxes": [[list(b) for b in db] for db in dboxes],
                "relation_to_device0": rels,
                "strictly_inside_a_device": strict,
                "check_overlap_returned": flags,
                "after_params": hname,
                "scene_shape": shape,
                "device_kind": case["device_kind"],
                "layout_seed": case["layout_seed"],
            }
            fresh = placed[name].apply(key=key, **kw)
            la, treedef_a = jax.tree_util.tree_flatten(obj)
            lb, treedef_b = jax.tree_util.tree_flatten(fresh)
            if len(la) != len(lb):
                r.violate(
                    f"{kind} '{name}': state after apply_params has {len(la)} array leaves, a fresh apply on the post-device arrays has {len(lb)}",
                    wit,
                    mechanism=mech,
                    sig=sig,
                )
                continue
            ok = True
            bad = None  # first differing leaf: (index, description, got, want)
            worst = 0.0
            for i, (a, b) in enumerate(zip(la, lb)):
                r.count("comparisons")
                na, nb = type(a).__name__ == "Null", type(b).__name__ == "Null"
                if na or nb:
                    if na != nb and bad is None:
                        bad = (i, f"is {'unset' if na else 'set'} after apply_params but {'unset' if nb else 'set'} in a fresh apply", None, None)
                    continue
                a, b = np.asarray(a), np.asarray(b)
                if a.shape != b.shape:
                    if bad is None:
                        bad = (i, f"has shape {a.shape}, fresh apply gives {b.shape}", None, None)
                    continue
                if a.size == 0:
                    continue
                if a.dtype == bool or np.issubdtype(a.dtype, np.integer):
                    if not np.array_equal(a, b) and bad is None:
                        bad = (i, "integer/boolean leaf differs", a.reshape(-1)[:6].tolist(), b.reshape(-1)[:6].tolist())
                    continue
                scale = float(np.max(np.abs(b)))
                with np.errstate(invalid="ignore"):
                    diff = np.abs(a - b)
                same_nan = np.isnan(a) & np.isnan(b)
                diff = np.where(same_nan, 0.0, diff)
                err = float(np.max(np.where(np.isfinite(diff), diff, np.inf)))
                rel = err / scale if scale > 0 else (0.0 if err == 0 else np.inf)
                worst = max(worst, rel if np.isfinite(rel) else 1e300)
                if not (err <= 1e-9 * scale) and bad is None:
                    j = int(np.argmax(np.where(np.isfinite(diff), diff, np.inf)))
                    bad = (i, f"differs (rel {rel:.3g})", _num(a.reshape(-1)[j]), _num(b.reshape(-1)[j]))
            r.worst("worst_rel_err_state", worst)
            if bad is None:
                r.ok(sig)
            else:
                ok = False
                _violate(
                    r,
                    f"{kind} '{name}' ({rels}) carries stale state after apply_params[{hname}]: leaf {bad[0]} {bad[1]} from a fresh "
                    f"apply on the post-device arrays",
                    {**wit, "leaf": bad[0], "got": bad[2], "want": bad[3]},
                    mech,
                    sig,
                )
            if kind.startswith("dipole"):
                # independent of the library's apply: cached local inverse permittivity == array at the cell
                cell = tuple(b[0] for b in box)
                want = post_inv[(slice(None),) + cell]
                unset = type(obj._inv_eps_local).__name__ == "Null"
                got = np.zeros(0) if unset else np.asarray(obj._inv_eps_local, dtype=float).reshape(-1)
                if arrays.dispersive_c1 is None:
                    r.count("comparisons")
                    w = want.reshape(-1)
                    if got.shape == w.shape and np.all(np.abs(got - w) <= 1e-9 * np.max(np.abs(w))):
                        r.ok(sig)
                    elif ok:  # stale state already reported for this object otherwise
                        _violate(
                            r,
                            f"{kind} '{name}' ({rels}): cached local inverse permittivity is not the post-device value at its cell",
                            {**wit, "cached": got.tolist(), "post_device": w.tolist(), "pre_device": pre_inv[(slice(None),) + cell].tolist()},
                            mech,
                            sig,
                        )
                    else:
                        r.count("dipole_inv_eps_stale")
            if r.sample is None and strict and kind != "detector":
                r.sample = {"object": name, "kind": kind, "relations": rels, "check_overlap": flags, "state_matches_fresh_apply": ok}


def _num(x):
    import numpy as np

    x = np.asarray(x)
    if np.iscomplexobj(x):
        return [float(x.real), float(x.imag)]
    return float(x)


def _violate(r, what, wit, mech, sig):
    """Record a violation; witnesses of the already classified mechanism are capped at 3 per case so that they can
    never crowd a differently classified violation out of the per-case list."""
    if mech is not None:
        n = r.counters.get("violations_with_mechanism:" + mech, 0)
        r.count("violations_with_mechanism:" + mech)
        if n >= 3:
            r.evals += 1
            return
    r.violate(what, wit, mechanism=mech, sig=sig)

"""C27 — placement does not depend on the order of the object list or of the constraint list.

Every system (the random hidden-layout systems and a stride of the bounded family of
`vf.oracles.placement_gen`) is resolved with the real `fdtdx.resolve_object_constraints` in its generated
order and again under 3..10 permutations (constraints only / objects only, volume included / both; the reversed
constraint list is always among them).  All runs must agree on success-or-failure and, when they succeed, on
every resolved slice.  A disagreement is classified with the C26 oracle: if the successful order violates a
documented rule the success itself is wrong (a conflict the solver never looked at); otherwise some order
reports a conflict that does not exist.
"""

from __future__ import annotations

PROPERTY = "C27"
RULE = (
    "one evaluation = one permuted run compared with the run in generated order (success flag, and all slices when "
    "both succeed); permutations that equal the identity are not counted; distinct = (source, grid kind, mode/family, "
    "constraint kinds, outcome, what was permuted); non-trivial = the permutation really changes the order of >= 2 "
    "constraints or >= 2 objects"
)
REQUIRED_COUNTERS = ["permuted_runs", "successes", "failures"]
ASSUMPTIONS = [
    "success = resolve_object_constraints returned no error message and did not raise (what place_objects keys on)",
    "slices are compared only between successful runs (a failed placement has no resolved slices)",
    "the volume takes part in the object permutation (it is identified by type, not by position)",
]
CASE_TIMEOUT = {"quick": 600, "thorough": 1800}


def EXHAUSTIVE(tier):
    return False


def cases(tier, rng):
    from vf.oracles import placement_gen as G

    n_fam = len(G.family_params())
    out = []
    if tier == "quick":
        stride, nblk, nrand, per = 13, 4, 20, 45
    else:
        stride, nblk, nrand, per = 2, 28, 200, 220
    out.append({"kind": "regression"})
    idx = list(range(int(rng.integers(stride)), n_fam, stride))
    blk = (len(idx) + nblk - 1) // nblk
    for b in range(nblk):
        part = idx[b * blk : (b + 1) * blk]
        if part:
            out.append({"kind": "family", "first": part[0], "stride": stride, "count": len(part)})
    for _ in range(nrand):
        out.append({"kind": "random", "n": per})
    return out


def _perms(rng, n_obj, n_con, k):
    """k (obj_perm, con_perm, tag) triples; identity permutations are returned as None."""
    import numpy as np

    out = []
    if n_con >= 2:
        out.append((None, list(range(n_con - 1, -1, -1)), "con"))
    for j in range(k):
        which = j % 3
        op = cp = None
        if which in (1, 2) and n_obj >= 2:
            op = [int(i) for i in rng.permutation(n_obj)]
            if op == list(range(n_obj)):
                op = op[1:] + op[:1]
        if which in (0, 2) and n_con >= 2:
            cp = [int(i) for i in rng.permutation(n_con)]
            if cp == list(range(n_con)):
                cp = cp[1:] + cp[:1]
        if op is None and cp is None:
            continue
        out.append((op, cp, "both" if (op and cp) else ("obj" if op else "con")))
    del np
    return out


def _det_orders(n_obj, n_con):
    """Deterministic orders used while shrinking a witness."""
    ro = list(range(n_obj - 1, -1, -1))
    rc = list(range(n_con - 1, -1, -1))
    out = [(None, None)]
    if n_con >= 2:
        out += [(None, rc), (None, list(range(1, n_con)) + [0]), (None, [n_con - 1] + list(range(n_con - 1)))]
    if n_obj >= 2:
        out += [(ro, None)]
    if n_con >= 2 and n_obj >= 2:
        out += [(ro, rc)]
    return out


def _outcomes_differ(a, b):
    if a[0] is None or b[0] is None:
        return "crash" if a[0] is not b[0] else None
    if a[0] != b[0]:
        return "success"
    if a[0] and a[1] != b[1]:
        return "slices"
    return None


def _classify(fdtdx, plain, base, other, what):
    from vf.checks import c26
    from vf.oracles import placement_gen as G

    if what == "crash":
        bad = base if base[0] is None else other
        return "order-dependent-crash:" + str(bad[2].get("__crashed__", "")).split(":")[0]
    if what == "success":
        good = base if base[0] else other
        V, _ = G.verify(plain, good[1])
        if V:
            return "order-dependent-success:" + c26.classify(fdtdx, plain, good[1], V[0])
        return "order-dependent-success:conflict-reported-in-some-order-only"
    for run in (base, other):
        V, _ = G.verify(plain, run[1])
        if V:
            return "order-dependent-slices:" + c26.classify(fdtdx, plain, run[1], V[0])
    return "order-dependent-slices:both-outcomes-satisfy-every-rule"


def compare_orders(fdtdx, system, rng, r, source, sig_extra, k):
    from vf.oracles import placement_gen as G

    plain = G.strip_meta(system)
    n_obj = len(plain["objects"]) + 1
    n_con = len(plain["constraints"])
    base = G.resolve(fdtdx, plain)
    r.count("successes" if base[0] else "failures")
    gk = "nonuniform" if system["nonuniform"] else system["grid"]["kind"]
    kinds = ",".join(sorted({c["k"] for c in plain["constraints"]}))
    reported = set()
    for op, cp, tag in _perms(rng, n_obj, n_con, k):
        other = G.resolve(fdtdx, G.permuted(plain, op, cp), crash_ok=True)
        r.count("permuted_runs")
        r.branch(f"perm:{tag}:{'ok' if base[0] else 'fail'}")
        what = _outcomes_differ(base, other)
        sig = f"{source}|{gk}|{sig_extra}|{kinds}|{'ok' if base[0] else 'fail'}|{tag}"
        if what is None:
            r.ok(sig)
            continue
        mech = _classify(fdtdx, plain, base, other, what)
        if mech in reported:
            r.count("violations_same_system")
            continue
        reported.add(mech)

        def still_bad(t, what=what):
            no, nc = len(t["objects"]) + 1, len(t["constraints"])
            runs = [G.resolve(fdtdx, G.permuted(t, a, b), crash_ok=True) for a, b in _det_orders(no, nc)]
            return any(_outcomes_differ(runs[0], x) == what for x in runs[1:])

        small = G.shrink(plain, still_bad, budget=50) if len(r.violations) < 3 else plain
        wit = {"system": small}
        if small is plain or small == plain:
            wit.update({"obj_order": op, "con_order": cp, "generated_order": {"ok": base[0], "slices": base[1], "errors": _short(base[2])}, "permuted": {"ok": other[0], "slices": other[1], "errors": _short(other[2])}})
        else:
            no, nc = len(small["objects"]) + 1, len(small["constraints"])
            runs = [(a, b, G.resolve(fdtdx, G.permuted(small, a, b), crash_ok=True)) for a, b in _det_orders(no, nc)]
            wit["runs"] = [{"obj_order": a, "con_order": b, "ok": x[0], "slices": x[1], "errors": _short(x[2])} for a, b, x in runs]
        r.violate(
            f"permuting the {'constraint' if tag == 'con' else 'object' if tag == 'obj' else 'object and constraint'} list changed the {'outcome (success vs failure)' if what == 'success' else 'resolved slices' if what == 'slices' else 'outcome (crash in one order only)'}",
            wit,
            mechanism=mech,
            sig=sig,
        )
    return base


def _short(errs):
    if not errs:
        return errs
    return {k: str(v)[:160] for k, v in errs.items()}


def run_case(case):
    import numpy as np

    from vf import bootstrap
    from vf.result import Res

    fdtdx = bootstrap.ensure()
    from vf.oracles import placement_gen as G

    r = Res()
    rng = np.random.default_rng(case["seed"])
    if case["kind"] == "family":
        P = G.family_params()
        for j in range(case["count"]):
            p = P[case["first"] + j * case["stride"]]
            system = G.family_system(p)
            compare_orders(fdtdx, system, rng, r, "fam", f"{p['fam']}|{'3obj' if p['third'] else '2obj'}", 3)
    elif case["kind"] == "random":
        for j in range(case["n"]):
            system = G.gen_system(rng)
            m = system["meta"]
            base = compare_orders(fdtdx, system, rng, r, "rnd", m["mode"], int(rng.integers(3, 11)))
            r.branch(f"rnd:{m['mode']}:{m['grid_kind']}:{'ok' if base[0] else 'fail'}")
            for e in m["extras"]:
                r.branch(f"extra:{e}")
            if r.sample is None and base[0] and len(system["constraints"]) >= 4:
                r.sample = {"system": G.strip_meta(system), "slices": base[1]}
    else:
        _regression(fdtdx, rng, r)
    return r.to_dict()


def _regression(fdtdx, rng, r):
    """Hand-written hostile orderings: a relation listed before the constraints that pin both objects."""
    from vf.oracles import placement_gen as G

    for gk in ("uniform", "nonuniform_b"):
        for consistent in (True, False):
            system = G.pinned_pair_system(gk, consistent)
            compare_orders(fdtdx, system, rng, r, "reg", f"pinned-pair|{'consistent' if consistent else 'conflict'}", 6)
    for conflict in (True, False):
        compare_orders(fdtdx, G.rpos_conflict_system(True, conflict), rng, r, "reg", f"rpos|{'conflict' if conflict else 'consistent'}", 3)

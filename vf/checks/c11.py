"""C11 — forcing complex field storage reproduces the real-valued run.

For every seeded random scene (no Bloch phase) the scene is built and run twice through the public API:
`SimulationConfig(use_complex_fields=None)` (auto -> real storage) and `use_complex_fields=True`.
Oracle (written from the property statement, nothing of fdtdx is re-implemented):

* the complex run really allocated complex E/H (otherwise the pair is not evidence: inconclusive) and the
  reference run really is real;
* Re(E), Re(H) equal the real run, max|Im| <= 1e-9 * max|Re| (observed: exactly 0);
* PML auxiliary fields and dispersive polarisations likewise;
* every detector state array has the same shape / dtype and equal values, and the documented
  post-processing of the frequency-domain flux detectors (`compute_poynting_flux`, `compute_net_flux`)
  gives equal numbers;
* in a quarter of the scenes `use_complex_fields=False` is run too and must equal the auto run.
"""

from __future__ import annotations

PROPERTY = "C11"
RULE = (
    "seeded random scenes (8..14 cells per axis, 10..25 steps, float64): per-face boundaries from "
    "none/pec/pmc/periodic-pair/pml(2-4), background, 1-2 material boxes (iso/diag/full tensor/lossy/magnetic/"
    "Lorentz/Drude), 1-2 sources (electric+magnetic dipoles, uniform/gaussian plane sources of both directions on "
    "every axis, TFSF box), 4-7 detectors over all 7 kinds and their modes; each scene is run with real and with "
    "forced complex storage; an evaluation is one compared array; it is non-trivial when the reference array is "
    "non-zero; distinct = (array class incl. detector kind/mode/shape class, boundary kinds present, material classes)"
)
REQUIRED_COUNTERS = ["comparisons", "pairs_complex_confirmed", "imag_checks"]
ASSUMPTIONS = [
    "float64 (complex128) runs; equality judged at rtol 1e-9 of the array's max magnitude, imaginary parts at 1e-9 of the real part's max",
    "mode-overlap, diffractive and field-projection detectors are not driven (external mode solver / far-field machinery dominate the budget)",
    "sources are kept outside anisotropic boxes and >= 1 cell away from PML slabs (documented placement rules)",
    "PoyntingFlux detectors with keep_all_components=True are only driven as single-cell detectors: on any larger "
    "detector place_objects raises for every storage mode (jnp.stack of unequal face-area shapes) — reported separately",
    "periodic faces are BlochBoundary objects with zero Bloch vector; non-zero Bloch phases are outside the statement",
]
CASE_TIMEOUT = {"quick": 900, "thorough": 2400}

RTOL = 1e-9


def cases(tier, rng):
    # one pair costs 10-20 CPU s (almost all of it XLA compilation of the two differently typed programs)
    n_cases, per = (8, 1) if tier == "quick" else (56, 3)
    out = []
    for i in range(n_cases):
        out.append({"kind": "pairs", "n": per, "scene_seed": int(rng.integers(1 << 30)), "force": i % 8, "third": tier != "quick"})
    # mode sources: the eigenmode of a lossy cross-section is complex, that of a lossless one real; both are injected
    # through their own path (built with the public helpers, not the scene DSL)
    for i in range(2 if tier == "quick" else 8):
        out.append(
            {
                "kind": "mode_source",
                "n": 1,
                "sigma": [2.0e4, 0.0, 5.0e3, 8.0e4][i % 4],
                "pol": ["te", "tm"][(i // 2) % 2],
                "direction": "+-"[(i // 4) % 2],
                "core_cells": int(rng.integers(4, 7)),
                "steps_fs": float(rng.uniform(12.0, 20.0)),
            }
        )
    return out


def _gen(case, j):
    import numpy as np

    from vf.oracles import randscene

    rng = np.random.default_rng([case["scene_seed"], j])
    # rotate guaranteed ingredients so that even a quick run drives every detector kind and the TFSF path
    f = (case.get("force", 0) + j) % 8
    must = {
        0: ("phasor_poynting", "closed_phasor_poynting"),
        1: ("poynting", "closed_poynting"),
        2: ("field", "energy", "phasor"),
        3: ("phasor_poynting", "energy"),
        4: ("closed_phasor_poynting", "field"),
        5: ("phasor", "poynting"),
        6: ("energy", "closed_poynting"),
        7: ("field", "phasor_poynting"),
    }[f]
    first = ("dipole", "uniform", "gaussian", "tfsf", "dipole", "uniform", "dipole", "gaussian")[f]
    # a full-tensor box switches the whole scene to the 9-component kernels; the aligned-dipole slots keep the
    # 1/3-component kernels (the most common configuration) in play
    mc = ("iso", "diag", "lossy", "magnetic", "lossy_mag", "lossy_mag_vec") if f in (0, 4) else None
    scene, tags = randscene.random_scene(rng, must_have=must, dispersive_prob=0.15, first_source=first, allowed_mats=mc)
    # the three dipole slots drive the three injection paths: aligned electric, aligned magnetic, rotated
    d0 = scene["sources"][0]
    if d0["kind"] == "dipole":
        if f == 0:
            d0["source_type"] = "electric"
            d0.pop("azimuth_angle", None)
            d0.pop("elevation_angle", None)
        elif f == 4:
            d0["source_type"] = "magnetic"
            d0.pop("azimuth_angle", None)
            d0.pop("elevation_angle", None)
        else:
            d0["azimuth_angle"], d0["elevation_angle"] = 25.0, -15.0
        tags["srcs"] = tags["srcs"].replace("dipole-electric", "dipole", 1).replace("dipole-magnetic", "dipole", 1)
    # complex-typed FieldDetector records in some scenes
    for d in scene["detectors"]:
        if d["kind"] == "field" and rng.random() < 0.3:
            d["complex"] = True
    return scene, tags


def run_case(case):
    from vf.result import Res

    r = Res()
    if case.get("kind") == "mode_source":
        _mode_source(case, r)
        return r.to_dict()
    for j in range(case["n"]):
        scene, tags = _gen(case, j)
        _pair(r, scene, tags, case, j, third=bool(case.get("third")) and j % 4 == 1)
    return r.to_dict()


def _mode_source(case, r):
    """ModePlaneSource in a (lossy or lossless) slab waveguide, PML on x/z, periodic y: real vs forced complex storage."""
    import warnings

    import numpy as np

    from vf import bootstrap

    fdtdx = bootstrap.ensure()
    import jax
    import jax.numpy as jnp

    res, pml, wl = 50e-9, 5, 1.55e-6

    def run(use_complex):
        config = fdtdx.SimulationConfig(grid=fdtdx.UniformGrid(spacing=res), time=case["steps_fs"] * 1e-15, dtype=jnp.float64, use_complex_fields=use_complex)
        volume = fdtdx.SimulationVolume(partial_grid_shape=(30, 3, 30))
        objs, cons = [volume], []
        bcfg = fdtdx.BoundaryConfig.from_uniform_bound(thickness=pml, override_types={"min_y": "periodic", "max_y": "periodic"})
        bd, cl = fdtdx.boundary_objects_from_config(bcfg, volume)
        objs += list(bd.values())
        cons += cl
        clad = fdtdx.UniformMaterialObject(name="cladding", partial_real_shape=(None, None, None), material=fdtdx.Material(permittivity=2.25))
        cons += list(clad.same_position_and_size(volume))
        objs.append(clad)
        core = fdtdx.UniformMaterialObject(
            name="core", partial_grid_shape=(None, None, case["core_cells"]), material=fdtdx.Material(permittivity=12.25, electric_conductivity=case["sigma"])
        )
        cons += [core.same_size(volume, axes=(0, 1)), core.place_at_center(volume, axes=(0, 1, 2))]
        objs.append(core)
        wave = fdtdx.WaveCharacter(wavelength=wl)
        src = fdtdx.ModePlaneSource(partial_grid_shape=(1, None, None), wave_character=wave, direction=case["direction"], mode_index=0, filter_pol=case["pol"])
        x_src = pml + 2 if case["direction"] == "+" else 30 - pml - 3
        cons += [src.same_size(volume, axes=(1, 2)), src.place_at_center(volume, axes=(1, 2)), src.set_grid_coordinates(axes=(0,), sides=("-",), coordinates=(x_src,))]
        objs.append(src)
        x_det = 15
        en = fdtdx.EnergyDetector(name="energy", reduce_volume=True, plot=False)
        cons += list(en.same_position_and_size(volume))
        objs.append(en)
        fl = fdtdx.PoyntingFluxDetector(name="flux", partial_grid_shape=(1, None, None), direction="+", reduce_volume=True, plot=False)
        cons += [fl.same_size(volume, axes=(1, 2)), fl.place_at_center(volume, axes=(1, 2)), fl.set_grid_coordinates(axes=(0,), sides=("-",), coordinates=(x_det,))]
        objs.append(fl)
        ph = fdtdx.PhasorDetector(name="phasor", partial_grid_shape=(1, None, None), wave_characters=(wave,), reduce_volume=False, plot=False, dtype=jnp.complex128)
        cons += [ph.same_size(volume, axes=(1, 2)), ph.place_at_center(volume, axes=(1, 2)), ph.set_grid_coordinates(axes=(0,), sides=("-",), coordinates=(x_det,))]
        objs.append(ph)
        key = jax.random.PRNGKey(0)
        with warnings.catch_warnings():
            warnings.simplefilter("ignore")
            oc, arrays, params, config, _ = fdtdx.place_objects(object_list=objs, config=config, constraints=cons, key=key)
            arrays, oc, _ = fdtdx.apply_params(arrays, oc, params, key)
            _, arrays = fdtdx.run_fdtd(arrays=arrays, objects=oc, config=config, key=key, show_progress=False)
        return arrays, oc.sources[0]

    a_r, src = run(None)
    a_c, _ = run(True)
    r.count("pairs")
    r.count("mode_source_pairs")
    wit = {"case": case}
    if jnp.iscomplexobj(a_r.fields.E) or not jnp.iscomplexobj(a_c.fields.E):
        r.inconclusive("mode-source pair: storage types are not (real, complex)")
        return
    prof = np.asarray(src._E)
    mode_im = float(np.abs(prof.imag).max() / max(np.abs(prof).max(), 1e-300)) if np.iscomplexobj(prof) else 0.0
    r.branch("mode_profile:" + ("complex" if mode_im > 1e-6 else "real"))
    sig = ("mode_source", case["pol"], case["direction"], mode_im > 1e-6)
    for nm in ("E", "H"):
        fr, fc = np.asarray(getattr(a_r.fields, nm)), np.asarray(getattr(a_c.fields, nm))
        if not float(np.abs(fr).max()) > 0:
            r.inconclusive("mode source injected nothing")
            return
        r.check_close("re_" + nm, fc.real, fr, RTOL, what=f"mode source: Re({nm}) of the complex-storage run differs from the real-valued run", witness=wit, sig=sig)
        r.check_close("im_" + nm, fc.imag, np.zeros_like(fr), RTOL, what=f"mode source: Im({nm}) of the complex-storage run is not zero", witness=wit, sig=sig, atol=RTOL * float(np.abs(fr).max()))
    for det, key_ in (("energy", "energy"), ("flux", "poynting_flux"), ("phasor", "phasor")):
        r.check_close("det_" + det, np.asarray(a_c.detector_states[det][key_]), np.asarray(a_r.detector_states[det][key_]), RTOL, what=f"mode source: detector {det} differs between complex and real storage", witness=wit, sig=sig)
    r.sample = {"case": case, "mode_profile_imag_fraction": mode_im}


def _scene_sig(scene, tags):
    kinds = sorted({f["type"] for f in scene["faces"].values()})
    return "/".join(kinds) + "|" + tags["mats"]


def _pair(r, scene, tags, case, j, third=False):
    import copy

    import numpy as np

    from vf.oracles import diffrun

    wit = {"scene_seed": case["scene_seed"], "j": j, "force": case.get("force", 0), "scene": scene}
    s_real = copy.deepcopy(scene)
    s_real["complex"] = None
    s_cplx = copy.deepcopy(scene)
    s_cplx["complex"] = True
    b0, st0 = diffrun.run_scene(s_real)
    b1, st1 = diffrun.run_scene(s_cplx)
    a0 = diffrun.collect(b0, st0)
    a1 = diffrun.collect(b1, st1)
    r.count("pairs")
    if np.iscomplexobj(a0["E"]) or not np.iscomplexobj(a1["E"]) or not np.iscomplexobj(a1["H"]):
        # the lever did not do what the statement talks about
        if not np.iscomplexobj(a1["E"]):
            r.violate(
                "use_complex_fields=True did not allocate complex fields",
                {"dtype_E": str(a1["E"].dtype), **wit},
                mechanism="complex-flag-ignored",
            )
        else:
            r.inconclusive("reference run unexpectedly complex")
        return
    r.count("pairs_complex_confirmed")
    if not (np.all(np.isfinite(a0["E"])) and np.all(np.isfinite(a0["H"]))):
        # the REAL-valued run itself is not finite (seen with a plane source whose plane cuts a Lorentz box that has
        # Re(eps) < 0 at the carrier frequency: the injected impedance is not a real number). There is nothing for the
        # complex run to reproduce; the scene is counted, not judged. A non-finite complex run against a finite real
        # run is still a violation below.
        r.count("real_reference_run_not_finite_scenes_skipped")
        r.branch("real_reference_run_not_finite")
        return
    ssig = _scene_sig(scene, tags)
    for f in scene["faces"].values():
        r.branch("face:" + f["type"])
    for t in tags["mats"].split("+"):
        r.branch("mat:" + t)
    for t in tags["srcs"].split(","):
        r.branch("src:" + t.split("-")[0])
    for t in tags["dets"]:
        r.branch("det:" + t.split(":")[0])
    if int(st0[0]) != int(st1[0]) or int(st0[0]) != scene["steps"]:
        r.violate("final time step differs", {"real": int(st0[0]), "complex": int(st1[0]), "T": scene["steps"], **wit})
    nontrivial = float(np.abs(a0["E"]).max()) > 0 and float(np.abs(a0["H"]).max()) > 0
    if not nontrivial:
        r.count("trivial_scenes")
    _compare(r, a0, a1, ssig, tags, wit, "complex-vs-real")
    if third:
        s_f = copy.deepcopy(scene)
        s_f["complex"] = False
        b2, st2 = diffrun.run_scene(s_f)
        a2 = diffrun.collect(b2, st2)
        r.count("pairs_explicit_false")
        _compare(r, a0, a2, ssig, tags, wit, "false-vs-auto")
    if r.sample is None:
        r.sample = {
            "shape": scene["shape"],
            "steps": scene["steps"],
            "faces": tags["faces"],
            "materials": tags["mats"],
            "sources": tags["srcs"],
            "detectors": tags["dets"],
            "max|E|": float(np.abs(a0["E"]).max()),
            "max|Im E| complex run": float(np.abs(a1["E"].imag).max()),
            "max|Re E - E_real|": float(np.abs(a1["E"].real - a0["E"]).max()),
        }


def _compare(r, ref, got, ssig, tags, wit, what):
    import numpy as np

    from vf.oracles import diffrun

    # E, H, the PML auxiliaries and FieldDetector records share one unit system; an array that is tiny
    # compared with the fields it is differenced from (psi next to a source, a detector in the shadow)
    # carries round-off of the *operands*' size.  Floor: 1e-12 of the largest field value.
    fmax = max(float(np.abs(ref["E"]).max()), float(np.abs(ref["H"]).max()))
    floor = 1e-12 * fmax
    kind_by_name = {d["name"]: d["kind"] for d in wit["scene"]["detectors"]}
    for name, want in ref.items():
        cls = diffrun.detector_tag(name, tags["det_by_name"])
        sig = f"{cls}|{ssig}"
        w = dict(wit)
        w["array"] = name
        w["comparison"] = what
        if name not in got:
            r.violate(f"{what}: array {name} missing", w, mechanism="missing-array:" + name.split("/")[0])
            continue
        g = got[name]
        is_field = not name.startswith(("det/", "flux/", "netflux/"))
        if is_field:
            if g.shape != want.shape:
                r.violate(f"{what}: {name} shape {g.shape} != {want.shape}", w, mechanism="field-shape")
                continue
            scale = float(np.abs(want).max())
            r.check_close(
                "re_" + name.split("/")[0], np.real(g), np.real(want), RTOL, witness=w, sig=sig,
                mechanism="complex-real-part:" + name.split("/")[0], atol=floor if name.startswith("psi") else 0.0,
            )
            if np.iscomplexobj(g):
                im = float(np.abs(g.imag).max()) if g.size else 0.0
                r.count("imag_checks")
                r.worst("worst_imag_over_real", im / scale if scale > 0 else (0.0 if im == 0 else 1e300))
                if im <= RTOL * scale + (floor if name.startswith("psi") else 0.0):
                    r.ok(sig if scale > 0 else None)
                else:
                    idx = np.unravel_index(int(np.argmax(np.abs(g.imag))), g.shape)
                    w2 = dict(w)
                    w2.update({"max_abs_imag": im, "max_abs_real": scale, "index": [int(i) for i in idx]})
                    r.violate(
                        f"{what}: imaginary part of {name} is not zero ({im:.3e} vs real scale {scale:.3e})",
                        w2, mechanism="complex-imag-nonzero:" + name.split("/")[0], sig=sig,
                    )
        else:
            if g.dtype != want.dtype:
                w2 = dict(w)
                w2.update({"got_dtype": str(g.dtype), "want_dtype": str(want.dtype)})
                r.violate(f"{what}: {name} dtype {g.dtype} != {want.dtype}", w2, mechanism="detector-dtype")
                continue
            dk = kind_by_name.get(name.split("/")[1], "?")
            r.check_close(
                "det_" + dk + ("_post" if not name.startswith("det/") else ""), g, want, RTOL, witness=w, sig=sig,
                mechanism="complex-detector:" + dk, atol=floor if dk == "field" else 0.0,
            )
    for name in got:
        if name not in ref:
            r.violate(f"{what}: extra array {name}", {"array": name, **wit}, mechanism="extra-array:" + name.split("/")[0])

#!/bin/bash
# usage: tools/run_all.sh quick|thorough [ids...]   -- runs checks sequentially, prints one line each
cd "$(dirname "$(readlink -f "$0")")/.." || exit 2
tier=${1:-quick}; shift
ids="$@"
if [ -z "$ids" ]; then ids=$(ls vf/checks/c*.py | sed 's#.*/c\([0-9]*\)\.py#C\1#' | sort); fi
for id in $ids; do
  s=$(date +%s)
  out=$(./check $id --tier $tier 2>&1); rc=$?
  e=$(date +%s)
  echo "$id rc=$rc wall=$((e-s))s $(echo "$out" | grep -c '^KNOWN-FINDING') known | $(echo "$out" | grep "tier=" | cut -c1-160)"
  if [ $rc -ne 0 ]; then echo "$out" | grep -v "^  witness" | grep "VIOLATION\|INCONCLUSIVE\|what:" | cut -c1-300 | head -6; fi
done

"""Constraint systems for the placement checks (C26, C27) and the independent placement oracle.

A *system* is a JSON-able dict

    {"shape": [nx, ny, nz],
     "grid": {"kind": "uniform", "spacing": s} | {"kind": "rect", "edges": [[..], [..], [..]]},
     "nonuniform": bool,                       # what the generator intended (cross-checked against fdtdx)
     "objects": [{"name", "gshape": [..|None]*3, "rshape": [..|None]*3, "rpos": [..|None]*3}, ...],
     "constraints": [{"k": "pos"|"size"|"ext"|"gc"|"rc", ...}, ...],
     "obj_order": [...], "con_order": [...]}   # optional permutations applied by `build`

The volume is implicit (name "vol", `partial_grid_shape == shape`) and is always part of the object
list.  Everything here is numpy / pure python except `build`, which needs the fdtdx module.

The oracle (`verify`) is written from the documented meaning of each constraint
(`SimulationObject.place_relative_to`, `size_relative_to`, `extend_to`, `set_grid_coordinates`,
`RealCoordinateConstraint`, `RectilinearGrid.bounds_for_anchor/bounds_for_center/coord_to_index`,
`_real_length_to_grid_size` docstring) and re-evaluates every rule on the FINAL slices by brute force
over all candidate intervals / edges; every minimiser of a tie is accepted.
"""

from __future__ import annotations

import itertools
import math

import numpy as np

VOL = "vol"
REL_TOL = 1e-9  # fraction of the smallest cell width within which two candidates count as tied


# --------------------------------------------------------------------------------------------
# geometry helpers (independent of fdtdx)
# --------------------------------------------------------------------------------------------
def edges_of(system):
    """Physical edge coordinates per axis as the documentation defines them."""
    g = system["grid"]
    shape = system["shape"]
    if g["kind"] == "uniform":
        c = g.get("center", [0.0, 0.0, 0.0])
        return [(np.arange(n + 1, dtype=np.float64) - n / 2.0) * g["spacing"] + c[a] for a, n in enumerate(shape)]
    return [np.asarray(e, dtype=np.float64) for e in g["edges"]]


def min_width(edges):
    return min(float(np.min(np.diff(e))) for e in edges)


def classify_nonuniform(edges):
    """Documented uniformity: all widths on all axes equal the first x width (relative 1e-4)."""
    w0 = float(edges[0][1] - edges[0][0])
    dev = max(float(np.max(np.abs(np.diff(e) - w0))) for e in edges)
    return dev > 1e-3 * abs(w0), dev / abs(w0)


def anchor(e, lo, hi, pos):
    return float(e[lo] + 0.5 * (pos + 1.0) * (e[hi] - e[lo]))


def nearest_set(e, coord, tol):
    d = np.abs(e - coord)
    return {int(i) for i in np.nonzero(d <= d.min() + tol)[0]}, float(d.min())


def interval_set(e, size, pos, target, tol):
    """All lower indices lo in [0, N-size] whose anchor at relative `pos` is closest to target."""
    n = len(e) - 1
    if size <= 0 or size > n:
        return set(), math.inf
    lo = np.arange(0, n - size + 1)
    a = e[lo] + 0.5 * (pos + 1.0) * (e[lo + size] - e[lo])
    d = np.abs(a - target)
    return {int(i) for i in lo[d <= d.min() + tol]}, float(d.min())


def count_set(e, length, nonuniform, minw, tol):
    """Admissible cell counts for a physical length (documented `_real_length_to_grid_size` rule).

    uniform: nearest edge counted from the lower domain edge (ties: both);
    non-uniform: the count whose edge matches the length exactly (1e-6 of the smallest cell), else the
    smallest count that covers the length, clamped to the axis size.  None = must be rejected."""
    if length < -tol:
        return None
    n = len(e) - 1
    rel = e - e[0]
    if not nonuniform:
        s, _ = nearest_set(rel, length, tol)
        return s
    d = np.abs(rel - length)
    i = int(np.argmin(d))
    if d[i] < 1e-6 * minw * (1 + 1e-3):
        out = {i}
        if d[i] > 1e-6 * minw * (1 - 1e-3):  # on the alignment threshold itself: either reading
            out.add(min(int(np.searchsorted(rel, length, side="left")), n))
        return out
    return {min(int(np.searchsorted(rel, length, side="left")), n)}


# --------------------------------------------------------------------------------------------
# build fdtdx inputs
# --------------------------------------------------------------------------------------------
def build(fdtdx, system, use_helpers=True):
    """-> (objects, constraints, config).  Orders follow system['obj_order'] / ['con_order']."""
    import jax.numpy as jnp

    g = system["grid"]
    if g["kind"] == "uniform":
        grid = fdtdx.UniformGrid(spacing=g["spacing"], center=tuple(g.get("center", (0.0, 0.0, 0.0))))
    else:
        e = g["edges"]
        grid = fdtdx.RectilinearGrid(
            x_edges=jnp.asarray(e[0], dtype=jnp.float64),
            y_edges=jnp.asarray(e[1], dtype=jnp.float64),
            z_edges=jnp.asarray(e[2], dtype=jnp.float64),
        )
    config = fdtdx.SimulationConfig(grid=grid, time=1e-15, symmetry=tuple(system.get("symmetry", (0, 0, 0))))
    mat = fdtdx.Material()
    objs = {VOL: fdtdx.SimulationVolume(partial_grid_shape=tuple(system["shape"]), name=VOL)}
    for o in system["objects"]:
        objs[o["name"]] = fdtdx.UniformMaterialObject(
            partial_grid_shape=tuple(o.get("gshape", (None, None, None))),
            partial_real_shape=tuple(o.get("rshape", (None, None, None))),
            partial_real_position=tuple(o.get("rpos", (None, None, None))),
            material=mat,
            name=o["name"],
        )
    from fdtdx.objects.object import RealCoordinateConstraint

    cons = []
    for c in system["constraints"]:
        k = c["k"]
        ob = objs[c["obj"]]
        if k == "pos":
            cons.append(
                ob.place_relative_to(
                    objs[c["other"]],
                    axes=tuple(c["axes"]),
                    own_positions=tuple(float(x) for x in c["own"]),
                    other_positions=tuple(float(x) for x in c["oth"]),
                    margins=tuple(float(x) for x in c["margins"]),
                    grid_margins=tuple(int(x) for x in c["gmargins"]),
                )
            )
        elif k == "size":
            cons.append(
                ob.size_relative_to(
                    objs[c["other"]],
                    axes=tuple(c["axes"]),
                    other_axes=tuple(c["other_axes"]),
                    proportions=tuple(float(x) for x in c["prop"]),
                    offsets=tuple(float(x) for x in c["off"]),
                    grid_offsets=tuple(int(x) for x in c["goff"]),
                )
            )
        elif k == "ext":
            cons.append(
                ob.extend_to(
                    None if c["other"] is None else objs[c["other"]],
                    axis=int(c["axis"]),
                    direction=c["dir"],
                    other_position=None if c["other"] is None else float(c["opos"]),
                    offset=float(c.get("off", 0.0)),
                    grid_offset=int(c.get("goff", 0)),
                )
            )
        elif k == "gc":
            cons.append(
                ob.set_grid_coordinates(axes=tuple(c["axes"]), sides=tuple(c["sides"]), coordinates=tuple(int(x) for x in c["coords"]))
            )
        elif k == "rc":
            cons.append(
                RealCoordinateConstraint(
                    object=c["obj"], axes=tuple(c["axes"]), sides=tuple(c["sides"]), coordinates=tuple(float(x) for x in c["coords"])
                )
            )
        else:
            raise ValueError(k)
    names = [VOL] + [o["name"] for o in system["objects"]]
    oo = system.get("obj_order")
    if oo is not None:
        names = [names[i] for i in oo]
    co = system.get("con_order")
    if co is not None:
        cons = [cons[i] for i in co]
    return [objs[n] for n in names], cons, config


def resolve(fdtdx, system, crash_ok=False):
    """Run the real solver.  -> (ok, slices|None, errors|exception text).

    ok is True / False, or None when `crash_ok` and the solver crashed with something that is not a
    documented rejection (without `crash_ok` such an exception propagates)."""
    objects, cons, config = build(fdtdx, system)
    try:
        slices, errors = fdtdx.resolve_object_constraints(objects=objects, constraints=cons, config=config)
    except Exception as e:  # noqa: BLE001
        # documented rejections are raised as ValueError or as a bare Exception; anything else
        # (IndexError, TypeError, ...) is a crash and must surface as such
        if not (isinstance(e, ValueError) or type(e) is Exception):
            if crash_ok:
                return None, None, {"__crashed__": f"{type(e).__name__}: {e}"}
            raise
        return False, None, {"__raised__": f"{type(e).__name__}: {e}"}
    failed = {k: v for k, v in errors.items() if v}
    ok = not failed
    out = {k: [[v[a][0], v[a][1]] for a in range(3)] for k, v in slices.items()}
    return ok, out, failed


# --------------------------------------------------------------------------------------------
# the oracle
# --------------------------------------------------------------------------------------------
def verify(system, slices):
    """Judge the final slices of a SUCCESSFUL placement.  -> (violations, stats)

    violations: list of {"rule", "what", "constraint"/"object", "axis", "got", "accept"}
    stats: {"rules": n rules evaluated, "max_residual_cells": worst |anchor-target| in cells,
            "clamped": number of rules whose best in-volume candidate is > 1 cell from the target
                       (first few listed in "clamped_items"),
            "ties": rules with more than one minimiser}
    """
    E = edges_of(system)
    shape = system["shape"]
    minw = min_width(E)
    tol = REL_TOL * minw
    nonuni = bool(system["nonuniform"])
    spacing = float(E[0][1] - E[0][0])  # only used when uniform
    V = []
    st = {"rules": 0, "max_residual_cells": 0.0, "clamped": 0, "ties": 0, "clamped_items": []}

    def res(axis, d, what=None):
        w = float(np.max(np.diff(E[axis])))
        st["max_residual_cells"] = max(st["max_residual_cells"], d / w)
        if d > w * (1 + 1e-9):
            st["clamped"] += 1
            if len(st["clamped_items"]) < 4:
                st["clamped_items"].append({"where": what, "axis": axis, "residual_cells": d / w})

    # -- containment, volume ------------------------------------------------------------------
    if slices.get(VOL) != [[0, shape[a]] for a in range(3)]:
        V.append({"rule": "volume", "what": "volume slice is not the whole grid", "got": slices.get(VOL)})
    sl = {}
    for o in system["objects"]:
        s = slices.get(o["name"])
        if s is None or any(x is None for ax in s for x in ax):
            V.append({"rule": "resolved", "what": "object unresolved on success", "object": o["name"], "got": s})
            continue
        sl[o["name"]] = s
        for a in range(3):
            st["rules"] += 1
            lo, hi = s[a]
            if not (0 <= lo < hi <= shape[a]):
                V.append({"rule": "inside", "what": "slice outside the volume or empty", "object": o["name"], "axis": a, "got": [lo, hi], "accept": [0, shape[a]]})
    if V:
        return V, st  # the other rules index edge arrays with these bounds
    sl[VOL] = [[0, shape[a]] for a in range(3)]

    # -- static size / position specifications ------------------------------------------------
    touched = set()
    for o in system["objects"]:
        name = o["name"]
        for a in range(3):
            lo, hi = sl[name][a]
            gs = o.get("gshape", [None] * 3)[a]
            rs = o.get("rshape", [None] * 3)[a]
            rp = o.get("rpos", [None] * 3)[a]
            if gs is not None:
                touched.add((name, a))
                st["rules"] += 1
                if hi - lo != gs:
                    V.append({"rule": "grid_shape", "what": "partial_grid_shape not honoured", "object": name, "axis": a, "got": hi - lo, "accept": [gs]})
            elif rs is not None:
                touched.add((name, a))
                st["rules"] += 1
                acc = count_set(E[a], rs, nonuni, minw, tol)
                if acc is None or (hi - lo) not in acc:
                    V.append({"rule": "real_shape", "what": "partial_real_shape snapped to a wrong cell count", "object": name, "axis": a, "got": hi - lo, "accept": sorted(acc or [])})
            if rp is not None:
                touched.add((name, a))
                st["rules"] += 1
                target = rp + 0.5 * (float(E[a][0]) + float(E[a][-1]))
                acc, dmin = interval_set(E[a], hi - lo, 0.0, target, tol)
                res(a, dmin, f"partial_real_position of {name}")
                st["ties"] += len(acc) > 1
                if lo not in acc:
                    V.append({"rule": "real_position", "what": "partial_real_position not honoured", "object": name, "axis": a, "got": [lo, hi], "accept": sorted(acc)})

    # -- constraints ---------------------------------------------------------------------------
    for ci, c in enumerate(system["constraints"]):
        k = c["k"]
        name = c["obj"]
        if k == "pos":
            for i, a in enumerate(c["axes"]):
                touched.add((name, a))
                st["rules"] += 1
                if nonuni and c["gmargins"][i] not in (0, None):
                    V.append({"rule": "pos", "what": "index-space margin accepted on a non-uniform grid", "constraint": ci, "axis": a})
                    continue
                lo, hi = sl[name][a]
                olo, ohi = sl[c["other"]][a]
                target = anchor(E[a], olo, ohi, c["oth"][i]) + c["margins"][i]
                if c["gmargins"][i]:
                    target += c["gmargins"][i] * spacing
                acc, dmin = interval_set(E[a], hi - lo, c["own"][i], target, tol)
                res(a, dmin, f"constraint {ci} (pos)")
                st["ties"] += len(acc) > 1
                if lo not in acc:
                    V.append({"rule": "pos", "what": "position constraint: chosen interval is not a closest one", "constraint": ci, "axis": a, "got": [lo, hi], "accept": sorted(acc), "target": target})
        elif k == "size":
            for i, a in enumerate(c["axes"]):
                touched.add((name, a))
                st["rules"] += 1
                if nonuni and c["goff"][i] not in (0, None):
                    V.append({"rule": "size", "what": "index-space size offset accepted on a non-uniform grid", "constraint": ci, "axis": a})
                    continue
                b = c["other_axes"][i]
                olo, ohi = sl[c["other"]][b]
                length = float(E[b][ohi] - E[b][olo]) * c["prop"][i] + c["off"][i]
                if c["goff"][i]:
                    length += c["goff"][i] * spacing
                lo, hi = sl[name][a]
                acc = count_set(E[a], length, nonuni, minw, tol)
                if acc is not None:
                    st["ties"] += len(acc) > 1
                if acc is None or (hi - lo) not in acc:
                    V.append({"rule": "size", "what": "size constraint: cell count is not the documented snapping of the target length", "constraint": ci, "axis": a, "got": hi - lo, "accept": sorted(acc or []), "target": length})
        elif k == "ext":
            a = c["axis"]
            touched.add((name, a))
            st["rules"] += 1
            side = 0 if c["dir"] == "-" else 1
            got = sl[name][a][side]
            if c["other"] is None:
                want = {0 if side == 0 else shape[a]}
            else:
                if nonuni and c.get("goff", 0) not in (0, None):
                    V.append({"rule": "ext", "what": "index-space extension offset accepted on a non-uniform grid", "constraint": ci, "axis": a})
                    continue
                olo, ohi = sl[c["other"]][a]
                target = anchor(E[a], olo, ohi, c["opos"]) + c.get("off", 0.0)
                if c.get("goff", 0):
                    target += c["goff"] * spacing
                want, dmin = nearest_set(E[a], target, tol)
                res(a, dmin, f"constraint {ci} (ext)")
                st["ties"] += len(want) > 1
            if got not in want:
                V.append({"rule": "ext", "what": "extension constraint: bound is not a nearest edge to the target", "constraint": ci, "axis": a, "got": got, "accept": sorted(want)})
        elif k == "gc":
            for i, a in enumerate(c["axes"]):
                touched.add((name, a))
                st["rules"] += 1
                if nonuni:
                    V.append({"rule": "gc", "what": "grid coordinate constraint accepted on a non-uniform grid", "constraint": ci, "axis": a})
                    continue
                got = sl[name][a][0 if c["sides"][i] == "-" else 1]
                if got != c["coords"][i]:
                    V.append({"rule": "gc", "what": "grid coordinate constraint not honoured", "constraint": ci, "axis": a, "got": got, "accept": [c["coords"][i]]})
        elif k == "rc":
            for i, a in enumerate(c["axes"]):
                touched.add((name, a))
                st["rules"] += 1
                got = sl[name][a][0 if c["sides"][i] == "-" else 1]
                want, dmin = nearest_set(E[a], c["coords"][i], tol)
                res(a, dmin, f"constraint {ci} (rc)")
                st["ties"] += len(want) > 1
                if got not in want:
                    V.append({"rule": "rc", "what": "real coordinate constraint: bound is not a nearest edge", "constraint": ci, "axis": a, "got": got, "accept": sorted(want)})

    # -- unconstrained axes span the volume ----------------------------------------------------
    for o in system["objects"]:
        for a in range(3):
            if (o["name"], a) in touched:
                continue
            st["rules"] += 1
            if sl[o["name"]][a] != [0, shape[a]]:
                V.append({"rule": "unconstrained", "what": "unconstrained axis does not span the volume", "object": o["name"], "axis": a, "got": sl[o["name"]][a], "accept": [0, shape[a]]})
    return V, st


def permuted(system, obj_perm=None, con_perm=None):
    s = dict(system)
    if obj_perm is not None:
        s["obj_order"] = [int(i) for i in obj_perm]
    if con_perm is not None:
        s["con_order"] = [int(i) for i in con_perm]
    return s


def with_constraint_last(system, ci):
    n = len(system["constraints"])
    order = [i for i in range(n) if i != ci] + [ci]
    return permuted(system, con_perm=order)


def shrink(system, still_bad, budget=120):
    """Greedy reduction of a witness: drop constraints, then objects, while `still_bad(system)`."""
    cur = {k: v for k, v in system.items() if k not in ("obj_order", "con_order")}
    if not still_bad(cur):
        return system  # the failure depends on the order: keep the original
    calls = 0
    changed = True
    while changed and calls < budget:
        changed = False
        for i in range(len(cur["constraints"]) - 1, -1, -1):
            t = dict(cur)
            t["constraints"] = cur["constraints"][:i] + cur["constraints"][i + 1 :]
            calls += 1
            if still_bad(t):
                cur = t
                changed = True
            if calls >= budget:
                break
        for i in range(len(cur["objects"]) - 1, -1, -1):
            nm = cur["objects"][i]["name"]
            if any(c["obj"] == nm or c.get("other") == nm for c in cur["constraints"]):
                continue
            t = dict(cur)
            t["objects"] = cur["objects"][:i] + cur["objects"][i + 1 :]
            calls += 1
            if still_bad(t):
                cur = t
                changed = True
            if calls >= budget:
                break
    return cur


# --------------------------------------------------------------------------------------------
# grids
# --------------------------------------------------------------------------------------------
SPACINGS = [1e-7, 5e-8, 2.5e-9, 1.0, 0.3, 1e-3, 2.0**-20]


def make_grid(rng, shape, kind):
    """kind: 'uniform' | 'rect_uniform' | 'nonuniform' -> (grid dict, nonuniform flag)"""
    s = float(SPACINGS[int(rng.integers(len(SPACINGS)))])
    if kind == "uniform":
        return {"kind": "uniform", "spacing": s}, False
    if kind == "rect_uniform":
        # explicit edges, equally spaced, arbitrary origin (not centred): real coordinates are in this frame
        org = [float(rng.choice([0.0, -3.0 * s, 0.37 * s])) for _ in range(3)]
        return {"kind": "rect", "edges": [[org[a] + s * i for i in range(n + 1)] for a, n in enumerate(shape)]}, False
    style = int(rng.integers(4))
    edges = []
    for a, n in enumerate(shape):
        if style == 0:
            w = s * rng.uniform(0.5, 2.0, size=n)
        elif style == 1:  # graded
            w = s * (1.25 ** np.arange(n)) * (1.0 if a != 1 else 0.7)
        elif style == 2:  # two zones, coarse / fine, exact binary ratios -> exact ties
            w = s * np.where(np.arange(n) < n // 2, 1.0, 0.5) * (1.0 if a != 2 else 2.0)
        else:  # uniform per axis but different between axes (still non-uniform by the documented test)
            w = s * np.full(n, [1.0, 1.5, 0.75][a])
        org = float(rng.choice([0.0, -0.5 * float(np.sum(w)), 0.11 * s]))
        edges.append([org] + [float(org + x) for x in np.cumsum(w)])
    g = {"kind": "rect", "edges": edges}
    non, _ = classify_nonuniform([np.asarray(e) for e in edges])
    if not non:  # all axes of size where the style degenerates (e.g. 1-cell axes): force it
        e0 = edges[0]
        if len(e0) > 2:
            e0[1] = e0[0] + 0.6 * (e0[1] - e0[0])
        else:
            edges[1] = [edges[1][0] + 1.7 * (x - edges[1][0]) for x in edges[1]]
        non, _ = classify_nonuniform([np.asarray(e) for e in edges])
    return g, bool(non)


def _axis_len(rng):
    u = rng.random()
    if u < 0.08:
        return 1
    if u < 0.18:
        return 2
    return int(rng.integers(3, 14))


# --------------------------------------------------------------------------------------------
# random systems around a hidden feasible layout
# --------------------------------------------------------------------------------------------
ANCH = [-1.0, 0.0, 1.0]


def gen_system(rng, mode=None, grid_kind=None, max_objects=8):
    """mode: 'mixed' (default), 'pinned' (everything static + placed against the volume in one pass),
    'chain' (each object refers to the previous one).  Returns the system dict; 'meta' carries the hidden
    layout and the classes used (for signatures)."""
    mode = mode or str(rng.choice(["mixed", "mixed", "pinned", "chain"]))
    shape = [_axis_len(rng) for _ in range(3)]
    grid_kind = grid_kind or str(rng.choice(["uniform", "uniform", "rect_uniform", "nonuniform", "nonuniform"]))
    grid, nonuni = make_grid(rng, shape, grid_kind)
    system = {"shape": shape, "grid": grid, "nonuniform": nonuni, "objects": [], "constraints": []}
    E = edges_of(system)
    spacing = float(E[0][1] - E[0][0])
    n_obj = int(rng.integers(1, max_objects + 1))
    hidden = {VOL: [[0, n] for n in shape]}
    names = [VOL]
    cons = []
    classes = set()

    def pick_ref(i, forward_ok=True):
        if mode == "pinned":
            return VOL
        if mode == "chain":
            return names[i]  # previous object (or the volume for the first)
        if forward_ok and rng.random() < 0.07 and n_obj > 1:
            j = int(rng.integers(1, n_obj + 1))
            return f"o{j - 1}"
        return names[int(rng.integers(0, i + 1))]

    # hidden boxes first (forward references need them)
    for i in range(n_obj):
        box = []
        for a in range(3):
            n = shape[a]
            u = rng.random()
            if u < 0.22:
                box.append([0, n])
            else:
                size = 1 if u < 0.32 else int(rng.integers(1, n + 1))
                lo = int(rng.integers(0, n - size + 1))
                if rng.random() < 0.2:
                    lo = int(rng.choice([0, n - size]))
                box.append([lo, lo + size])
        hidden[f"o{i}"] = box

    def length_for(a, size):
        """A physical length that the documented snapping maps to `size` cells on axis a."""
        e = E[a]
        if not nonuni:
            u = float(rng.choice([0.0, 0.0, 0.3, -0.3, 0.45, -0.45]))
            if size + u <= 0:
                u = 0.0
            return (size + u) * spacing
        exact = float(e[size] - e[0])
        if rng.random() < 0.5:
            return exact
        return exact - float(rng.uniform(0.05, 0.9)) * float(e[size] - e[size - 1])

    def split_offset(value):
        """value -> (real part, integer grid part); grid part only on uniform grids."""
        if nonuni or rng.random() < 0.5:
            return value, 0
        gpart = int(round(value / spacing))
        if abs(gpart) > 60:
            return value, 0
        return value - gpart * spacing, gpart

    def bound_spec(i, name, a, side, idx, allow_none_other=True):
        """A constraint fixing bound `side` ('-'/'+') of object at edge index idx on axis a."""
        e = E[a]
        opts = ["rc", "ext"]
        if not nonuni:
            opts += ["gc", "gc"]
        k = str(rng.choice(opts))
        if k == "gc":
            classes.add("gc" + side)
            return {"k": "gc", "obj": name, "axes": [a], "sides": [side], "coords": [idx]}
        if k == "rc":
            classes.add("rc" + side)
            w = float(e[min(idx + 1, len(e) - 1)] - e[max(idx - 1, 0)]) / 2
            jit = float(rng.choice([0.0, 0.0, 0.3, -0.3])) * w * 0.5
            return {"k": "rc", "obj": name, "axes": [a], "sides": [side], "coords": [float(e[idx]) + jit]}
        at_wall = idx == (0 if side == "-" else shape[a])
        if at_wall and allow_none_other and rng.random() < 0.6:
            classes.add("ext-wall" + side)
            return {"k": "ext", "obj": name, "other": None, "axis": a, "dir": side, "opos": 0.0, "off": 0.0, "goff": 0}
        ref = pick_ref(i)
        if ref == name:
            ref = VOL
        opos = float(rng.choice(ANCH)) if rng.random() < 0.85 else float(rng.uniform(-1, 1))
        olo, ohi = hidden[ref][a]
        off = float(e[idx]) - anchor(e, olo, ohi, opos)
        real, gpart = split_offset(off)
        classes.add("ext" + side + ("g" if gpart else ""))
        return {"k": "ext", "obj": name, "other": ref, "axis": a, "dir": side, "opos": opos, "off": real, "goff": gpart}

    def position_spec(i, name, o, a, lo, hi, allow_none=True):
        e = E[a]
        n = shape[a]
        opts = ["pc", "pc", "pc", "bound", "rpos"]
        if allow_none and lo == 0:
            opts.append("none")
        if mode == "pinned":
            opts = ["pc"]
        if mode == "chain":
            opts = ["pc", "pc", "bound"]
        k = str(rng.choice(opts))
        if k == "none":
            classes.add("pos-none")
            return []
        if k == "rpos":
            classes.add("rpos")
            o["rpos"][a] = 0.5 * (float(e[lo]) + float(e[hi])) - 0.5 * (float(e[0]) + float(e[n]))
            return []
        if k == "bound":
            side = str(rng.choice(["-", "+"]))
            return [bound_spec(i, name, a, side, lo if side == "-" else hi)]
        ref = pick_ref(i)
        if ref == name:
            ref = VOL
        own = float(rng.choice(ANCH)) if rng.random() < 0.85 else float(rng.uniform(-1, 1))
        oth = float(rng.choice(ANCH)) if rng.random() < 0.85 else float(rng.uniform(-1, 1))
        olo, ohi = hidden[ref][a]
        m = anchor(e, lo, hi, own) - anchor(e, olo, ohi, oth)
        if rng.random() < 0.15:
            m += float(rng.choice([0.3, -0.3])) * float(e[lo + 1] - e[lo])
        real, gpart = split_offset(m)
        classes.add("pc" + ("g" if gpart else "") + ("v" if ref == VOL else "o"))
        return [{"k": "pos", "obj": name, "other": ref, "axes": [a], "own": [own], "oth": [oth], "margins": [real], "gmargins": [gpart]}]

    for i in range(n_obj):
        name = f"o{i}"
        o = {"name": name, "gshape": [None] * 3, "rshape": [None] * 3, "rpos": [None] * 3}
        for a in range(3):
            lo, hi = hidden[name][a]
            n = shape[a]
            size = hi - lo
            opts = ["g", "g", "r", "sc", "two"]
            if mode == "pinned":
                opts = ["g"]
            if (lo, hi) == (0, n) and mode != "pinned" and rng.random() < 0.5:
                classes.add("axis-free")
                continue
            k = str(rng.choice(opts))
            if k == "g":
                classes.add("size-g")
                o["gshape"][a] = size
            elif k == "r":
                classes.add("size-r")
                o["rshape"][a] = length_for(a, size)
            elif k == "sc":
                ref = pick_ref(i)
                if ref == name:
                    ref = VOL
                b = a if rng.random() < 0.6 else int(rng.integers(3))
                olo, ohi = hidden[ref][b]
                ext_len = float(E[b][ohi] - E[b][olo])
                prop = float(rng.choice([1.0, 1.0, 0.5, 2.0, 0.25, 1.0 / 3.0, 0.0]))
                real, gpart = split_offset(length_for(a, size) - ext_len * prop)
                classes.add("size-sc" + ("g" if gpart else "") + ("x" if b != a else ""))
                cons.append({"k": "size", "obj": name, "other": ref, "axes": [a], "other_axes": [b], "prop": [prop], "off": [real], "goff": [gpart]})
            else:  # two bounds, no size
                classes.add("two-bounds")
                if lo == 0 and rng.random() < 0.3:
                    classes.add("lower-by-extension")
                else:
                    cons.append(bound_spec(i, name, a, "-", lo))
                cons.append(bound_spec(i, name, a, "+", hi))
                continue
            cons.extend(position_spec(i, name, o, a, lo, hi))
        system["objects"].append(o)
        names.append(name)

    # ---- redundant and contradictory extras ---------------------------------------------------
    extras = []
    n_extra = int(rng.choice([0, 0, 1, 1, 2, 3]))
    kinds = []
    for _ in range(n_extra):
        i = int(rng.integers(n_obj))
        name = f"o{i}"
        a = int(rng.integers(3))
        lo, hi = hidden[name][a]
        contradict = rng.random() < 0.45
        kinds.append("contradict" if contradict else "redundant")
        if contradict:
            d = int(rng.choice([-2, -1, 1, 2]))
            lo2, hi2 = lo + d, hi + d
            if lo2 < 0 or hi2 > shape[a]:
                lo2, hi2 = lo, hi  # falls back to a redundant one on tiny axes
                kinds[-1] = "redundant"
        else:
            lo2, hi2 = lo, hi
        u = rng.random()
        saved_mode = mode
        if u < 0.5:
            # a position relation to some other object (this is what the one-pass solver may skip)
            dummy = {"rpos": [None] * 3}
            mode = "mixed"
            sp = position_spec(n_obj, name, dummy, a, lo2, hi2, allow_none=False)
            mode = saved_mode
            if dummy["rpos"][a] is not None and system["objects"][i]["rpos"][a] is None:
                system["objects"][i]["rpos"][a] = dummy["rpos"][a]
            extras.extend(sp)
        elif u < 0.8:
            side = str(rng.choice(["-", "+"]))
            mode = "mixed"
            extras.append(bound_spec(n_obj, name, a, side, lo2 if side == "-" else hi2))
            mode = saved_mode
        else:
            ref = VOL if n_obj == 1 else f"o{int(rng.integers(n_obj))}"
            if ref == name:
                ref = VOL
            olo, ohi = hidden[ref][a]
            size2 = hi2 - lo2 + (int(rng.choice([-1, 1])) if contradict else 0)
            if size2 < 1 or size2 > shape[a]:
                size2 = hi2 - lo2
            off = length_for(a, size2) - float(E[a][ohi] - E[a][olo])
            extras.append({"k": "size", "obj": name, "other": ref, "axes": [a], "other_axes": [a], "prop": [1.0], "off": [off], "goff": [0]})
    cons.extend(extras)

    # ---- merge single-axis constraints of the same kind/objects into multi-axis ones ----------
    cons = _merge(rng, cons, force=(mode == "pinned"))
    system["constraints"] = cons
    system["meta"] = {
        "mode": mode,
        "grid_kind": grid_kind,
        "hidden": hidden,
        "classes": sorted(classes),
        "extras": kinds,
    }
    return system


def _merge(rng, cons, force=False):
    out = []
    groups = {}
    for c in cons:
        if c["k"] == "ext":
            out.append(c)
            continue
        key = (c["k"], c["obj"], c.get("other"))
        groups.setdefault(key, []).append(c)
    for key, lst in groups.items():
        if len(lst) == 1 or (not force and rng.random() < 0.4):
            out.extend(lst)
            continue
        # merge only constraints on distinct axes
        used = set()
        merged = None
        rest = []
        for c in lst:
            a = c["axes"][0]
            if a in used:
                rest.append(c)
                continue
            used.add(a)
            if merged is None:
                merged = {k: (list(v) if isinstance(v, list) else v) for k, v in c.items()}
            else:
                for f, v in c.items():
                    if isinstance(v, list):
                        merged[f] = merged[f] + list(v)
        out.append(merged)
        out.extend(rest)
    order = rng.permutation(len(out))
    return [out[int(i)] for i in order]


# --------------------------------------------------------------------------------------------
# bounded exhaustive family: 2-3 objects x constraint kind x anchors x margins x grid kind
# --------------------------------------------------------------------------------------------
def _family_grid(gk, shape):
    s = 1e-7
    if gk == "uniform":
        return {"kind": "uniform", "spacing": s}, False
    if gk == "rect_uniform":
        return {"kind": "rect", "edges": [[0.25 * s + s * i for i in range(n + 1)] for n in shape]}, False
    rng = np.random.default_rng(12345 if gk == "nonuniform_a" else 54321)
    edges = []
    for n in shape:
        if gk == "nonuniform_a":
            w = s * rng.uniform(0.5, 2.0, size=n)
        else:
            w = s * np.where(np.arange(n) % 3 == 0, 2.0, 1.0)  # exact binary ratios: many exact ties
        edges.append([0.0] + [float(x) for x in np.cumsum(w)])
    return {"kind": "rect", "edges": edges}, True


FAMILY_GRIDS = ["uniform", "rect_uniform", "nonuniform_a", "nonuniform_b"]
_BASE_SHAPE = [9, 6, 4]


def family_params():
    """The full parameter list of the bounded family (deterministic order)."""
    P = []
    for gk in FAMILY_GRIDS:
        grid_margin_kinds = ["real", "grid"] if not gk.startswith("nonuniform") else ["real", "grid0"]
        for a_sz, a_at in itertools.product([2, 3], ["lo", "mid", "hi"]):
            for own, oth, m, mk, b_sz in itertools.product(ANCH, ANCH, [0, 1, -1], grid_margin_kinds, [1, 2, 3]):
                P.append({"fam": "pos", "gk": gk, "a_sz": a_sz, "a_at": a_at, "own": own, "oth": oth, "m": m, "mk": mk, "b_sz": b_sz})
            for oa, prop, m, mk in itertools.product(["same", "cross"], [0.5, 1.0, 2.0], [0, 1, -1], grid_margin_kinds):
                P.append({"fam": "size", "gk": gk, "a_sz": a_sz, "a_at": a_at, "oa": oa, "prop": prop, "m": m, "mk": mk})
            for d, opos, m, mk, fixed in itertools.product(["+", "-"], ANCH, [0, 1, -1], grid_margin_kinds, ["bound", "size"]):
                P.append({"fam": "ext", "gk": gk, "a_sz": a_sz, "a_at": a_at, "dir": d, "opos": opos, "m": m, "mk": mk, "fixed": fixed})
        for side, b_sz, q in itertools.product(["-", "+"], [1, 2], range(0, 4 * 9 + 1)):
            P.append({"fam": "coord", "gk": gk, "side": side, "b_sz": b_sz, "q": q})
    for i, p in enumerate(P):
        p["axis"] = i % 3
        p["third"] = (i // 3) % 2 == 1
    return P


def family_system(p):
    """Two (or three) objects on one axis under test; the other axes are left free or pinned."""
    a = p["axis"]
    shape = [_BASE_SHAPE[(i - a) % 3] for i in range(3)]  # the axis under test has 9 cells
    grid, nonuni = _family_grid(p["gk"], shape)
    system = {"shape": shape, "grid": grid, "nonuniform": nonuni, "objects": [], "constraints": []}
    E = edges_of(system)
    e = E[a]
    n = shape[a]
    s = float(E[0][1] - E[0][0])
    cons = system["constraints"]

    def fix_lower(name, idx):
        if nonuni:
            cons.append({"k": "rc", "obj": name, "axes": [a], "sides": ["-"], "coords": [float(e[idx])]})
        else:
            cons.append({"k": "gc", "obj": name, "axes": [a], "sides": ["-"], "coords": [idx]})

    def obj(name, size=None):
        g = [None] * 3
        g[a] = size
        o = {"name": name, "gshape": g, "rshape": [None] * 3, "rpos": [None] * 3}
        system["objects"].append(o)
        return o

    def margin(cells, mk, at_idx):
        """(real, grid) parts of a margin of `cells` cells; local cell width on non-uniform grids."""
        if mk == "grid":
            return 0.0, cells
        if mk == "grid0":
            return 0.0, 0
        i = min(max(at_idx, 0), n - 1)
        return cells * float(e[i + 1] - e[i]), 0

    if p["fam"] == "coord":
        # B's bound pinned at every quarter-cell coordinate across the axis (ties at the half cells)
        obj("B", p["b_sz"])
        q = p["q"]
        i, f = divmod(q, 4)
        i = min(i, n)
        coord = float(e[i]) + (0.25 * f * float(e[min(i + 1, n)] - e[i]) if i < n else 0.0)
        if f == 0 and not nonuni:
            cons.append({"k": "gc", "obj": "B", "axes": [a], "sides": [p["side"]], "coords": [i]})
        else:
            cons.append({"k": "rc", "obj": "B", "axes": [a], "sides": [p["side"]], "coords": [coord]})
        return system

    a_sz = p["a_sz"]
    a_lo = {"lo": 0, "mid": 3, "hi": n - a_sz}[p["a_at"]]
    obj("A", a_sz)
    fix_lower("A", a_lo)
    if p["fam"] == "pos":
        obj("B", p["b_sz"])
        real, gm = margin(p["m"], p["mk"], a_lo)
        cons.append({"k": "pos", "obj": "B", "other": "A", "axes": [a], "own": [p["own"]], "oth": [p["oth"]], "margins": [real], "gmargins": [gm]})
        if p["third"]:
            obj("C", p["b_sz"])
            cons.append({"k": "pos", "obj": "C", "other": "B", "axes": [a], "own": [p["oth"]], "oth": [p["own"]], "margins": [-real], "gmargins": [-gm]})
    elif p["fam"] == "size":
        obj("B", None)
        b = a if p["oa"] == "same" else (a + 1) % 3
        real, gm = margin(p["m"], p["mk"], 0)
        cons.append({"k": "size", "obj": "B", "other": "A", "axes": [a], "other_axes": [b], "prop": [p["prop"]], "off": [real], "goff": [gm]})
        cons.append({"k": "pos", "obj": "B", "other": VOL, "axes": [a], "own": [-1.0], "oth": [-1.0], "margins": [0.0], "gmargins": [0]})
        if p["third"]:
            obj("C", None)
            cons.append({"k": "size", "obj": "C", "other": "B", "axes": [a], "other_axes": [a], "prop": [1.0], "off": [0.0], "goff": [0]})
            cons.append({"k": "pos", "obj": "C", "other": "B", "axes": [a], "own": [-1.0], "oth": [1.0], "margins": [0.0], "gmargins": [0]})
    elif p["fam"] == "ext":
        d = p["dir"]
        if p["fixed"] == "bound":
            obj("B", None)
            if d == "+":
                fix_lower("B", 0)
            else:
                cons.append({"k": "ext", "obj": "B", "other": None, "axis": a, "dir": "+", "opos": 0.0, "off": 0.0, "goff": 0})
        else:
            obj("B", 2)
        real, gm = margin(p["m"], p["mk"], a_lo)
        cons.append({"k": "ext", "obj": "B", "other": "A", "axis": a, "dir": d, "opos": p["opos"], "off": real, "goff": gm})
        if p["third"]:
            obj("C", 1)
            cons.append({"k": "pos", "obj": "C", "other": "B", "axes": [a], "own": [0.0], "oth": [0.0], "margins": [0.0], "gmargins": [0]})
    return system


def pinned_pair_system(gk, consistent, rel_first=True):
    """Two fully specified boxes pinned against the volume in one multi-axis constraint each, plus a relation
    between them that is listed BEFORE the pins (so it cannot be evaluated in the first pass).  With
    `consistent=False` the relation contradicts the pins and the system has no solution."""
    shape = [9, 6, 4]
    grid, non = _family_grid(gk, shape)
    objs = [{"name": n, "gshape": [2, 2, 2], "rshape": [None] * 3, "rpos": [None] * 3} for n in ("A", "B")]

    def pin(n, own):
        return {"k": "pos", "obj": n, "other": VOL, "axes": [0, 1, 2], "own": [own] * 3, "oth": [own] * 3, "margins": [0.0] * 3, "gmargins": [0] * 3}

    # A's lower x face on B's lower x face: true only if both sit in the same corner
    rel = {"k": "pos", "obj": "A", "other": "B", "axes": [0], "own": [-1.0], "oth": [-1.0], "margins": [0.0], "gmargins": [0]}
    pins = [pin("A", -1.0), pin("B", -1.0 if consistent else 1.0)]
    cons = [rel] + pins if rel_first else pins + [rel]
    return {"shape": shape, "grid": grid, "nonuniform": non, "objects": objs, "constraints": cons}


def rpos_conflict_system(size_first=True, conflict=True):
    """An object whose z size comes from a SizeConstraint (so `partial_real_position` cannot be resolved before
    the constraint pass) with a PositionConstraint that contradicts (or, conflict=False, agrees with) its
    `partial_real_position`."""
    shape = [6, 6, 6]
    obj = {"name": "A", "gshape": [2, 2, None], "rshape": [None] * 3, "rpos": [None, None, 0.0]}  # centred: z = [2, 4)
    size = {"k": "size", "obj": "A", "other": VOL, "axes": [2], "other_axes": [2], "prop": [1.0 / 3.0], "off": [0.0], "goff": [0]}
    a = -1.0 if conflict else 0.0
    pos = {"k": "pos", "obj": "A", "other": VOL, "axes": [2], "own": [a], "oth": [a], "margins": [0.0], "gmargins": [0]}
    cons = [size, pos] if size_first else [pos, size]
    return {"shape": shape, "grid": {"kind": "uniform", "spacing": 1.0}, "nonuniform": False, "objects": [obj], "constraints": cons}


def strip_meta(system):
    return {k: v for k, v in system.items() if k != "meta"}


# --------------------------------------------------------------------------------------------
# classification aid: would the solver's OWN consistency rules reject the final state?
# --------------------------------------------------------------------------------------------
def solver_self_check(fdtdx, system, slices):
    """Re-apply fdtdx's private per-constraint routines to the final slices (everything already set, so
    each routine only performs its consistency comparison).  Returns {"constraints": set of constraint
    indices the solver itself rejects, "objects": set of object names whose static size the solver rejects}.
    Used ONLY to name the mechanism of a violation found by `verify`; never to judge."""
    import fdtdx.fdtd.initialization as init

    plain = {k: v for k, v in system.items() if k not in ("obj_order", "con_order", "meta")}
    objects, cons, config = build(fdtdx, plain)
    config = init._resolve_grid_from_volume(objects, config)
    omap = {o.name: o for o in objects}
    sd = {n: [[s[a][0], s[a][1]] for a in range(3)] for n, s in slices.items()}
    shp = {n: [s[a][1] - s[a][0] for a in range(3)] for n, s in slices.items()}
    bad = {"constraints": set(), "objects": set()}
    for i, c in enumerate(cons):
        nm = type(c).__name__
        try:
            if nm == "GridCoordinateConstraint":
                init._apply_grid_coordinate_constraint(c, omap, sd, config)
            elif nm == "RealCoordinateConstraint":
                init._apply_real_coordinate_constraint(c, omap, sd, config)
            elif nm == "PositionConstraint":
                init._apply_position_constraint(c, omap, config, shp, sd)
            elif nm == "SizeConstraint":
                init._apply_size_constraint(c, omap, config, shp, sd)
            elif nm == "SizeExtensionConstraint":
                init._apply_size_extension_constraint(c, omap, config, sd, VOL)
        except Exception:  # noqa: BLE001
            bad["constraints"].add(i)
    static = {n: [None, None, None] for n in sd}
    try:
        static = init._resolve_static_shapes(omap, static, config)
        for n, s in static.items():
            if any(s[a] is not None and s[a] != shp[n][a] for a in range(3)):
                bad["objects"].add(n)
    except Exception:  # noqa: BLE001
        pass
    return bad

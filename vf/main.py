"""Driver: enumerate cases, fan out to workers, fold verdicts, write evidence / replay files.

    ./check C07 --tier quick
    ./check C07 --tier thorough
    ./check C07 --replay replays/C07/<file>.json

Exit codes: 0 held (KNOWN-FINDING lines allowed), 1 violation (VIOLATION line), 2 inconclusive.
"""

from __future__ import annotations

import argparse
import importlib
import json
import os
import queue
import select
import subprocess
import sys
import tempfile
import threading
import time
import zlib

ROOT = os.path.dirname(os.path.dirname(os.path.abspath(__file__)))
PY = "/venv/bin/python" if os.path.exists("/venv/bin/python") else sys.executable
MAX_WORKERS = int(os.environ.get("VERIF_WORKERS", "14"))


def rng_for(prop: str, seed: int):
    import numpy as np

    return np.random.Generator(np.random.PCG64([int(seed) & 0xFFFFFFFF, zlib.crc32(prop.encode())]))


class Worker:
    def __init__(self, mod_name: str, logdir: str, idx: int):
        self.mod_name = mod_name
        self.logpath = os.path.join(logdir, f"worker{idx}.log")
        self.log = open(self.logpath, "ab")
        env = dict(os.environ)
        env["PYTHONPATH"] = ROOT
        env.setdefault("PYTHONHASHSEED", "0")
        self.p = subprocess.Popen(
            [PY, "-u", "-m", "vf.worker", mod_name],
            stdin=subprocess.PIPE,
            stdout=subprocess.PIPE,
            stderr=self.log,
            cwd=ROOT,
            env=env,
            text=True,
            bufsize=1,
        )
        self.ready = False

    def _readline(self, timeout: float):
        deadline = time.time() + timeout
        while True:
            left = deadline - time.time()
            if left <= 0:
                return None
            r, _, _ = select.select([self.p.stdout], [], [], min(left, 1.0))
            if r:
                line = self.p.stdout.readline()
                if line == "":
                    return ""  # EOF: worker died
                return line
            if self.p.poll() is not None:
                # drain
                line = self.p.stdout.readline()
                return line

    def wait_ready(self, timeout: float = 300.0):
        while True:
            line = self._readline(timeout)
            if line is None:
                return "timeout"
            if line == "":
                return "died"
            if line.startswith("READY"):
                self.ready = True
                return "ok"
            if line.startswith("FATAL"):
                return line.strip()

    def run(self, case: dict, timeout: float):
        try:
            self.p.stdin.write(json.dumps(case) + "\n")
            self.p.stdin.flush()
        except (BrokenPipeError, OSError):
            return None, "died"
        while True:
            line = self._readline(timeout)
            if line is None:
                return None, "timeout"
            if line == "":
                return None, "died"
            if line.startswith("RESULT "):
                return json.loads(line[7:]), "ok"

    def close(self, kill: bool = False):
        try:
            if not kill and self.p.poll() is None:
                self.p.stdin.write("QUIT\n")
                self.p.stdin.flush()
                self.p.stdin.close()
                self.p.wait(timeout=10)
        except Exception:
            pass
        if self.p.poll() is None:
            self.p.kill()
            try:
                self.p.wait(timeout=10)
            except Exception:
                pass
        try:
            self.log.close()
        except Exception:
            pass

    def log_tail(self, n: int = 30) -> str:
        try:
            with open(self.logpath, "rb") as f:
                return b"\n".join(f.read().splitlines()[-n:]).decode("utf8", "replace")
        except Exception:
            return ""


def run_cases(mod_name: str, cases: list[dict], timeout: float, n_workers: int, verbose: bool):
    """Returns (results, problems).  A case that times out / kills its worker is retried once in a
    fresh worker; a second failure yields an 'inconclusive' result for that case."""
    logdir = tempfile.mkdtemp(prefix=f"vf_{mod_name}_")
    q: queue.Queue = queue.Queue()
    for c in cases:
        q.put((c, 0))
    results: list[dict] = []
    problems: list[str] = []
    lock = threading.Lock()
    stop_all = threading.Event()

    def loop(idx: int):
        w = None
        try:
            while not stop_all.is_set():
                try:
                    case, attempt = q.get_nowait()
                except queue.Empty:
                    return
                if w is None:
                    w = Worker(mod_name, logdir, idx)
                    st = w.wait_ready()
                    if st != "ok":
                        with lock:
                            problems.append(f"worker {idx} failed to start: {st}\n{w.log_tail()}")
                        w.close(kill=True)
                        w = None
                        q.put((case, attempt))
                        stop_all.set()
                        return
                res, st = w.run(case, timeout)
                if st == "ok":
                    with lock:
                        results.append(res)
                        if verbose:
                            print(f"  case {case.get('id')}: {res['status']} ({res.get('wall_s')}s)", flush=True)
                    continue
                tail = w.log_tail(15)
                w.close(kill=True)
                w = None
                if attempt == 0:
                    q.put((case, 1))
                else:
                    with lock:
                        results.append(
                            {
                                "status": "inconclusive",
                                "case_id": case.get("id"),
                                "evals": 0,
                                "sigs": [],
                                "counters": {},
                                "inconclusive": [f"worker {st} twice on case {case.get('id')}"],
                                "log_tail": tail,
                            }
                        )
        finally:
            if w is not None:
                w.close()

    threads = [threading.Thread(target=loop, args=(i,), daemon=True) for i in range(max(1, min(n_workers, len(cases))))]
    for t in threads:
        t.start()
    for t in threads:
        t.join()
    # any cases left (worker start failure)
    leftover = []
    while True:
        try:
            leftover.append(q.get_nowait()[0])
        except queue.Empty:
            break
    for c in leftover:
        results.append(
            {
                "status": "inconclusive",
                "case_id": c.get("id"),
                "evals": 0,
                "sigs": [],
                "counters": {},
                "inconclusive": ["not run: worker start failure"],
            }
        )
    try:
        import shutil

        shutil.rmtree(logdir, ignore_errors=True)
    except Exception:
        pass
    return results, problems


def load_known(prop: str) -> dict[str, dict]:
    path = os.path.join(ROOT, "known_findings.json")
    if not os.path.exists(path):
        return {}
    with open(path) as f:
        data = json.load(f)
    return {e["key"]: e for e in data.get("findings", []) if e.get("property") == prop}


def fold(prop, tier, seed, mod, cases, results, problems, wall, replay_mode=False):
    known = load_known(prop)
    by_id = {c.get("id"): c for c in cases}
    evals = 0
    sigs: set[str] = set()
    counters: dict[str, float] = {}
    maxes: dict[str, float] = {}
    branches: dict[str, int] = {}
    violations = []  # (case, violation)
    known_hits: dict[str, int] = {}
    inconcl: list[str] = list(problems)
    samples = []
    status_hist: dict[str, int] = {}
    for r in results:
        status_hist[r["status"]] = status_hist.get(r["status"], 0) + 1
        evals += int(r.get("evals", 0))
        sigs.update(r.get("sigs", []))
        for k, v in (r.get("counters") or {}).items():
            counters[k] = counters.get(k, 0) + v
        for k, v in (r.get("maxes") or {}).items():
            maxes[k] = max(maxes.get(k, float("-inf")), v)
        for k, v in (r.get("branches") or {}).items():
            branches[k] = branches.get(k, 0) + v
        if r["status"] == "inconclusive":
            inconcl.extend(f"case {r.get('case_id')}: {x}" for x in (r.get("inconclusive") or ["?"]))
            if r.get("witness"):
                inconcl.append(f"case {r.get('case_id')}: {r['witness'].get('exception')}")
        vs = list(r.get("violations") or [])
        if r["status"] == "violated" and not vs:
            vs = [{"what": (r.get("witness") or {}).get("exception", "exception"), "witness": r.get("witness"), "mechanism": r.get("mechanism")}]
        for v in vs:
            mech = v.get("mechanism")
            if mech and mech in known and known[mech].get("status") == "open":
                known_hits[mech] = known_hits.get(mech, 0) + 1
            else:
                violations.append((by_id.get(r.get("case_id")), v))
        if r.get("sample") is not None and len(samples) < 4:
            samples.append({"case": by_id.get(r.get("case_id")), "observed": r["sample"]})
    if not samples:
        samples = [{"case": c} for c in cases[:3]]

    required = list(getattr(mod, "REQUIRED_COUNTERS", []))
    for name in required:
        if counters.get(name, 0) <= 0:
            inconcl.append(f"deciding monitor counter '{name}' is zero: monitor never reached")
    if evals == 0:
        inconcl.append("no evaluations were judged")

    cov = {
        "evaluations": int(evals),
        "distinct_nontrivial": len(sigs),
        "rule": getattr(mod, "RULE", ""),
        "samples": samples,
        "cases": len(cases),
        "case_status": status_hist,
        "counters": {k: (int(v) if float(v).is_integer() else v) for k, v in sorted(counters.items())},
        "worst": {k: v for k, v in sorted(maxes.items())},
        "branches": dict(sorted(branches.items())),
        "known_findings_hit": known_hits,
        "inconclusive_reasons": inconcl[:10],
    }
    ex = getattr(mod, "EXHAUSTIVE", None)
    if ex is not None:
        cov["exhaustive"] = bool(ex(tier) if callable(ex) else ex)
    extra = getattr(mod, "coverage_extra", None)
    if extra is not None:
        try:
            cov.update(extra(tier, cases, results))
        except Exception as e:  # noqa: BLE001
            cov["coverage_extra_error"] = repr(e)
    evidence = {
        "property_id": prop,
        "tier": tier,
        "seed": int(seed),
        "level": "exploration",
        "coverage": cov,
        "assumptions": list(getattr(mod, "ASSUMPTIONS", [])),
        "wall_s": round(wall, 2),
        "violations": len(violations),
        "verdict": "violated" if violations else ("inconclusive" if inconcl else "held"),
    }
    if not replay_mode:
        # evidence/ describes runs against /repo only; a run against a scratch copy (VERIF_REPO, used when a seeded
        # change is evaluated) leaves its record under the git-ignored replays/ directory instead
        scratch = os.path.realpath(os.environ.get("VERIF_REPO", "/repo")) != os.path.realpath("/repo")
        edir = os.path.join(ROOT, "replays", "evidence_scratch") if scratch else os.path.join(ROOT, "evidence")
        os.makedirs(edir, exist_ok=True)
        tmp = os.path.join(edir, f".{prop}.json.tmp")
        with open(tmp, "w") as f:
            json.dump(evidence, f, indent=1, default=_jd)
        os.replace(tmp, os.path.join(edir, f"{prop}.json"))

    # ---- report ---------------------------------------------------------------------------
    print(
        f"[{prop}] tier={tier} seed={seed} cases={len(cases)} evaluations={evals} distinct_nontrivial={len(sigs)} "
        f"wall={wall:.1f}s status={status_hist}",
        flush=True,
    )
    if counters:
        print(f"[{prop}] counters: " + ", ".join(f"{k}={cov['counters'][k]}" for k in sorted(counters)))
    if maxes:
        print(f"[{prop}] worst: " + ", ".join(f"{k}={v:.3g}" for k, v in sorted(maxes.items())))
    if branches:
        print(f"[{prop}] branches: " + ", ".join(f"{k}={v}" for k, v in sorted(branches.items())))
    for key, n in sorted(known_hits.items()):
        print(f"KNOWN-FINDING: property={prop} {known[key]['what']} [key={key}, {n} witnesses this run]")
    rc = 0
    if violations:
        rdir = os.path.join(ROOT, "replays", prop)
        os.makedirs(rdir, exist_ok=True)
        seen = set()
        for case, v in violations:
            cid = (case or {}).get("id", "x")
            if cid in seen:
                continue
            seen.add(cid)
            path = os.path.join(rdir, f"{tier}_s{seed}_{cid}.json")
            if not replay_mode:
                with open(path, "w") as f:
                    json.dump({"property": prop, "tier": tier, "seed": seed, "case": case, "violation": v}, f, indent=1, default=_jd)
            print(f"VIOLATION property={prop} replay={os.path.relpath(path, ROOT)}")
            print(f"  what: {v.get('what')}")
            w = json.dumps(v.get("witness"), default=_jd)
            print(f"  witness: {w[:1500]}")
            if len(seen) >= 10:
                break
        rc = 1
    elif inconcl:
        for r in inconcl[:8]:
            print(f"INCONCLUSIVE property={prop} reason={r}")
        rc = 2
    return rc


def _jd(o):
    try:
        import numpy as np

        if isinstance(o, np.generic):
            return o.item()
        if isinstance(o, np.ndarray):
            return o.tolist()
    except Exception:
        pass
    return repr(o)


def main(argv=None):
    ap = argparse.ArgumentParser()
    ap.add_argument("prop")
    ap.add_argument("--tier", default=os.environ.get("VERIF_TIER", "quick"), choices=["quick", "thorough"])
    ap.add_argument("--replay", default=None)
    ap.add_argument("--workers", type=int, default=MAX_WORKERS)
    ap.add_argument("--only", default=None, help="comma separated case ids (debugging)")
    ap.add_argument("-v", "--verbose", action="store_true")
    args = ap.parse_args(argv)
    prop = args.prop.upper()
    mod_name = prop.lower()
    seed = int(os.environ.get("VERIF_SEED", "0"))
    sys.path.insert(0, ROOT)
    mod = importlib.import_module(f"vf.checks.{mod_name}")
    t0 = time.time()
    if args.replay:
        with open(args.replay if os.path.isabs(args.replay) else os.path.join(ROOT, args.replay)) as f:
            rep = json.load(f)
        cases = [rep["case"]]
        tier = rep.get("tier", "quick")
        seed = rep.get("seed", seed)
        timeout = float(getattr(mod, "CASE_TIMEOUT", {}).get("thorough", 1800))
        results, problems = run_cases(mod_name, cases, timeout, 1, True)
        for r in results:
            print(json.dumps(r, indent=1, default=_jd)[:6000])
        return fold(prop, tier, seed, mod, cases, results, problems, time.time() - t0, replay_mode=True)
    tier = args.tier
    rng = rng_for(prop, seed)
    cases = list(mod.cases(tier, rng))
    for i, c in enumerate(cases):
        c.setdefault("id", f"{i:04d}")
        c.setdefault("seed", int(rng.integers(0, 2**31 - 1)))
    if args.only:
        keep = set(args.only.split(","))
        cases = [c for c in cases if c["id"] in keep]
    timeout = float(getattr(mod, "CASE_TIMEOUT", {}).get(tier, 600 if tier == "quick" else 1800))
    results, problems = run_cases(mod_name, cases, timeout, args.workers, args.verbose)
    return fold(prop, tier, seed, mod, cases, results, problems, time.time() - t0)


if __name__ == "__main__":
    sys.exit(main())

"""C05 — forward results do not depend on the gradient strategy; reversible slice partition.

(a) exhaustive walk of the slice-boundary function over all (T, k), k = number of slices;
(b) the same scene run with no gradient config, checkpointed (several checkpoint counts) and
    reversible (every admissible number of reversible checkpoints): final step, fields and all
    detector arrays equal; a trace monitor on `forward` asserts each variant executes the steps
    0..T-1 exactly once, in order; too many reversible checkpoints must be rejected.
"""

from __future__ import annotations

PROPERTY = "C05"
RULE = (
    "partition: every (T,k) with 0<=T<=Tmax, 1<=k<=max(T,1) judged (first 0, last T, strictly increasing, k+1 "
    "entries); runs: seeded scenes x gradient variants; a variant is non-trivial when the reference final field "
    "is non-zero; distinct = (T, variant, boundary signature) or (T,k) blocks of the partition table"
)
REQUIRED_COUNTERS = ["forward_events", "partitions_checked"]
ASSUMPTIONS = [
    "reference = run without gradient_config on the same placed scene",
    "float64; identical-op variants are compared at rtol 1e-12",
]
CASE_TIMEOUT = {"quick": 600, "thorough": 1800}


MATERIAL_CLASSES = ["plain", "mu", "sigma_e", "sigma_m", "diag_all", "full_tensor", "dispersive", "sigma_m_only"]


def _material(kind, rng):
    e = float(rng.uniform(1.5, 4))
    if kind == "plain":
        return {"eps": e}
    if kind == "mu":
        return {"eps": e, "mu": float(rng.uniform(1.3, 2.5))}
    if kind == "sigma_e":
        return {"eps": e, "sig_e": float(rng.uniform(1e4, 5e4))}
    if kind == "sigma_m":
        return {"eps": e, "mu": float(rng.uniform(1.3, 2.5)), "sig_m": float(rng.uniform(1e9, 5e9))}
    if kind == "sigma_m_only":
        return {"eps": e, "sig_m": float(rng.uniform(1e9, 5e9))}
    if kind == "diag_all":
        return {
            "eps": [float(x) for x in rng.uniform(1.5, 4, size=3)],
            "mu": [float(x) for x in rng.uniform(1.2, 2.5, size=3)],
            "sig_e": [float(x) for x in rng.uniform(1e4, 5e4, size=3)],
            "sig_m": [float(x) for x in rng.uniform(1e9, 5e9, size=3)],
        }
    if kind == "full_tensor":
        from vf.gen import spd_tensor

        return {"eps": spd_tensor(rng), "mu": spd_tensor(rng, 1.0, 2.0, 2.0)}
    if kind == "dispersive":
        return {"eps": e, "dispersion": {"poles": [{"kind": "lorentz", "w0": 3e15, "gamma": 2e14, "deps": 0.7}, {"kind": "drude", "wp": 1.0e15, "gamma": 1e14}]}}
    raise ValueError(kind)


def EXHAUSTIVE(tier):
    return True  # the partition table is walked completely up to Tmax (see coverage.partition_Tmax)


def cases(tier, rng):
    out = []
    tmax = 120 if tier == "quick" else 400
    nblk = 4 if tier == "quick" else 12
    per = (tmax + 1 + nblk - 1) // nblk
    for b in range(nblk):
        out.append({"kind": "partition", "t_lo": b * per, "t_hi": min(tmax + 1, (b + 1) * per)})
    n = len(MATERIAL_CLASSES) if tier == "quick" else 5 * len(MATERIAL_CLASSES)
    for i in range(n):
        T = int(rng.integers(1, 9 if tier == "quick" else 14))
        if i < len(MATERIAL_CLASSES):
            T = max(T, 3)  # every material array is read by at least two full steps in every tier
        # the material class is enumerated: every per-cell array the time loop reads (permeability, electric and
        # magnetic conductivity, tensor tiers, dispersion coefficients) is present in some scene of every tier
        out.append(
            {
                "kind": "run",
                "T": T,
                "variant_seed": int(rng.integers(1 << 30)),
                "pml": bool((i + i // len(MATERIAL_CLASSES)) % 2 == 0),
                "material": MATERIAL_CLASSES[i % len(MATERIAL_CLASSES)],
            }
        )
    # degenerate: T == 1 and k > T-1 rejection
    out.append({"kind": "run", "T": 1, "variant_seed": 1, "pml": True})
    out.append({"kind": "reject", "T": 4})
    return out


def run_case(case):
    from vf.result import Res

    r = Res()
    if case["kind"] == "partition":
        _partition(case, r)
    elif case["kind"] == "run":
        _runs(case, r)
    else:
        _reject(case, r)
    return r.to_dict()


def _partition(case, r):
    from vf import bootstrap

    bootstrap.ensure()
    from fdtdx.fdtd.fdtd import _reversible_slice_boundaries as f

    for T in range(case["t_lo"], case["t_hi"]):
        for k in range(1, max(T, 1) + 1):
            b = f(T, k)
            r.count("partitions_checked")
            ok = len(b) == k + 1 and b[0] == 0 and b[-1] == T and all(isinstance(x, int) for x in b)
            if k <= T:
                ok = ok and all(b[i] < b[i + 1] for i in range(k))
            else:
                ok = ok and all(b[i] <= b[i + 1] for i in range(k))
            if ok:
                r.ok(None)
            else:
                r.violate(f"slice boundaries for T={T}, k={k} are not a partition", {"T": T, "k": k, "boundaries": list(b)})
        r.sigs.add(f"part:T={T}")
    r.sample = {"T": case["t_hi"] - 1, "k": 3, "boundaries": list(f(case["t_hi"] - 1, min(3, max(case["t_hi"] - 1, 1))))}


def _scene(case):
    import numpy as np

    from vf import scenes

    rng = np.random.default_rng(case["variant_seed"])
    shape = [int(rng.integers(7, 10)) for _ in range(3)]
    s = scenes.default_scene(shape=shape, steps=case["T"])
    if case["pml"]:
        for f in scenes.FACES:
            s["faces"][f] = {"type": "pml", "thickness": 2}
        ax = int(rng.integers(3))
        s["faces"][f"min_{'xyz'[ax]}"] = {"type": "periodic"}
        s["faces"][f"max_{'xyz'[ax]}"] = {"type": "periodic"}
    else:
        kinds = ["pec", "pmc", "periodic"]
        for a in "xyz":
            k = kinds[int(rng.integers(3))]
            s["faces"][f"min_{a}"] = {"type": k}
            s["faces"][f"max_{a}"] = {"type": k}
    s["materials"] = [{"lo": [3, 3, 3], "hi": [5, 5, 5], "mat": _material(case.get("material", "plain"), rng)}]
    s["sources"] = [
        {"kind": "dipole", "lo": [3, 4, 3], "polarization": int(rng.integers(3)), "wavelength": 1e-6},
        {"kind": "dipole", "lo": [4, 3, 4], "polarization": int(rng.integers(3)), "wavelength": 0.8e-6, "source_type": "magnetic"},
    ]
    s["detectors"] = [
        {"kind": "field", "lo": [2, 2, 2], "hi": [5, 5, 5]},
        {"kind": "energy", "lo": [2, 2, 2], "hi": [6, 6, 6], "reduce": True},
        {"kind": "phasor", "lo": [2, 3, 2], "hi": [5, 4, 5], "wavelengths": [1e-6]},
        {"kind": "poynting", "lo": [2, 2, 5], "hi": [6, 6, 6]},
    ]
    return s


def _run_variant(scene, grad, r, tag):
    """Run one variant with a trace monitor on forward; returns (final_step, fields, detectors)."""
    import copy

    import jax
    import numpy as np

    from vf import hooks, scenes

    s = copy.deepcopy(scene)
    s["gradient"] = grad
    built = scenes.build(s)
    with hooks.trace_forward() as log:
        st = scenes.run(built, jit=True)
        jax.block_until_ready(st)
        jax.effects_barrier()
    steps = [e[1] for e in log.events if e[0] == "forward"]
    r.count("forward_events", len(steps))
    T = scene["steps"]
    if sorted(steps) != list(range(T)):
        r.violate(
            f"{tag}: executed forward steps are not 0..T-1 exactly once each",
            {"variant": tag, "T": T, "steps": steps[:60]},
        )
    else:
        r.ok(None)
    arr = st[1]
    return int(st[0]), np.asarray(arr.fields.E), np.asarray(arr.fields.H), scenes.detector_arrays(arr)


def _runs(case, r):
    import numpy as np

    scene = _scene(case)
    T = case["T"]
    rng = np.random.default_rng(case["variant_seed"] + 1)
    ref = _run_variant(scene, None, r, "none")
    nontriv = float(np.abs(ref[1]).max()) > 0
    bsig = ",".join(scene["faces"][f]["type"] for f in ("min_x", "min_y", "min_z")) + "|" + case.get("material", "plain")
    r.branch("material:" + case.get("material", "plain"))
    variants = []
    cks = sorted({1, 2, T, int(rng.integers(1, T + 1))})
    for c in cks:
        variants.append((f"checkpointed:{c}", {"method": "checkpointed", "num_checkpoints": c}))
    ks = list(range(0, T)) if T <= 6 else sorted({0, 1, T - 1, int(rng.integers(0, T)), int(rng.integers(0, T))})
    for k in ks:
        variants.append((f"reversible:{k}", {"method": "reversible", "num_ckpt_rev": k}))
    for tag, g in variants:
        if case.get("material") == "dispersive" and g["method"] == "reversible":
            # the library refuses reversible runs of dispersive scenes (NotImplementedError): an explicit refusal is
            # not a strategy-dependent result; anything else than that refusal is judged like every other variant
            try:
                got = _run_variant(scene, g, r, tag)
            except NotImplementedError:
                r.count("reversible_dispersive_refused")
                continue
        else:
            got = _run_variant(scene, g, r, tag)
        sig = (T, tag, bsig) if nontriv else None
        if got[0] != ref[0]:
            r.violate(f"{tag}: final step {got[0]} != {ref[0]}", {"variant": tag, "T": T, "got": got[0], "want": ref[0]})
        else:
            r.ok(sig)
        r.check_close("E", got[1], ref[1], 1e-12, witness={"variant": tag, "T": T}, sig=sig)
        r.check_close("H", got[2], ref[2], 1e-12, witness={"variant": tag, "T": T}, sig=sig)
        for k, v in ref[3].items():
            if k not in got[3]:
                r.violate(f"{tag}: detector array {k} missing", {"variant": tag})
                continue
            r.check_close("det", got[3][k], v, 1e-12, witness={"variant": tag, "T": T, "detector": k}, sig=sig)
    r.sample = {"T": T, "variants": [v[0] for v in variants], "max|E|": float(np.abs(ref[1]).max())}


def _reject(case, r):
    """num_checkpoints_reversible > T-1 must not silently run."""
    import copy

    from vf import scenes

    scene = _scene({"variant_seed": 5, "T": case["T"], "pml": False})
    T = case["T"]
    for k in (T, T + 3):
        s = copy.deepcopy(scene)
        s["gradient"] = {"method": "reversible", "num_ckpt_rev": k}
        try:
            built = scenes.build(s)
            scenes.run(built, jit=False)
        except Exception as e:  # noqa: BLE001
            r.ok(f"reject:{k}")
            r.count("rejections")
            r.sample = {"T": T, "k": k, "raised": type(e).__name__}
            continue
        r.violate(f"num_checkpoints_reversible={k} > T-1={T - 1} was accepted", {"T": T, "k": k})

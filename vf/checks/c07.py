"""C07 — stopping conditions stop exactly where documented.

Trace monitor: every evaluation of the real condition's __call__ is logged as (t, continue?).  Reference
predicate from the docstrings: stop(t) <=> t >= max_steps or t >= total or (t >= min_steps and converged(t)),
with converged(t) recomputed from the states / detector readings of a plain run of the same scene.  The halted
state must equal the plain run truncated at the halt step.
"""

from __future__ import annotations

PROPERTY = "C07"
RULE = (
    "seeded small PML scenes with a pulsed or CW dipole; EnergyThresholdCondition and DetectorConvergenceCondition "
    "(energy / poynting / field detectors with reduce_volume) with thresholds placed at quantiles of the plain-run "
    "trace (never / always / mid-run), min_steps and max_steps in {default, < , = , > each other and total}. distinct "
    "= (condition kind, threshold class, min class, max class, which clause decided the halt); non-trivial iff the "
    "condition was evaluated at least twice"
)
REQUIRED_COUNTERS = ["condition_evaluations", "runs"]
ASSUMPTIONS = [
    "the hard cutoff is unconditional (docstrings: 'regardless of the condition being fulfilled'); min_steps only gates convergence",
    "steps where the convergence quantity is within 1e-6 relative of the threshold accept either verdict",
    "DetectorConvergenceCondition is driven with min_steps <= max_steps (its documentation promises both; they conflict otherwise)",
]
CASE_TIMEOUT = {"quick": 1200, "thorough": 3000}


def cases(tier, rng):
    n = 12 if tier == "quick" else 60
    out = []
    for i in range(n):
        out.append(
            {
                "seed": int(rng.integers(1 << 30)),
                "kind": "energy" if i % 2 == 0 else "detector",
                "n_conditions": 6 if tier == "quick" else 10,
                "index": i // 2,
            }
        )
    return out


def run_case(case):
    from vf import bootstrap
    from vf.result import Res

    bootstrap.ensure()
    r = Res()
    _one(case, r)
    return r.to_dict()


def _scene(rng, kind):
    from vf import scenes

    n = int(rng.integers(8, 11))
    wl_cells = float(rng.uniform(6.0, 9.0))
    T = int(rng.integers(90, 140))
    s = scenes.default_scene(shape=(n, n, n), steps=T)
    for f in scenes.FACES:
        s["faces"][f] = {"type": "pml", "thickness": 2}
    wl = wl_cells * 50e-9
    src = {"kind": "dipole", "lo": [int(rng.integers(3, n - 3)) for _ in range(3)], "polarization": int(rng.integers(3)), "wavelength": wl}
    if kind == "energy" or rng.random() < 0.3:
        src["profile"] = {"kind": "pulse", "center_wavelength": wl, "width_wavelength": wl * float(rng.uniform(3, 6))}
    s["sources"] = [src]
    dk = ["energy", "poynting", "field"][int(rng.integers(3))]
    lo, hi = [2, 2, 2], [n - 2, n - 2, n - 2]
    d = {"kind": dk, "lo": lo, "hi": hi, "reduce": True, "name": "probe"}
    if dk == "poynting":
        d["hi"] = [n - 2, n - 2, 3]
        d["lo"] = [2, 2, 2]
        d["axis"] = 2
    if dk == "field":
        d["components"] = ["Ez"]
    s["detectors"] = [d]
    return s, wl, dk


def _one(sc, r):
    import jax
    import jax.numpy as jnp
    import numpy as np

    import fdtdx
    from fdtdx.fdtd import stop_conditions as SC
    from vf import hooks, scenes

    rng = np.random.default_rng(sc["seed"])
    scene, wl, dk = _scene(rng, sc["kind"])
    built = scenes.build(scene)
    objects, config, arrays = built["objects"], built["config"], built["arrays"]
    T = config.time_steps_total
    key = jax.random.PRNGKey(5)

    # ---- plain run with captured states ------------------------------------------------------
    with hooks.trace_forward(capture_fields=True) as log:
        st = jax.jit(lambda a: fdtdx.run_fdtd(arrays=a, objects=objects, config=config, key=key, show_progress=False))(arrays)
        jax.block_until_ready(st)
        jax.effects_barrier()
    ev = sorted(log.of("forward"), key=lambda e: e[1])
    if [e[1] for e in ev] != list(range(T)):
        r.inconclusive("plain run trace incomplete")
        return
    E_t = [np.zeros_like(ev[0][2])] + [e[2] for e in ev]  # state at time t
    H_t = [np.zeros_like(ev[0][3])] + [e[3] for e in ev]
    readings = np.asarray(next(iter(st[1].detector_states["probe"].values())))  # (T, 1)
    full_det = scenes.detector_arrays(st[1])
    energy_t = np.array(
        [
            float(jnp.sum(fdtdx.compute_energy(jnp.asarray(E_t[t]), jnp.asarray(H_t[t]), arrays.inv_permittivities, arrays.inv_permeabilities)))
            for t in range(T + 1)
        ]
    )
    spp = round((wl / 299792458.0) / config.time_step_duration)

    def det_distance(t, prev):
        a, b = t - (prev + 1) * spp, t - spp
        a = int(np.clip(a, 0, T - prev * spp))
        b = int(np.clip(b, 0, T - spp))
        ref = readings[a : a + prev * spp, 0].reshape(prev, spp).mean(axis=0)
        last = readings[b : b + spp, 0]
        return float(np.linalg.norm(np.abs(np.fft.rfft(ref, n=spp)) - np.abs(np.fft.rfft(last, n=spp))))

    for ci in range(sc["n_conditions"]):
        r.count("runs")
        # the (min, max) class grid is walked systematically across the cases of a run, so that every combination
        # (e.g. default min_steps with an explicit max_steps) is driven, each with a threshold that makes the minimum
        # the deciding clause at least once
        j = sc["index"] * sc["n_conditions"] + ci
        min_class = ["default", "small", "mid", "large", "gt_max"][j % 5]
        max_class = ["default", "mid", "lt_min", "eq_total", "gt_total"][(j // 5) % 5]
        if j >= 25:
            thr_class = ["always", "mid", "never", "mid"][(j // 25 + j) % 4]
        elif max_class in ("mid", "eq_total", "gt_total") and min_class in ("small", "mid", "large"):
            # the maximum (or, for max_steps > total, the configured total) is the deciding clause
            thr_class = "never"
        else:
            thr_class = "always"  # the minimum is the deciding clause
        if sc["kind"] == "energy":
            pos = energy_t[energy_t > 0]
            lo_e, hi_e = (float(pos.min()), float(pos.max())) if len(pos) else (1e-30, 1e-20)
            thr = {"never": lo_e * 1e-6, "always": hi_e * 10.0, "mid": float(np.exp(rng.uniform(np.log(lo_e * 1.5), np.log(hi_e * 0.7))))}[thr_class]
            mid = int(rng.integers(T // 4, 3 * T // 4))
            min_steps = {"default": None, "small": int(rng.integers(0, 5)), "mid": mid, "large": T - 2, "gt_max": None}[min_class]
            max_steps = {"default": None, "mid": int(rng.integers(T // 3, T)), "lt_min": None, "eq_total": T, "gt_total": T + 17}[max_class]
            if min_class == "gt_max":
                max_steps = int(rng.integers(5, T // 2))
                min_steps = max_steps + int(rng.integers(1, 20))
            if max_class == "lt_min" and min_steps is not None and min_steps > 2:
                max_steps = int(rng.integers(1, min_steps))
            cond = SC.EnergyThresholdCondition(threshold=thr, min_steps=min_steps, max_steps=max_steps)
            eff_min = round(T * 0.1) if min_steps is None else min_steps
            eff_max = T if max_steps is None else max_steps
            quantity = energy_t
            cls = SC.EnergyThresholdCondition

            def conv(t):
                q = quantity[t]
                if abs(q - thr) <= 1e-6 * thr:
                    return None
                return q < thr
        else:
            prev = int(rng.integers(1, 3))
            need = (prev + 1) * spp
            if need > T:
                r.branch("detector:too_few_steps")
                continue
            ds = np.array([det_distance(t, prev) for t in range(need, T + 1)])
            pos = ds[ds > 0]
            lo_d, hi_d = (float(pos.min()), float(pos.max())) if len(pos) else (1e-30, 1e-20)
            thr = {"never": lo_d * 1e-6, "always": hi_d * 10.0, "mid": float(np.exp(rng.uniform(np.log(lo_d * 1.2), np.log(hi_d * 0.8))))}[thr_class]
            min_steps = {"default": None, "small": need, "mid": int(rng.integers(need, T)), "large": T - 1, "gt_max": None}[min_class]
            eff_min = need if min_steps is None else min_steps
            max_steps = {"default": None, "mid": int(rng.integers(eff_min, T + 1)), "lt_min": None, "eq_total": T, "gt_total": T + 9}[max_class]
            eff_max = T if max_steps is None else max_steps
            cond = SC.DetectorConvergenceCondition(
                detector_name="probe", wave_character=fdtdx.WaveCharacter(wavelength=wl), prev_periods=prev,
                threshold=thr, min_steps=min_steps, max_steps=max_steps,
            )
            cls = SC.DetectorConvergenceCondition

            def conv(t):
                q = det_distance(t, prev)
                if abs(q - thr) <= 1e-6 * thr:
                    return None
                return q < thr

        # ---- reference halt step ---------------------------------------------------------------
        t_halt, why, ambiguous = None, None, False
        for t in range(0, T + 1):
            if t >= eff_max:
                t_halt, why = t, "max_steps"
                break
            if t >= T:
                t_halt, why = t, "total"
                break
            if t >= eff_min:
                c = conv(t)
                if c is None:
                    ambiguous = True
                    break
                if c:
                    t_halt, why = t, "converged"
                    break
        if ambiguous:
            r.branch("ambiguous_threshold_skipped")
            continue

        # ---- monitored run ---------------------------------------------------------------------
        evals = []

        def factory(orig):
            def wrapped(self, state, config, objects):
                v = orig(self, state, config, objects)
                jax.debug.callback(lambda t, c: evals.append((int(t), bool(c))), state[0], v)
                return v

            return wrapped

        with hooks.patched(cls, "__call__", factory):
            out = jax.jit(
                lambda a: fdtdx.run_fdtd(arrays=a, objects=objects, config=config, key=key, stopping_condition=cond, show_progress=False)
            )(arrays)
            jax.block_until_ready(out)
            jax.effects_barrier()
        evals.sort()
        r.count("condition_evaluations", len(evals))
        t_got = int(out[0])
        sig = (sc["kind"], thr_class, min_class, max_class, why)
        r.branch("halt:" + str(why))
        r.branch("kind:" + sc["kind"] + ":" + dk)
        wit = {
            "case": sc, "condition": sc["kind"], "detector": dk, "threshold": thr, "min_steps": min_steps, "max_steps": max_steps,
            "total": T, "spp": spp, "expected_halt": t_halt, "expected_reason": why, "got_halt": t_got,
            "evaluations_tail": evals[-6:],
        }
        mech = None
        if cls is SC.DetectorConvergenceCondition and why == "max_steps" and eff_max < T and t_got > t_halt:
            mech = "detector-convergence-ignores-max-steps"
        # trace spec: the set of evaluated steps is 0..k consecutive (a loop may evaluate its predicate more than
        # once per step), repeated evaluations of one step agree, and no step after the first stop is evaluated
        by_t = {}
        inconsistent = None
        for t, c in evals:
            if t in by_t and by_t[t] != c:
                inconsistent = t
            by_t[t] = c
        ts = sorted(by_t)
        if inconsistent is not None:
            r.violate("the condition gave two different verdicts for one step", {**wit, "step": inconsistent}, sig=sig)
        elif ts != list(range(len(ts))):
            r.violate("stopping condition not evaluated at consecutive steps from 0", wit, sig=sig)
        elif any(not by_t[t] for t in ts[:-1]):
            k = next(t for t in ts if not by_t[t])
            r.violate("run continued after the condition reported stop", {**wit, "first_stop_eval": k}, mechanism=mech, sig=sig)
        else:
            r.ok(None)
        if t_got != t_halt:
            r.violate(f"run halted at step {t_got}, documented rule gives {t_halt} ({why})", wit, mechanism=mech, sig=sig)
            continue
        r.ok(sig if len(by_t) >= 2 else None)
        # halted state == plain run of the same number of steps
        r.check_close("E_at_halt", np.asarray(out[1].fields.E), E_t[t_got], 1e-12, witness=wit, sig=sig)
        r.check_close("H_at_halt", np.asarray(out[1].fields.H), H_t[t_got], 1e-12, witness=wit, sig=sig)
        for k, v in scenes.detector_arrays(out[1]).items():
            want = full_det[k].copy()
            want[t_got:] = 0
            r.check_close("detector_rows_at_halt", v, want, 1e-12, witness={**wit, "detector_array": k}, sig=sig)
        r.sample = {k: wit[k] for k in ("condition", "detector", "threshold", "min_steps", "max_steps", "total", "expected_halt", "expected_reason")}

"""C43 — spheres/ellipsoids, cylinders and extruded polygons are rasterised by cell-centre inclusion.

Every object is placed by the real `place_objects` (through vf.scenes.build with extra objects / constraints) on
uniform, quasi-uniform and stretched rectilinear grids.  `get_voxel_mask_for_shape()` of the placed object is
compared cell by cell with an independent analytic predicate evaluated at the physical cell centres taken from the
placed config's edge arrays:
  * ellipsoid   sum_a ((c_a - m_a)/r_a)^2 < 1, m = centre of the allocated box
  * cylinder    disc of radius r in the two transverse axes, every layer along the axis
  * polygon     own even-odd ray cast against the vertices shifted to the box centre, every layer along the axis
Cells whose centre is closer to the analytic boundary than 1e-9 * size are excluded from the verdict and counted.
"""

from __future__ import annotations

PROPERTY = "C43"
RULE = (
    "scenes: 5-9 shape objects each on grid kinds {uniform, rect_uniform, quasi-uniform, graded, random-stretched}; "
    "shapes {sphere, ellipsoid (1-3 distinct radii), cylinder x 3 axes, extruded polygon x 3 axes from {regular n-gon, "
    "random star, rectangle, L, comb, sliver, triangle} open/closed, cw/ccw}; radii classes {half-integer multiples "
    "of the spacing (centres exactly on the boundary), random, sub-cell, large}; positions by real position, grid "
    "coordinates or anchors.  distinct = (shape kind, axis, grid kind, size class, position mode, polygon family)"
)
REQUIRED_COUNTERS = ["cells_compared", "masks_compared", "cells_inside"]
ASSUMPTIONS = [
    "the analytic shape is centred on the centre of the grid box that place_objects allocated to the object "
    "(class docstrings: 'placed so that its center coincides with the center of the grid region')",
    "cells with |sqrt(f)-1| <= 4e-9 (ellipse equation f) or polygon-edge distance <= 1e-9*bbox are not judged",
    "only simple (non self-intersecting) polygons with origin-centred bounding box are generated",
    "a cylinder mask may be returned with extent 1 along its axis (broadcastable); it is broadcast before comparing",
    "cells of the volume outside the object's box but inside the analytic shape by a 1e-6 margin count as 'not marked' "
    "(mechanism shape-box-truncated-*); cylinders/polygons are only judged in their cross-section for this",
]
CASE_TIMEOUT = {"quick": 600, "thorough": 1800}

GRIDS = ("uniform", "rect_uniform", "quasi", "graded", "stretched")


def cases(tier, rng):
    q = tier == "quick"
    out = []
    n = 12 if q else 300
    for i in range(n):
        out.append({"grid": GRIDS[i % len(GRIDS)], "n_objects": 8 if q else 9})
    return out


def _violate(r, what, witness=None, mechanism=None, sig=None):
    """Record at most two violations per mechanism key and case, so that a frequent (possibly already known)
    mechanism cannot crowd a different one out of the bounded violation list of `Res`."""
    k = f"violations[{mechanism}]"
    r.count(k)
    if r.counters[k] <= 2:
        r.violate(what, witness, mechanism, sig)
    else:
        r.evals += 1
        if sig is not None:
            r.sigs.add(sig if isinstance(sig, str) else repr(sig))



def run_case(case):
    import numpy as np

    from vf.result import Res

    r = Res()
    rng = np.random.default_rng(case["seed"])
    _scene(case, r, rng)
    return r.to_dict()


# ------------------------------------------------------------------------------------------------
# polygon generators (vertices in metres, bounding box centred on the origin)
# ------------------------------------------------------------------------------------------------
def _polygon(rng, family, size, cell):
    import numpy as np

    if family == "ngon":
        k = int(rng.integers(3, 9))
        th = float(rng.uniform(0, 2 * np.pi)) + 2 * np.pi * np.arange(k) / k
        v = np.stack([np.cos(th), np.sin(th)], 1)
    elif family == "star":
        k = int(rng.integers(5, 14))
        th = np.sort(rng.uniform(0, 2 * np.pi, k))
        # keep angular gaps < pi so the radial polygon is simple and contains its centre
        th = np.linspace(0, 2 * np.pi, k, endpoint=False) + rng.uniform(-0.4, 0.4, k) * (2 * np.pi / k)
        rad = rng.uniform(0.25, 1.0, k)
        v = np.stack([rad * np.cos(th), rad * np.sin(th)], 1)
    elif family == "rect":
        a = float(rng.uniform(0.2, 1.0))
        v = np.array([[-1, -a], [1, -a], [1, a], [-1, a]], float)
    elif family == "L":
        a, b = rng.uniform(0.2, 0.8, 2)
        v = np.array([[0, 0], [1, 0], [1, a], [b, a], [b, 1], [0, 1]], float)
    elif family == "comb":
        t = int(rng.integers(2, 5))
        pts = [[0.0, 0.0], [2.0 * t - 1, 0.0]]
        for i in range(t - 1, -1, -1):
            pts += [[2 * i + 1.0, 3.0], [2 * i + 0.0, 3.0]]
            if i > 0:
                pts += [[2 * i + 0.0, 1.0], [2 * i - 1.0, 1.0]]
        v = np.array(pts, float)
    elif family == "sliver":
        # about one cell thick (0.7 .. 1.45 cells) so that it does not resolve to zero cells
        h = float(rng.uniform(0.9, 1.8)) * cell / size
        v = np.array([[-1, -0.4 * h], [1, -h], [1, 0.6 * h], [-1, 0.4 * h]], float)
    elif family == "triangle":
        v = rng.uniform(-1, 1, (3, 2))
        if abs(np.cross(v[1] - v[0], v[2] - v[0])) < 0.2:
            v = np.array([[-1, -1], [1, -0.5], [0, 1]], float)
    else:
        raise ValueError(family)
    if rng.random() < 0.5:
        v = v[::-1].copy()
    lo, hi = v.min(0), v.max(0)
    v = v - 0.5 * (lo + hi)
    scale = size / max(float((hi - lo).max()), 1e-30)
    if family not in ("sliver",) and rng.random() < 0.5:
        # anisotropic stretch
        v = v * np.array([1.0, float(rng.uniform(0.5, 1.0))])
    v = v * scale
    lo, hi = v.min(0), v.max(0)
    v = v - 0.5 * (lo + hi)
    return v


def _point_in_polygon(px, py, verts):
    """Even-odd ray cast (+x ray); returns (inside bool array, distance to the nearest edge)."""
    import numpy as np

    v = np.asarray(verts, float)
    if len(v) > 1 and np.array_equal(v[0], v[-1]):
        v = v[:-1]
    n = len(v)
    inside = np.zeros(px.shape, bool)
    dist = np.full(px.shape, np.inf)
    for i in range(n):
        x1, y1 = v[i]
        x2, y2 = v[(i + 1) % n]
        cond = (y1 > py) != (y2 > py)
        with np.errstate(divide="ignore", invalid="ignore"):
            xi = x1 + (py - y1) * (x2 - x1) / (y2 - y1)
        inside ^= cond & (px < xi)
        dx, dy = x2 - x1, y2 - y1
        L2 = dx * dx + dy * dy
        t = np.clip(((px - x1) * dx + (py - y1) * dy) / L2, 0, 1) if L2 > 0 else np.zeros(px.shape)
        d = np.hypot(px - (x1 + t * dx), py - (y1 + t * dy))
        dist = np.minimum(dist, d)
    return inside, dist


# ------------------------------------------------------------------------------------------------
def _grid_spec(rng, kind, shape, s):
    import numpy as np

    if kind == "uniform":
        return {"kind": "uniform", "spacing": s}
    if kind == "rect_uniform":
        return {"kind": "rect_uniform", "spacing": s}
    if kind == "quasi":
        return {"kind": "quasi", "d": [s, s * float(rng.uniform(0.7, 1.6)), s * float(rng.uniform(0.7, 1.6))]}
    ed = []
    for n in shape:
        if kind == "graded":
            q = float(rng.uniform(1.01, 1.06))
            w = s * q ** np.arange(n)
            if rng.random() < 0.5:
                w = w[::-1]
        else:
            w = s * rng.uniform(0.6, 1.7, n)
        ed.append((-w.sum() / 2 + np.concatenate([[0.0], np.cumsum(w)])).tolist())
    return {"kind": "rect", "edges": ed}


def _radius(rng, cls, s):
    if cls == "half_integer":
        return float(rng.choice([1.5, 2.0, 2.5, 3.0, 3.5, 5.0])) * s
    if cls == "random":
        return float(rng.uniform(1.2, 4.5)) * s
    if cls == "subcell":
        return float(rng.uniform(0.3, 0.9)) * s
    if cls == "large":
        return float(rng.uniform(4.5, 6.5)) * s
    raise ValueError(cls)


def _scene(case, r, rng):
    import numpy as np

    from vf import bootstrap, scenes

    fdtdx = bootstrap.ensure()
    gk = case["grid"]
    shape = [int(rng.choice([30, 32, 36])), int(rng.choice([28, 30, 34])), int(rng.choice([26, 28]))]
    s = float(rng.choice([20e-9, 25e-9, 50e-9, 31.7e-9]))
    sc = scenes.default_scene(shape=shape, steps=1, spacing=s)
    sc["grid"] = _grid_spec(rng, gk, shape, s)
    mats = {"air": fdtdx.Material(permittivity=1.0), "si": fdtdx.Material(permittivity=12.25)}
    vol = fdtdx.SimulationVolume(partial_grid_shape=tuple(shape), name="volume")  # name stub for constraints
    objs, cons, meta = [], [], {}
    kinds = ["sphere", "ellipsoid", "cylinder", "polygon", "polygon", "cylinder", "ellipsoid", "polygon", "sphere"]
    for i in range(case["n_objects"]):
        kind = kinds[(i + int(rng.integers(3))) % len(kinds)]
        name = f"shape{i}"
        rcls = ("half_integer", "random", "subcell", "large")[int(rng.choice([0, 0, 1, 1, 1, 2, 3]))]
        axis = int(rng.integers(3))
        m = {"kind": kind, "size_class": rcls, "axis": axis}
        if kind == "sphere":
            rad = _radius(rng, rcls, s)
            o = fdtdx.Sphere(name=name, radius=rad, materials=mats, material_name="si")
            m["radii"] = [rad, rad, rad]
        elif kind == "ellipsoid":
            rr = [_radius(rng, rcls, s) for _ in range(3)]
            given = [bool(rng.integers(2)) for _ in range(3)]
            if not any(given):
                given[int(rng.integers(3))] = True
            base = _radius(rng, "random", s)
            kw = {f"radius_{'xyz'[a]}": rr[a] for a in range(3) if given[a]}
            o = fdtdx.Sphere(name=name, radius=base, materials=mats, material_name="si", **kw)
            m["radii"] = [rr[a] if given[a] else base for a in range(3)]
        elif kind == "cylinder":
            rad = _radius(rng, rcls, s)
            pgs = [None, None, None]
            pgs[axis] = int(rng.choice([1, 2, 5]))
            o = fdtdx.Cylinder(name=name, radius=rad, axis=axis, materials=mats, material_name="si", partial_grid_shape=tuple(pgs))
            m["radius"] = rad
        else:
            fam = ("ngon", "star", "rect", "L", "comb", "sliver", "triangle")[int(rng.integers(7))]
            size = 2 * _radius(rng, rcls if rcls != "subcell" else "random", s)
            v = _polygon(rng, fam, size, s)
            if rng.random() < 0.4:
                v = np.concatenate([v, v[:1]], 0)
                m["closed"] = True
            pgs = [None, None, None]
            pgs[axis] = int(rng.choice([1, 3]))
            o = fdtdx.ExtrudedPolygon(name=name, axis=axis, vertices=v, materials=mats, material_name="si", partial_grid_shape=tuple(pgs))
            m["family"] = fam
            m["vertices"] = v.tolist()
        # ---- position ---------------------------------------------------------------------------
        # GridCoordinateConstraint is an index-space API that place_objects refuses on non-uniform grids
        modes = ("real", "grid", "anchor", "realcoord") if gk in ("uniform", "rect_uniform") else ("real", "anchor", "realcoord")
        mode = modes[int(rng.integers(len(modes)))]
        m["position_mode"] = mode
        g = sc["grid"]
        if g["kind"] == "rect":
            ext = [g["edges"][a][-1] - g["edges"][a][0] for a in range(3)]
        elif g["kind"] == "quasi":
            ext = [shape[a] * g["d"][a] for a in range(3)]
        else:
            ext = [shape[a] * s for a in range(3)]
        if mode == "real":
            pos = tuple(float(rng.uniform(-0.12, 0.12)) * ext[a] for a in range(3))
            o = o.aset("partial_real_position", pos)
            m["position"] = list(pos)
        elif mode == "grid":
            c = tuple(int(rng.integers(shape[a] // 2 - 4, shape[a] // 2 + 1)) for a in range(3))
            # centre-ish lower corner; the size comes from the shape itself
            c = tuple(max(0, c[a] - 5) for a in range(3))
            cons.append(o.set_grid_coordinates(axes=(0, 1, 2), sides=("-", "-", "-"), coordinates=c))
            m["position"] = list(c)
        elif mode == "realcoord":
            lo = tuple(float(rng.uniform(-0.3, 0.0)) * ext[a] for a in range(3))
            cons.append(fdtdx.RealCoordinateConstraint(object=name, axes=(0, 1, 2), sides=("-", "-", "-"), coordinates=lo))
            m["position"] = list(lo)
        else:
            op = tuple(float(rng.uniform(-0.3, 0.3)) for _ in range(3))
            cons.append(o.place_relative_to(vol, axes=(0, 1, 2), own_positions=(0.0, 0.0, 0.0), other_positions=op))
            m["position"] = list(op)
        objs.append(o)
        meta[name] = m
    desc = {"grid": sc["grid"] if gk in ("uniform", "rect_uniform", "quasi") else {"kind": gk}, "shape": shape, "spacing": s}
    import re

    built = None
    for attempt in range(4):
        try:
            built = scenes.build(sc, extra_objects=objs, extra_constraints=cons, apply=False)
            break
        except Exception as e:  # noqa: BLE001
            # place_objects refuses the whole scene when one object cannot be resolved (a sub-cell shape resolving
            # to zero cells, an object leaving the volume): drop the objects it names and place the rest
            named = set(re.findall(r"- (shape\d+):", str(e))) | set(re.findall(r"'(shape\d+)'", str(e)))
            r.branch(f"objects_rejected_by_placement:{type(e).__name__}", max(1, len(named)))
            if not named:
                named = {o.name for o in objs if meta[o.name]["size_class"] == "subcell" or meta[o.name].get("family") == "sliver"}
                if not named:
                    raise
            objs = [o for o in objs if o.name not in named]
            cons = [c for c in cons if c.object not in named]
    if built is None:
        r.inconclusive("scene could not be placed after dropping rejected objects")
        return
    grid = built["config"].grid
    E = [np.asarray(grid.edges(a)).astype(np.float64) for a in range(3)]
    placed = {o.name: o for o in built["objects"].objects}
    for o in objs:
        _judge(r, placed[o.name], meta[o.name], E, gk, desc)


def _judge(r, obj, m, E, gk, desc):
    import numpy as np

    sl = obj.grid_slice_tuple
    gshape = tuple(hi - lo for lo, hi in sl)
    mask = np.asarray(obj.get_voxel_mask_for_shape())
    wit = {**desc, **{k: v for k, v in m.items()}, "slice": [list(x) for x in sl]}
    r.count("masks_compared")
    sig = (m["kind"], m["axis"] if m["kind"] in ("cylinder", "polygon") else "-", gk, m["size_class"], m["position_mode"], m.get("family", "-"))
    if mask.dtype != np.bool_:
        _violate(r, f"mask dtype {mask.dtype} is not boolean", wit, sig=sig)
        return
    if mask.shape != gshape:
        ok_b = len(mask.shape) == 3 and all(ms in (1, g) for ms, g in zip(mask.shape, gshape))
        if not ok_b:
            _violate(r, f"mask shape {mask.shape} does not fit the object's grid shape {gshape}", wit, sig=sig)
            return
        r.branch("mask_broadcast_along_axis")
        mask = np.broadcast_to(mask, gshape)
    C = [0.5 * (E[a][sl[a][0] : sl[a][1]] + E[a][sl[a][0] + 1 : sl[a][1] + 1]) for a in range(3)]
    mid = [0.5 * (E[a][sl[a][0]] + E[a][sl[a][1]]) for a in range(3)]
    X = np.meshgrid(*[C[a] - mid[a] for a in range(3)], indexing="ij")
    if m["kind"] in ("sphere", "ellipsoid"):
        f = sum((X[a] / m["radii"][a]) ** 2 for a in range(3))
        want = f < 1
        near = np.abs(np.sqrt(f) - 1) <= 4e-9
    elif m["kind"] == "cylinder":
        t = [a for a in range(3) if a != m["axis"]]
        f = (X[t[0]] / m["radius"]) ** 2 + (X[t[1]] / m["radius"]) ** 2
        want = f < 1
        near = np.abs(np.sqrt(f) - 1) <= 4e-9
    else:
        t = [a for a in range(3) if a != m["axis"]]
        v = np.asarray(m["vertices"], float)
        want, dist = _point_in_polygon(X[t[0]], X[t[1]], v)
        bb = float(max(v[:, 0].max() - v[:, 0].min(), v[:, 1].max() - v[:, 1].min()))
        near = dist <= 1e-9 * bb
    # observation (not judged here): analytic cells that fall outside the box place_objects allocated
    out = _cells_outside_box(m, E, sl, mid)
    if out:
        r.count("analytic_cells_outside_allocated_box", out)
        r.branch(f"box_truncates_shape:{gk}")
        u = "uniform" if gk in ("uniform", "rect_uniform") else "nonuniform"
        _violate(r, 
            f"{m['kind']}: {out} cells of the volume have their centre strictly inside the analytic shape but lie outside the "
            f"grid box {[list(x) for x in sl]} allocated to the object, so they are not marked",
            {**wit, "cells_outside_box": out, "box_extent": [float(E[a][sl[a][1]] - E[a][sl[a][0]]) for a in range(3)],
             "edges": [e.tolist() for e in E] if gk in ("graded", "stretched") else None},
            mechanism=f"shape-box-truncated-on-{u}-grid",
            sig=sig,
        )
    judged = ~near
    nb = int(near.sum())
    if nb:
        r.count("cells_on_boundary_excluded", nb)
        r.branch("boundary_ties")
    r.count("cells_compared", int(judged.sum()))
    r.count("cells_inside", int((want & judged).sum()))
    bad = (mask != want) & judged
    if bad.any():
        idx = np.argwhere(bad)
        i0 = tuple(int(x) for x in idx[0])
        _violate(r, 
            f"{m['kind']}: {int(bad.sum())} of {int(judged.sum())} cells differ from cell-centre inclusion",
            {**wit, "first_bad_cell": list(i0), "mask_value": bool(mask[i0]), "analytic_inside": bool(want[i0]),
             "cell_centre_relative_to_box_centre": [float(X[a][i0]) for a in range(3)], "n_bad": int(bad.sum()),
             "extra": int((mask & ~want & judged).sum()), "missing": int((~mask & want & judged).sum())},
            mechanism=_mechanism(m, gk, mask, want, judged),
            sig=sig,
        )
    else:
        nontrivial = bool((want & judged).any()) and bool((~want & judged).any())
        r.ok(sig if nontrivial else None)
        if not (want & judged).any():
            r.branch("empty_shape")
        if not (~want & judged).any():
            r.branch("full_box")
    r.branch(f"{m['kind']}:{gk}")
    if r.sample is None and m["kind"] != "polygon":
        r.sample = {**{k: v for k, v in wit.items() if k != "vertices"}, "cells_inside": int(want.sum()), "cells": int(want.size)}


def _cells_outside_box(m, E, sl, mid):
    """Number of volume cells strictly inside the analytic shape (margin 1e-6) but outside the object's box."""
    import numpy as np

    C = [0.5 * (E[a][:-1] + E[a][1:]) - mid[a] for a in range(3)]
    inbox = [np.zeros(len(C[a]), bool) for a in range(3)]
    for a in range(3):
        inbox[a][sl[a][0] : sl[a][1]] = True
    if m["kind"] in ("sphere", "ellipsoid"):
        X = np.meshgrid(*C, indexing="ij")
        inside = sum((X[a] / m["radii"][a]) ** 2 for a in range(3)) < 1 - 1e-6
        box = inbox[0][:, None, None] & inbox[1][None, :, None] & inbox[2][None, None, :]
        return int((inside & ~box).sum())
    t = [a for a in range(3) if a != m["axis"]]
    X = np.meshgrid(C[t[0]], C[t[1]], indexing="ij")
    if m["kind"] == "cylinder":
        inside = (X[0] / m["radius"]) ** 2 + (X[1] / m["radius"]) ** 2 < 1 - 1e-6
    else:
        v = np.asarray(m["vertices"], float)
        inside, dist = _point_in_polygon(X[0], X[1], v)
        inside &= dist > 1e-6 * float(np.abs(v).max())
    box = inbox[t[0]][:, None] & inbox[t[1]][None, :]
    return int((inside & ~box).sum())


def _mechanism(m, gk, mask, want, judged):
    """Deterministic classifier of a mismatch by shape kind and direction (no random values)."""
    extra = bool((mask & ~want & judged).any())
    missing = bool((~mask & want & judged).any())
    d = "extra+missing" if extra and missing else "extra" if extra else "missing"
    u = "uniform" if gk in ("uniform", "rect_uniform") else "nonuniform"
    return f"raster-{m['kind']}-{u}-{d}"

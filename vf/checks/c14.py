"""C14 — on/off schedules decide exactly when sources inject and detectors record.

(a) model check (exhaustive over a finite grid): `OnOffSwitch.calculate_on_list` and
    `calculate_time_step_to_on_arr_idx` for every schedule of a parameter grid (start/end as times or periods,
    on_for as time or periods, period, interval, always_off, fixed lists; boundary-exact, negative, beyond-T and
    infinite values; over-specified and period-less combinations) and every step count T <= Tmax, against an
    independent predicate written from the field documentation and evaluated in exact rational arithmetic.
(b) monitors in real runs: seeded scenes with 2-3 sources and 3-4 detectors carrying random schedules.
    * twin run: `forward` is driven step by step from a random field state; for every source the same step is
      repeated with that source removed from the object container: the two next states must be bit-identical at
      inactive steps and must differ at active steps;
    * detector rows: state arrays before/after each step — at the i-th active step exactly row i changes (and,
      for raw field detectors, equals the fields of that step), at inactive steps nothing changes, the row
      count equals the number of active steps;
    * the same row monitor is attached to `update_detector_states` inside a real jitted `run_fdtd` loop, where
      in addition the fields must be exactly zero until the first active step of any source.
"""

from __future__ import annotations

PROPERTY = "C14"
RULE = (
    "model: every schedule of grid G(tier) x every T in 0..Tmax judged step by step (steps whose time lies within "
    "1e-12 relative of a window bound without being exactly on it are rounding ties: both answers accepted); "
    "runs: seeded scenes, every (object, step) judged; distinct = (start kind, end kind, on_for kind, interval, "
    "outcome class) for the model and (object kind, schedule kind, active/inactive) for runs; non-trivial = the "
    "on-list is neither forced by always_off nor empty because T == 0"
)
REQUIRED_COUNTERS = ["schedules_checked", "steps_checked", "twin_steps_inactive", "twin_steps_active", "detector_steps", "loop_hook_events"]
ASSUMPTIONS = [
    "documented rule: fixed list decides alone; else always_off -> never; else start (default 0) <= t*dt <= end "
    "(default inf), on_for completes the missing bound (with neither: [0, on_for]), *_periods x period, and t % interval == 0",
    "fixed_on_time_steps together with is_always_off, steps outside 0..T-1, interval <= 0 are not generated "
    "(undocumented combinations)",
    "over-specified / period-less schedules: the library may reject them (any exception); accepting them is not judged",
    "random run scenes only carry detectors with >= 1 active step; detectors without any active step (always-off, "
    "empty list, window outside the run) are driven by the dedicated zero_active cases (a phasor detector may reject "
    "such a schedule with its documented 'window sums to 0' error)",
    "a source is required to change the fields at an active step only when its temporal amplitude is known to be "
    "non-zero there (dipoles with a strictly positive sampled signal: every active step; plane sources with the "
    "ramped CW profile: active steps with on-index >= 1)",
]
CASE_TIMEOUT = {"quick": 900, "thorough": 2400}

INF = float("inf")
DT_DYADIC = 0.25
DT_PHYS = 9.533251e-17


def EXHAUSTIVE(tier):
    return True  # the schedule grid x T range of part (a) is walked completely


def _tmax(tier):
    return 8 if tier == "quick" else 24


def cases(tier, rng):
    out = []
    nblk = 8 if tier == "quick" else 28
    for b in range(nblk):
        out.append({"kind": "model", "block": b, "nblocks": nblk, "tmax": _tmax(tier)})
    nrun = 10 if tier == "quick" else 500
    for i in range(nrun):
        out.append({"kind": "run", "scene_seed": int(rng.integers(1 << 30)), "loop": bool(i % 2 == 0)})
    out.append({"kind": "run", "scene_seed": 12345, "loop": True, "all_off": True})
    for dk in ("field", "energy", "poynting", "phasor"):
        out.append({"kind": "zero_active", "detector": dk})
    return out


# ================================================================================================
# independent schedule predicate (pure python, exact rationals)
# ================================================================================================
def _F(x):
    from fractions import Fraction

    return Fraction(x)


def window(spec):
    """Returns ("invalid", reason) or ("ok", start, end) with exact Fractions / +-inf floats."""
    st, sp = spec.get("start_time"), spec.get("start_after_periods")
    et, ep = spec.get("end_time"), spec.get("end_after_periods")
    ot, op = spec.get("on_for_time"), spec.get("on_for_periods")
    per = spec.get("period")
    if (sp is not None or ep is not None or op is not None) and per is None:
        return ("invalid", "period missing")
    if st is not None and sp is not None:
        return ("invalid", "start given twice")
    if et is not None and ep is not None:
        return ("invalid", "end given twice")
    if ot is not None and op is not None:
        return ("invalid", "on_for given twice")

    def val(t, p):
        if t is not None:
            return t if t in (INF, -INF) else _F(t)
        if p is not None:
            return _F(p) * _F(per)
        return None

    start, end, on_for = val(st, sp), val(et, ep), val(ot, op)
    if on_for is not None:
        if start is not None and end is not None:
            return ("invalid", "start, end and on_for all given")
        if start is None and end is None:
            start, end = _F(0), on_for
        elif start is None:
            start = end - on_for if end not in (INF, -INF) else end
        else:
            end = start + on_for if start not in (INF, -INF) else start
    if start is None:
        start = _F(0)
    if end is None:
        end = INF
    return ("ok", start, end)


def predict(spec, n_steps, dt):
    """("invalid", reason) or ("ok", on[list of bool], tie[list of bool]) for steps 0..n_steps-1."""
    fixed = spec.get("fixed_on_time_steps")
    if fixed is not None:
        fs = set(fixed)
        return ("ok", [t in fs for t in range(n_steps)], [False] * n_steps)
    if spec.get("is_always_off"):
        return ("ok", [False] * n_steps, [False] * n_steps)
    w = window(spec)
    if w[0] == "invalid":
        return w
    _, start, end = w
    interval = spec.get("interval", 1)
    fdt = _F(dt)
    on, tie = [], []
    for t in range(n_steps):
        tt = t * fdt
        a, ta = _cmp_le(start, tt, fdt)  # start <= tt
        b, tb = _cmp_le(tt, end, fdt)  # tt <= end
        ok = a and b and (t % interval == 0)
        on.append(ok)
        # a tie only matters if flipping the tied comparison(s) could change the verdict
        tie.append((t % interval == 0) and (ta or tb) and not ((not a and not ta) or (not b and not tb)))
    return ("ok", on, tie)


def _cmp_le(x, y, scale):
    """(x <= y, is_rounding_tie) for Fractions / infinities."""
    if x == -INF or y == INF:
        return True, False
    if x == INF or y == -INF:
        return False, False
    d = y - x
    if d == 0:
        return True, False
    m = max(abs(x), abs(y), scale)
    return d > 0, abs(d) < m / 10**12


def index_map(on):
    out, c = [], 0
    for v in on:
        if v:
            out.append(c)
            c += 1
        else:
            out.append(-1)
    return out


# ================================================================================================
# (a) schedule grid
# ================================================================================================
def schedule_grid():
    """List of (spec_in_dt_units, dt).  Values are multiples of dt (and of the period) so that boundary-exact
    cases exist; the spec handed to the library is produced by `materialise`."""
    starts = [None] + [("t", v) for v in (0, 2, 2.5, 7, -1, 30)] + [("p", v) for v in (0.5, 1, 2)] + [("both", (2, 1))]
    ends = [None] + [("t", v) for v in (0, 3, 5.5, 7, 1, 100, INF)] + [("p", v) for v in (1, 1.5, 3)] + [("both", (5, 1))]
    onfors = [None] + [("t", v) for v in (0, 3, 4.5)] + [("p", v) for v in (0.5, 2)] + [("both", (3, 1))]
    periods = [None, 4, 3.3]
    intervals = [1, 2, 3, 5, 25]
    out = []
    n = 0
    for dt in (DT_DYADIC, DT_PHYS):
        for s in starts:
            for e in ends:
                for o in onfors:
                    for p in periods:
                        for iv in intervals:
                            g = {"s": s, "e": e, "o": o, "p": p, "iv": iv, "off": False, "fixed": None}
                            out.append((g, dt))
                            n += 1
                            if n % 9 == 0:
                                out.append((dict(g, off=True), dt))
    return out


def fixed_lists(T):
    ls = [[], list(range(T))]
    if T >= 1:
        ls += [[0], [T - 1], [T - 1, 0, 0]]
    if T >= 3:
        ls += [list(range(0, T, 2)), [T // 2, 1], list(range(T - 1, -1, -3))]
    return ls


def materialise(g, dt):
    spec = {}

    def put(kind_val, tname, pname):
        if kind_val is None:
            return
        k, v = kind_val
        if k == "t":
            spec[tname] = v * dt if v not in (INF, -INF) else v
        elif k == "p":
            spec[pname] = float(v)
        else:
            spec[tname] = v[0] * dt
            spec[pname] = float(v[1])

    put(g["s"], "start_time", "start_after_periods")
    put(g["e"], "end_time", "end_after_periods")
    put(g["o"], "on_for_time", "on_for_periods")
    if g["p"] is not None:
        spec["period"] = g["p"] * dt
    if g["iv"] != 1:
        spec["interval"] = g["iv"]
    if g["off"]:
        spec["is_always_off"] = True
    if g["fixed"] is not None:
        spec["fixed_on_time_steps"] = list(g["fixed"])
    return spec


def _kind(kv):
    return "-" if kv is None else kv[0]


def _model(case, r):
    from vf import bootstrap

    fdtdx = bootstrap.ensure()
    grid = schedule_grid()
    tmax = case["tmax"]
    mine = [gd for i, gd in enumerate(grid) if i % case["nblocks"] == case["block"]]
    for g, dt in mine:
        spec = materialise(g, dt)
        _check_spec(fdtdx, spec, dt, tmax, r, (_kind(g["s"]), _kind(g["e"]), _kind(g["o"]), g["iv"], g["off"]))
    # fixed lists: the list alone decides, whatever window / interval accompanies it
    if case["block"] < 4:
        for T in range(0, tmax + 1):
            for fl in fixed_lists(T):
                for extra in ({}, {"start_time": 2 * DT_DYADIC, "interval": 2}, {"end_time": 1 * DT_DYADIC}, {"period": 1.0, "start_after_periods": 3.0})[case["block"] :: 4]:
                    spec = dict(extra, fixed_on_time_steps=list(fl))
                    _check_spec(fdtdx, spec, DT_DYADIC, T, r, ("fixed", len(extra), len(fl) == 0, len(fl) == T), only_T=T)
    r.count("grid_size", len(mine))


def _check_spec(fdtdx, spec, dt, tmax, r, sigbase, only_T=None):
    sw = fdtdx.OnOffSwitch(**spec)
    pred = predict(spec, tmax, dt)
    Ts = range(0, tmax + 1) if only_T is None else [only_T]
    for T in Ts:
        r.count("schedules_checked")
        try:
            on = sw.calculate_on_list(num_total_time_steps=T, time_step_duration=dt)
            idx = sw.calculate_time_step_to_on_arr_idx(num_total_time_steps=T, time_step_duration=dt)
            raised = None
        except Exception as e:  # noqa: BLE001 - documented rejections are plain Exception
            on = idx = None
            raised = f"{type(e).__name__}: {e}"
        wit = {"switch": _jsonable(spec), "num_total_time_steps": T, "time_step_duration": dt}
        if pred[0] == "invalid":
            if raised is not None or T == 0:
                r.ok(("rejected", pred[1]))
                r.branch("rejected:" + pred[1])
            else:
                r.branch("overspecified_accepted_not_judged")
            continue
        if raised is not None:
            r.violate(f"a well-specified schedule is rejected: {raised}", wit, sig=sigbase)
            continue
        want_on, tie = pred[1][:T], pred[2][:T]
        if len(on) != T or len(idx) != T:
            r.violate(f"on-list / index map have lengths {len(on)} / {len(idx)}, expected {T}", {**wit, "on": [bool(x) for x in on]}, sig=sigbase)
            continue
        bad = [t for t in range(T) if (not tie[t]) and bool(on[t]) != want_on[t]]
        r.count("steps_checked", T - sum(tie))
        r.count("tie_steps_skipped", sum(tie))
        if bad:
            r.violate(
                f"step {bad[0]} is {'active' if on[bad[0]] else 'inactive'} but the documented window rule says the opposite",
                {**wit, "got_on": [bool(x) for x in on], "want_on": want_on, "ties": tie, "first_bad_step": bad[0]},
                sig=sigbase,
            )
            continue
        # index map must be the running count of the library's own (already verified) on-list
        if list(idx) != index_map([bool(x) for x in on]):
            r.violate("time-step -> array-index map is not the running count of active steps", {**wit, "on": [bool(x) for x in on], "idx": list(idx)}, sig=sigbase)
            continue
        k = sum(want_on)
        outcome = "empty" if k == 0 else ("full" if k == T else "partial")
        nontrivial = T > 0 and not spec.get("is_always_off")
        r.ok(sigbase + (outcome, "tie" if any(tie) else "") if nontrivial else None)
        if r.sample is None and outcome == "partial" and T >= 6:
            r.sample = {"switch": _jsonable(spec), "T": T, "dt": dt, "on": [int(x) for x in on], "idx": list(idx)}


def _jsonable(spec):
    return {k: (("inf" if v == INF else "-inf") if isinstance(v, float) and v in (INF, -INF) else v) for k, v in spec.items()}


# ================================================================================================
# (b) runs
# ================================================================================================
def gen_switch(rng, T, dt, allow_default=True):
    """Random *valid* schedule in units of dt; returns (spec, kind)."""
    c = int(rng.integers(0 if allow_default else 1, 11))
    h = lambda: float(rng.choice([0, 0.5, 1, 1.5, 2, 3, 4.5, 6, T - 1, T, T + 3]))  # noqa: E731
    if c == 0:
        return {}, "default"
    if c == 1:
        return {"is_always_off": True}, "always_off"
    if c == 2:
        k = int(rng.integers(0, T + 1))
        steps = [int(x) for x in rng.choice(T, size=k, replace=False)]
        if steps and rng.random() < 0.3:
            steps.append(steps[0])
        return {"fixed_on_time_steps": steps}, "fixed"
    if c == 3:
        a = h()
        return {"start_time": a * dt, "end_time": (a + float(rng.choice([0, 1, 2.5, 5]))) * dt}, "start_end"
    if c == 4:
        return {"interval": int(rng.choice([2, 3, 4]))}, "interval"
    if c == 5:
        return {"start_time": h() * dt, "on_for_time": float(rng.choice([0, 2, 3.5])) * dt, "interval": int(rng.choice([1, 2]))}, "start_onfor"
    if c == 6:
        P = float(rng.choice([2, 3, 2.5]))
        x = float(rng.choice([0, 0.5, 1, 2]))
        return {"period": P * dt, "start_after_periods": x, "end_after_periods": x + float(rng.choice([0, 1, 1.5, 3]))}, "periods"
    if c == 7:
        P = float(rng.choice([2, 3]))
        return {"period": P * dt, "end_time": h() * dt, "on_for_periods": float(rng.choice([0.5, 1, 2]))}, "end_onfor_periods"
    if c == 8:
        return {"end_time": h() * dt}, "end_only"
    if c == 9:
        return {"on_for_time": float(rng.choice([0, 1, 4, 6.5])) * dt}, "onfor_only"
    return {"start_time": h() * dt, "interval": int(rng.choice([1, 3]))}, "start_only"


RUN_SHAPE = (7, 6, 8)  # one domain shape for all run scenes: the eager placement programs are compiled once per worker
DET_SHAPES = ((3, 3, 3), (2, 4, 1), (1, 1, 1), (4, 2, 3))


def gen_run_scene(rng, all_off=False):
    from vf import scenes

    shape = list(RUN_SHAPE)
    T = int(rng.integers(7, 14))
    s = scenes.default_scene(shape=shape, steps=T)
    kinds = ["pec", "pmc", "periodic"]
    for a in "xyz":
        k = kinds[int(rng.integers(3))]
        if a == "z" and rng.random() < 0.3:
            k = "pml"
        for side in ("min", "max"):
            s["faces"][f"{side}_{a}"] = {"type": k, "thickness": 2} if k == "pml" else {"type": k}
    lo_i, hi_i = scenes.interior_box(s)
    s["materials"] = [{"lo": [2, 2, 2], "hi": [4, 4, 4], "mat": {"eps": float(rng.uniform(1.5, 4))}}]
    return s, shape, T, lo_i, hi_i


def _cell(rng, lo_i, hi_i):
    # one cell away from the interior faces: PEC/PMC slabs overwrite the field components a dipole injects there
    return [int(rng.integers(lo_i[a] + 1, hi_i[a] - 1)) for a in range(3)]


def _box(rng, lo_i, hi_i, shape):
    sh = DET_SHAPES[int(rng.integers(len(DET_SHAPES)))]
    lo = [int(rng.integers(0, shape[a] - sh[a] + 1)) for a in range(3)]
    return lo, [lo[a] + sh[a] for a in range(3)]


def _run(case, r):
    import jax
    import jax.numpy as jnp
    import numpy as np

    from vf import bootstrap, scenes

    fdtdx = bootstrap.ensure()
    rng = np.random.default_rng(case["scene_seed"])
    all_off = bool(case.get("all_off"))
    s, shape, T, lo_i, hi_i = gen_run_scene(rng, all_off)
    dt = float(scenes.time_step_duration(fdtdx, s))
    meta = {}  # name -> (kind, switch spec, schedule kind)
    nsrc = int(rng.integers(2, 4))
    for i in range(nsrc):
        sw, sk = ({"is_always_off": True}, "always_off") if all_off else gen_switch(rng, T, dt, allow_default=(i != 0))
        name = f"src{i}"
        if i == nsrc - 1 and rng.random() < 0.35:
            ax = 1
            lo = [lo_i[a] for a in range(3)]
            hi = [hi_i[a] for a in range(3)]
            pos = int(rng.integers(lo_i[ax], hi_i[ax]))
            lo[ax], hi[ax] = pos, pos + 1
            e_pol = [0, 0, 0]
            e_pol[(ax + 1) % 3] = 1
            s["sources"].append(
                {"kind": "uniform", "name": name, "lo": lo, "hi": hi, "direction": "+-"[int(rng.integers(2))], "wavelength": 0.6e-6, "e_pol": e_pol, "switch": sw}
            )
            meta[name] = ("plane", sw, sk)
        else:
            st = "electric" if rng.random() < 0.6 else "magnetic"
            s["sources"].append(
                {
                    "kind": "dipole",
                    "name": name,
                    "lo": _cell(rng, lo_i, hi_i),
                    "polarization": int(rng.integers(3)),
                    "source_type": st,
                    "wavelength": 0.8e-6,
                    "profile": {"kind": "signal", "signal": [float(x) for x in rng.uniform(0.5, 1.5, size=T + 3)]},
                    "switch": sw,
                }
            )
            meta[name] = ("dipole_" + st, sw, sk)
    dkinds = ["field_raw", "field_exact", "energy", "poynting", "phasor"]
    ndet = int(rng.integers(3, 5))
    for i in range(ndet):
        dk = dkinds[int(rng.integers(len(dkinds)))] if i else "field_raw"
        # detectors without any active step are driven by the dedicated `zero_active` cases
        for _ in range(50):
            sw, sk = gen_switch(rng, T, dt)
            if any(predict(sw, T, dt)[1]):
                break
        lo, hi = _box(rng, lo_i, hi_i, shape)
        name = f"det{i}"
        d = {"name": name, "lo": lo, "hi": hi, "switch": sw}
        if dk == "field_raw":
            d.update(kind="field", exact=False)
        elif dk == "field_exact":
            d.update(kind="field", exact=True)
        elif dk == "energy":
            d.update(kind="energy")
        elif dk == "poynting":
            d.update(kind="poynting", axis=int(rng.integers(3)), reduce=bool(rng.integers(2)))
        else:
            d.update(kind="phasor", wavelengths=[0.8e-6])
        s["detectors"].append(d)
        meta[name] = (dk, sw, sk)
    built = scenes.build(s)
    objects, arrays0, config = built["objects"], built["arrays"], built["config"]
    Tc = int(config.time_steps_total)
    dtc = float(config.time_step_duration)
    if Tc != T:
        r.inconclusive(f"harness: config.time_steps_total={Tc}, scene asked for {T}")
        return
    sched = {}
    for name, (kind, sw, sk) in meta.items():
        p = predict(sw, T, dtc)
        if p[0] != "ok":
            r.inconclusive(f"harness: generated schedule invalid: {sw}")
            return
        sched[name] = (p[1], p[2])
        r.branch("schedule:" + sk)
        r.branch("object:" + kind)
    where = {"scene_seed": case["scene_seed"], "scene": s, "dt": dtc, "T": T}
    # ---- static: rows allocated == number of active steps ------------------------------------------
    for d in objects.detectors:
        on, tie = sched[d.name]
        kind = meta[d.name][0]
        if any(tie):
            continue
        for k, v in arrays0.detector_states[d.name].items():
            rows = int(v.shape[0])
            want = 1 if kind == "phasor" else sum(on)
            if rows != want:
                r.violate(
                    f"detector {d.name} ({kind}) allocates {rows} rows but its schedule has {sum(on)} active steps",
                    {**where, "detector": d.name, "switch": _jsonable(meta[d.name][1]), "on": on},
                    sig=(kind, meta[d.name][2], "rows"),
                )
            else:
                r.ok((kind, meta[d.name][2], "rows"))
    _twin_and_rows(case, r, fdtdx, built, meta, sched, where, rng)
    if case.get("loop"):
        _loop_hook(case, r, fdtdx, built, meta, sched, where)
    del jnp, jax


def _state_leaves(arr):
    """Comparable field state of an ArrayContainer as a flat dict of numpy arrays."""
    import numpy as np

    out = {"E": np.asarray(arr.fields.E), "H": np.asarray(arr.fields.H)}
    for nm, tup in (arr.fields.psi_E or {}).items():
        for j, a in enumerate(tup):
            out[f"psi_E/{nm}/{j}"] = np.asarray(a)
    for nm, tup in (arr.fields.psi_H or {}).items():
        for j, a in enumerate(tup):
            out[f"psi_H/{nm}/{j}"] = np.asarray(a)
    for dn, st in arr.detector_states.items():
        for k, v in st.items():
            out[f"det/{dn}/{k}"] = np.asarray(v)
    return out


def _identical(a, b):
    import numpy as np

    for k in a:
        if a[k].shape != b[k].shape or not np.array_equal(a[k], b[k], equal_nan=True):
            return False, k
    return True, None


def _twin_and_rows(case, r, fdtdx, built, meta, sched, where, rng):
    import jax
    import jax.numpy as jnp
    import numpy as np

    from fdtdx.fdtd.container import ObjectContainer
    from fdtdx.fdtd.forward import forward

    objects, arrays, config = built["objects"], built["arrays"], built["config"]
    T = where["T"]
    key = jax.random.PRNGKey(0)
    fdtype = arrays.fields.E.dtype
    E0 = rng.normal(size=arrays.fields.E.shape)
    H0 = rng.normal(size=arrays.fields.H.shape)
    arrays = arrays.aset("fields->E", jnp.asarray(E0, dtype=fdtype)).aset("fields->H", jnp.asarray(H0, dtype=fdtype))

    def without(name):
        return ObjectContainer(object_list=[o for o in objects.object_list if o.name != name], volume_idx=objects.volume_idx)

    def stepper(objs):
        def step(t, arr):
            return forward((t, arr), config, objs, key, True, False, True)

        return step

    full_eager = stepper(objects)
    full = jax.jit(full_eager)
    src_names = [o.name for o in objects.sources]
    twins = {n: (jax.jit(stepper(without(n))), stepper(without(n))) for n in src_names}
    on_count = {n: 0 for n in meta}
    for t in range(T):
        tt = jnp.asarray(t, dtype=jnp.int32)
        nxt = full(tt, arrays)
        after = _state_leaves(nxt[1])
        before = _state_leaves(arrays)
        # ---------------- sources: twin run -------------------------------------------------------
        for n in src_names:
            kind, sw, sk = meta[n]
            on, tie = sched[n]
            if tie[t]:
                r.count("tie_steps_skipped")
                continue
            tw = _state_leaves(twins[n][0](tt, arrays)[1])
            same, where_k = _identical(after, tw)
            wit = {**where, "source": n, "source_kind": kind, "switch": _jsonable(sw), "step": t, "predicted_on": on}
            if not on[t]:
                r.count("twin_steps_inactive")
                if not same:
                    # The two jitted programs differ (one lacks the source), so XLA may fuse / contract the shared
                    # arithmetic differently.  Decide on an op-by-op execution of both; mismatches at the 1e-13
                    # level are re-run that way at most 3 times per scene, larger ones always.
                    rel = max(
                        float(np.max(np.abs(after[k] - tw[k]))) / (float(np.max(np.abs(after[k]))) + 1e-300) for k in after if after[k].size
                    )
                    if rel > 1e-12 or r.counters.get("eager_rechecks", 0) < 3:
                        with jax.disable_jit():
                            a2 = _state_leaves(full_eager(tt, arrays)[1])
                            b2 = _state_leaves(twins[n][1](tt, arrays)[1])
                        r.count("eager_rechecks")
                        same, where_k = _identical(a2, b2)
                    else:
                        r.count("inactive_steps_identical_up_to_1e-12_only")
                        same = True
                if same:
                    r.ok((kind, sk, "inactive"))
                else:
                    diff = float(np.max(np.abs(after[where_k] - tw[where_k])))
                    r.violate(
                        f"source {n} ({kind}) changes '{where_k}' at step {t} although its schedule is inactive there (max diff {diff:.3e})",
                        {**wit, "array": where_k, "max_abs_diff": diff},
                        sig=(kind, sk, "inactive"),
                    )
            else:
                must = kind.startswith("dipole") or on_count[n] >= 1
                r.count("twin_steps_active")
                if not same:
                    r.ok((kind, sk, "active"))
                elif must:
                    r.violate(
                        f"source {n} ({kind}) adds nothing at step {t} although its schedule is active there (on-index {on_count[n]})",
                        wit,
                        sig=(kind, sk, "active"),
                    )
                else:
                    r.count("active_steps_with_possibly_zero_amplitude")
                on_count[n] += 1
        # ---------------- detectors: rows ---------------------------------------------------------
        for d in objects.detectors:
            kind, sw, sk = meta[d.name]
            on, tie = sched[d.name]
            if tie[t]:
                r.count("tie_steps_skipped")
                continue
            r.count("detector_steps")
            fields_after = (after["E"], after["H"])
            _judge_rows(r, d, kind, sw, sk, on, t, before, after, fields_after, where, "step-driver")
        arrays = nxt[1]
    if r.sample is None:
        r.sample = {
            "T": T,
            "schedules": {n: ("".join("1" if x else "0" for x in sched[n][0]), meta[n][0], meta[n][2]) for n in meta},
        }


def _judge_rows(r, d, kind, sw, sk, on, t, before, after, fields_after, where, mode):
    """Exactly row idx(t) changes at an active step, nothing at an inactive one."""
    import numpy as np

    idx = sum(1 for x in on[:t] if x)
    for key in [k for k in after if k.startswith(f"det/{d.name}/")]:
        b, a = before[key], after[key]
        wit = {**where, "detector": d.name, "detector_kind": kind, "switch": _jsonable(sw), "step": t, "predicted_on": on, "mode": mode, "state": key}
        if kind == "phasor":
            changed = not np.array_equal(a, b)
            if not on[t] and changed:
                r.violate(f"{mode}: phasor detector {d.name} accumulates at inactive step {t}", wit, sig=(kind, sk, "inactive", mode))
            elif on[t] and not changed and mode == "step-driver" and np.any(fields_after[0][(slice(None),) + tuple(slice(l, h) for (l, h) in d.grid_slice_tuple)] != 0):
                r.violate(f"{mode}: phasor detector {d.name} does not accumulate at active step {t}", wit, sig=(kind, sk, "active", mode))
            else:
                r.ok((kind, sk, "active" if on[t] else "inactive", mode))
            continue
        changed_rows = [i for i in range(a.shape[0]) if not np.array_equal(a[i], b[i], equal_nan=True)]
        if not on[t]:
            if changed_rows:
                r.violate(f"{mode}: detector {d.name} ({kind}) writes rows {changed_rows} at inactive step {t}", {**wit, "changed_rows": changed_rows}, sig=(kind, sk, "inactive", mode))
            else:
                r.ok((kind, sk, "inactive", mode))
            continue
        if idx >= a.shape[0]:
            r.violate(f"{mode}: detector {d.name} ({kind}) has no row {idx} for active step {t}", wit, sig=(kind, sk, "active", mode))
            continue
        others = [i for i in changed_rows if i != idx]
        if others:
            r.violate(
                f"{mode}: detector {d.name} ({kind}) at active step {t} (the {idx}-th active step) writes rows {others} instead of only row {idx}",
                {**wit, "changed_rows": changed_rows, "expected_row": idx},
                sig=(kind, sk, "active", mode),
            )
            continue
        gs = tuple(slice(l, h) for (l, h) in d.grid_slice_tuple)
        region_nonzero = bool(np.any(fields_after[0][(slice(None),) + gs] != 0) or np.any(fields_after[1][(slice(None),) + gs] != 0))
        if kind == "field_raw":
            want = np.concatenate([fields_after[0][(slice(None),) + gs], fields_after[1][(slice(None),) + gs]], axis=0)
            if a[idx].shape == want.shape:
                r.count("comparisons")
                if not np.allclose(a[idx], want, rtol=1e-12, atol=0):
                    r.violate(f"{mode}: row {idx} of raw field detector {d.name} is not the field of step {t}", wit, sig=(kind, sk, "content", mode))
                    continue
                r.ok((kind, sk, "content", mode) if region_nonzero else None)
        # a record may legitimately be zero; "must change" is only demanded where the record is known to be non-zero:
        # raw field rows (content checked above) and energy rows under the dense random fields of the step driver
        if idx not in changed_rows and region_nonzero and (kind == "field_raw" or (kind == "energy" and mode == "step-driver")):
            r.violate(f"{mode}: detector {d.name} ({kind}) records nothing at active step {t} (row {idx} unchanged, fields non-zero)", wit, sig=(kind, sk, "active", mode))
            continue
        r.ok((kind, sk, "active", mode) if region_nonzero else None)


def _loop_hook(case, r, fdtdx, built, meta, sched, where):
    """Same row monitor on `update_detector_states` inside the real jitted run_fdtd loop + zero-field-before-first-source."""
    import jax
    import numpy as np

    import fdtdx.fdtd.forward as fwmod
    from vf import hooks, scenes

    objects = built["objects"]
    T = where["T"]
    log = hooks.EventLog()

    def factory(orig):
        def wrapped(time_step, arrays, objects, config, H_prev, inverse):
            # update_detector_states replaces entries of the caller's dict in place: snapshot the mapping first
            before = {dn: dict(stt) for dn, stt in arrays.detector_states.items()}
            out = orig(time_step=time_step, arrays=arrays, objects=objects, config=config, H_prev=H_prev, inverse=inverse)
            jax.debug.callback(
                lambda t, b, a, E, H: log.add("det", int(t), jax.tree.map(np.asarray, b), jax.tree.map(np.asarray, a), np.asarray(E), np.asarray(H)),
                time_step,
                before,
                out.detector_states,
                out.fields.E,
                out.fields.H,
            )
            return out

        return wrapped

    with hooks.patched(fwmod, "update_detector_states", factory):
        st = scenes.run(built, jit=True)
        jax.block_until_ready(st)
        jax.effects_barrier()
    evs = sorted(log.of("det"), key=lambda e: e[1])
    r.count("loop_hook_events", len(evs))
    steps = [e[1] for e in evs]
    if steps != list(range(T)):
        r.violate("run_fdtd: update_detector_states was not called exactly once per step 0..T-1", {**where, "steps": steps}, sig=("loop", "steps"))
        return
    src_on = [sched[o.name][0] for o in objects.sources]
    src_tie = [sched[o.name][1] for o in objects.sources]
    first_active = min([t for on in src_on for t in range(T) if on[t]] + [T])
    first_tie = min([t for tie in src_tie for t in range(T) if tie[t]] + [T])
    for _, t, b, a, E, H in evs:
        if t < min(first_active, first_tie):
            r.count("zero_field_steps")
            if np.any(E != 0) or np.any(H != 0):
                r.violate(
                    f"run_fdtd: fields are non-zero after step {t} although no source has been active yet (first active step {first_active})",
                    {**where, "step": t, "max_abs_E": float(np.max(np.abs(E))), "schedules": {o.name: sched[o.name][0] for o in objects.sources}},
                    sig=("loop", "zero_before_first_source"),
                )
            else:
                r.ok(("loop", "zero_before_first_source"))
        before = {f"det/{dn}/{k}": v for dn, stt in b.items() for k, v in stt.items()}
        after = {f"det/{dn}/{k}": v for dn, stt in a.items() for k, v in stt.items()}
        for d in objects.detectors:
            kind, sw, sk = meta[d.name]
            on, tie = sched[d.name]
            if tie[t]:
                continue
            r.count("detector_steps")
            _judge_rows(r, d, kind, sw, sk, on, t, before, after, (E, H), where, "run_fdtd")
    if case.get("all_off"):
        E, H = np.asarray(st[1].fields.E), np.asarray(st[1].fields.H)
        if np.any(E != 0) or np.any(H != 0):
            r.violate("always-off sources left non-zero fields", where, sig=("loop", "all_off"))
        else:
            r.ok(("loop", "all_off"))


MECH_ZERO = "C14-detector-without-active-step-breaks-run"


def _zero_active(case, r):
    """A detector whose schedule has no active step inside the run records nothing — and the run must still work."""
    import jax
    import numpy as np

    from vf import bootstrap, scenes

    fdtdx = bootstrap.ensure()
    T = 6
    base = scenes.default_scene(shape=(6, 6, 6), steps=T)
    for f in scenes.FACES:
        base["faces"][f] = {"type": "pec"}
    base["sources"] = [
        {"kind": "dipole", "lo": [3, 2, 3], "polarization": 0, "wavelength": 1e-6, "profile": {"kind": "signal", "signal": [1.0] * (T + 3)}}
    ]
    dt = float(scenes.time_step_duration(fdtdx, base))
    ref = scenes.run(scenes.build(base), jit=True)
    Eref, Href = np.asarray(ref[1].fields.E), np.asarray(ref[1].fields.H)
    schedules = [
        ("always_off", {"is_always_off": True}),
        ("fixed_empty", {"fixed_on_time_steps": []}),
        ("start_beyond_end", {"start_time": (T + 5) * dt}),
        ("end_before_start", {"end_time": -1.0 * dt}),
        ("interval_and_window_miss", {"start_time": 1 * dt, "end_time": 2.5 * dt, "interval": 4}),
    ]
    dk = case["detector"]
    for sname, sw in schedules:
        pred = predict(sw, T, dt)
        assert pred[0] == "ok" and not any(pred[1])
        d = {"kind": dk, "name": "det0", "lo": [2, 1, 1], "hi": [4, 4, 4], "switch": sw}
        if dk == "poynting":
            d["axis"] = 0
        if dk == "phasor":
            d["wavelengths"] = [1e-6]
        s = dict(base, detectors=[d])
        wit = {"scene": s, "detector_kind": dk, "switch": _jsonable(sw), "T": T, "dt": dt}
        sig = ("zero_active", dk, sname)
        r.count("zero_active_scenes")
        try:
            built = scenes.build(s)
            st = scenes.run(built, jit=True)
            jax.block_until_ready(st)
        except Exception as e:  # noqa: BLE001
            msg = f"{type(e).__name__}: {e}"
            if dk == "phasor" and "window sums to 0" in msg:
                r.ok(sig)  # documented rejection of a phasor detector that never samples
                r.branch("phasor_zero_window_rejected")
                continue
            cause = e.__cause__
            r.violate(
                f"a {dk} detector whose schedule ({sname}) has no active step makes the simulation fail: {msg[:160]}"
                + (f" (cause: {type(cause).__name__}: {cause})" if cause is not None else ""),
                wit,
                mechanism=MECH_ZERO,
                sig=sig,
            )
            continue
        rows = {k: int(v.shape[0]) for k, v in st[1].detector_states["det0"].items()}
        if dk != "phasor" and any(v != 0 for v in rows.values()):
            r.violate(f"{dk} detector without active steps has rows {rows}", wit, sig=sig)
            continue
        if not (np.array_equal(np.asarray(st[1].fields.E), Eref) and np.array_equal(np.asarray(st[1].fields.H), Href)):
            r.violate(f"an inactive {dk} detector changes the simulated fields", wit, sig=sig)
            continue
        r.ok(sig)


def run_case(case):
    from vf.result import Res

    r = Res()
    if case["kind"] == "model":
        _model(case, r)
    elif case["kind"] == "zero_active":
        _zero_active(case, r)
    else:
        _run(case, r)
    return r.to_dict()


def coverage_extra(tier, cases_, results):
    return {"model_Tmax": _tmax(tier), "schedule_grid_size": len(schedule_grid())}

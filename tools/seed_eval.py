#!/venv/bin/python
"""Evaluate a seeded change under /verif/seeded/<name>/ against the checks, without touching /repo.

usage: tools/seed_eval.py <seeded dir name> [check ids ...] [--tier quick|thorough] [--no-demo]
* copies /repo/src to a temp dir, applies seeded/<name>/patch.diff there (patch -p1),
* runs the demonstration on the original tree (must pass) and on the patched copy (must fail),
* runs the named checks (default: the property in meta.json) with VERIF_REPO pointing at the patched copy,
* prints one line per step and stores the outcome in seeded/<name>/evaluation.json.  The temp copy is removed.
"""
import json
import os
import shutil
import subprocess
import sys
import tempfile
import time

root = os.path.dirname(os.path.dirname(os.path.abspath(__file__)))
args = [a for a in sys.argv[1:] if not a.startswith("--")]
tier = "quick"
if "--tier" in sys.argv:
    tier = sys.argv[sys.argv.index("--tier") + 1]
    args.remove(tier)
name, ids = args[0], args[1:]
sdir = os.path.join(root, "seeded", name)
meta = json.load(open(os.path.join(sdir, "meta.json")))
if not ids:
    ids = [meta["property"]]
tmp = tempfile.mkdtemp(prefix="vf_seed_")
res = {"seed": name, "tier": tier, "when": time.strftime("%Y-%m-%d %H:%M:%S"), "checks": {}}
try:
    shutil.copytree("/repo/src", os.path.join(tmp, "src"))
    p = subprocess.run(["patch", "-p1", "-s", "-i", os.path.join(sdir, "patch.diff")], cwd=tmp, capture_output=True, text=True)
    res["patch_applies"] = p.returncode == 0
    print(f"SEED {name}: patch applies to current /repo/src: {p.returncode == 0} {p.stdout[-200:]}{p.stderr[-200:]}")
    if p.returncode != 0:
        sys.exit(3)
    demo = next((f for f in ("demo.py", "test_demo.py") if os.path.exists(os.path.join(sdir, f))), None)
    if demo and "--no-demo" not in sys.argv:
        for label, src in (("original", "/repo/src"), ("patched", os.path.join(tmp, "src"))):
            env = dict(os.environ, FDTDX_SRC=src, PYTHONPATH=src, JAX_PLATFORMS="cpu")
            cmd = ["/venv/bin/python", "-m", "pytest", "-q", "-p", "no:cacheprovider", "-x", demo] if demo.startswith("test_") else ["/venv/bin/python", demo]
            try:
                d = subprocess.run(cmd, cwd=sdir, env=env, capture_output=True, text=True, timeout=1800)
                rc = d.returncode
            except subprocess.TimeoutExpired:
                rc = "timeout"
            res[f"demo_{label}_rc"] = rc
            print(f"SEED {name}: demo on {label} tree rc={rc}")
    for cid in ids:
        env = dict(os.environ, VERIF_REPO=tmp)
        t0 = time.time()
        out = subprocess.run([os.path.join(root, "check"), cid, "--tier", tier], capture_output=True, text=True, env=env, cwd=root)
        whats = [l.strip()[6:200] for l in out.stdout.splitlines() if l.strip().startswith("what:")]
        res["checks"][cid] = {"rc": out.returncode, "wall_s": round(time.time() - t0, 1), "first_violations": whats[:3]}
        print(f"SEED {name}: check {cid} ({tier}) rc={out.returncode} {'CAUGHT' if out.returncode == 1 else 'MISSED' if out.returncode == 0 else 'INCONCLUSIVE'} | {(whats or [''])[0][:150]}")
finally:
    shutil.rmtree(tmp, ignore_errors=True)
    with open(os.path.join(sdir, "evaluation.json"), "w") as f:
        json.dump(res, f, indent=1)

"""C25 — brush-constrained designs are unions of brush placements.

For every call of the real `BrushConstraint2D` (circular brushes from `fdtdx.circular_brush`):
  * the while loop terminates: the loop is observed through a delegating shim around the `eqxi` name that the
    module resolves at call time; the shim carries an iteration counter and a "state did not change" flag next to
    the real loop state.  cond still true while the state is a fixed point of the body == proven non-termination
    (reported as a violation instead of hanging); the hard cap 4*pixels+8 without such a proof is inconclusive;
  * the output is binary (material indices 0/1) and has the input shape;
  * solid set S (output == non-background index) equals its morphological opening by the brush where pixels
    outside the design domain count as belonging to the set (so a footprint may stick out of the domain), and the
    same for the void set.  Acceptance uses the most permissive reading of the statement (brush centres may lie
    outside the domain as long as the footprint meets the domain); the stricter reading (centres inside the
    domain) is only counted.
The opening oracle is plain numpy (shift-and-AND erosion, shift-and-OR dilation over the brush offsets).
"""

from __future__ import annotations

PROPERTY = "C25"
RULE = (
    "seeded (2-D shape 5..24 per side with the singleton axis in position 0/1/2, circular brush diameter in "
    "{1,2,2.5,3,4,4.2,5,6.5,7,9} (optionally embedded in a larger odd array), background = lowest or highest "
    "permittivity, float32/float64) x latent designs (smoothed noise, iid noise, all positive, all negative, all "
    "zero = total tie, checkerboard, thin lines, half plane, huge magnitudes, single hot pixel); one evaluation = "
    "one transform call judged for termination + binary + opening(solid) + opening(void); non-trivial = output "
    "has both phases and differs from the sign pattern of the input; sig = (brush diameter, side class, axis, "
    "background, design class)"
)
REQUIRED_COUNTERS = ["calls_judged", "loop_iterations", "outputs_with_both_phases"]
ASSUMPTIONS = [
    "footprint of a placement at pixel c = {c + (i-h, j-h) : brush[i,j]} (brush arrays are point symmetric)",
    "pixels outside the design domain never violate a placement (in-domain part only)",
    "domains smaller than the brush array in exactly one direction make jax convolve2d raise; recorded, not judged",
]
CASE_TIMEOUT = {"quick": 600, "thorough": 1800}

DIAMETERS = [1, 2, 2.5, 3, 4, 4.2, 5, 6.5, 7, 9]
DESIGNS = ["smooth", "iid", "smooth", "positive", "negative", "zero", "checker", "lines", "half", "huge", "hot", "smooth_fine"]


def EXHAUSTIVE(tier):
    return False


def cases(tier, rng):
    quick = tier == "quick"
    out = []
    n = 12 if quick else 100
    for i in range(n):
        cfgs = []
        for j in range(2 if quick else 3):
            d = DIAMETERS[(2 * i + j + (i // 5)) % len(DIAMETERS)]
            hi = 17 if quick else 25
            a, b = int(rng.integers(5, hi)), int(rng.integers(5, hi))
            if j == 0 and i % 4 == 0:
                a = b = int(rng.integers(18, 25))
            if i % 6 == 5 and j == 1:
                a, b = int(rng.integers(2, 5)), int(rng.integers(2, 5))  # domain smaller than most brushes
            axis = int(rng.integers(3))
            cfgs.append(
                {
                    "d": d,
                    "side": [a, b],
                    "axis": axis,
                    "bg_high": bool((i + j) % 3 == 0),
                    "dtype": "float64" if (i + j) % 2 == 0 else "float32",
                    "brush_size": (None if rng.random() < 0.8 else int(2 * (int(d) // 2) + 3)),
                }
            )
        out.append({"cfgs": cfgs, "n_designs": 6 if quick else 12, "offset": int(i)})
    return out


# ------------------------------------------------------------------------------------------------
# oracle
# ------------------------------------------------------------------------------------------------
def opening(S, K, centres_inside_only):
    """Union of all brush placements whose in-domain part lies inside S (numpy, definitional)."""
    import numpy as np

    S = np.asarray(S, bool)
    K = np.asarray(K, bool)
    h0, h1 = K.shape[0] // 2, K.shape[1] // 2
    n0, n1 = S.shape
    # centres range over the domain enlarged by the brush half-size; everything outside the domain is "in the set"
    P = np.ones((n0 + 4 * h0, n1 + 4 * h1), bool)
    P[2 * h0 : 2 * h0 + n0, 2 * h1 : 2 * h1 + n1] = S
    c0, c1 = n0 + 2 * h0, n1 + 2 * h1  # centre grid: offset h0,h1 inside P
    offs = [(i - h0, j - h1) for i in range(K.shape[0]) for j in range(K.shape[1]) if K[i, j]]
    E = np.ones((c0, c1), bool)
    for di, dj in offs:
        E &= P[h0 + di : h0 + di + c0, h1 + dj : h1 + dj + c1]
    if centres_inside_only:
        M = np.zeros_like(E)
        M[h0 : h0 + n0, h1 : h1 + n1] = True
        E &= M
    D = np.zeros((c0 + 2 * h0, c1 + 2 * h1), bool)  # same frame as P
    for di, dj in offs:
        D[h0 + di : h0 + di + c0, h1 + dj : h1 + dj + c1] |= E
    return D[2 * h0 : 2 * h0 + n0, 2 * h1 : 2 * h1 + n1]


def make_design(kind, side, rng):
    import numpy as np

    a, b = side
    if kind in ("smooth", "smooth_fine"):
        x = rng.normal(size=(a, b))
        for _ in range(3 if kind == "smooth" else 1):
            p = np.pad(x, 1, mode="edge")
            x = (p[:-2, 1:-1] + p[2:, 1:-1] + p[1:-1, :-2] + p[1:-1, 2:] + p[1:-1, 1:-1]) / 5.0
        return x - np.median(x)
    if kind == "iid":
        return rng.normal(size=(a, b))
    if kind == "positive":
        return rng.uniform(0.1, 1.0, size=(a, b))
    if kind == "negative":
        return -rng.uniform(0.1, 1.0, size=(a, b))
    if kind == "zero":
        return np.zeros((a, b))
    if kind == "checker":
        return np.where(np.indices((a, b)).sum(axis=0) % 2 == 0, 1.0, -1.0) * rng.uniform(0.5, 1.5)
    if kind == "lines":
        x = -np.ones((a, b))
        x[:: int(rng.integers(2, 5)), :] = 1.0
        if rng.random() < 0.5:
            x = x.T.copy() if a == b else -x
        return x
    if kind == "half":
        x = np.ones((a, b))
        x[: int(rng.integers(0, a + 1)), :] = -1.0
        return x * rng.uniform(0.2, 2.0, size=(a, b))
    if kind == "huge":
        return rng.normal(size=(a, b)) * 10.0 ** rng.integers(-30, 30, size=(a, b))
    if kind == "hot":
        x = -np.full((a, b), 1e-3)
        x[int(rng.integers(a)), int(rng.integers(b))] = 1e3
        return x
    raise ValueError(kind)


# ------------------------------------------------------------------------------------------------
# loop monitor
# ------------------------------------------------------------------------------------------------
class _EqxiShim:
    """Stands in for the `eqxi` module object inside fdtdx...discretization; delegates everything, and runs
    `while_loop` with an iteration counter + fixed-point detector carried next to the real state."""

    def __init__(self, real, log, cap):
        self._real = real
        self._log = log
        self._cap = cap

    def __getattr__(self, name):
        return getattr(self._real, name)

    def while_loop(self, cond_fun, body_fun, init_val, **kw):
        import jax
        import jax.numpy as jnp

        cap = self._cap
        log = self._log

        def c2(s):
            state, n, stuck = s
            return cond_fun(state) & ~stuck & (n < cap)

        def b2(s):
            state, n, stuck = s
            new = body_fun(state)
            same = jnp.asarray(True)
            for u, v in zip(jax.tree_util.tree_leaves(new), jax.tree_util.tree_leaves(state)):
                same = same & jnp.all(u == v)
            return new, n + 1, same

        out, n, stuck = self._real.while_loop(
            cond_fun=c2, body_fun=b2, init_val=(init_val, jnp.asarray(0), jnp.asarray(False)), **kw
        )
        still = cond_fun(out)
        jax.debug.callback(lambda k, st, c: log.append((int(k), bool(st), bool(c))), n, stuck, still)
        return out


# ------------------------------------------------------------------------------------------------
def run_case(case):
    import numpy as np

    from vf import bootstrap, hooks
    from vf.result import Res

    fdtdx = bootstrap.ensure()
    import jax
    import jax.numpy as jnp

    import fdtdx.objects.device.parameters.discretization as dz
    from fdtdx.typing import ParameterType

    r = Res()
    rng = np.random.default_rng(case["seed"])
    cfg0 = fdtdx.SimulationConfig(time=100e-15, grid=fdtdx.UniformGrid(spacing=100e-9), backend="cpu")
    mats = {"lo": fdtdx.Material(permittivity=1.0), "hi": fdtdx.Material(permittivity=12.0)}
    for ci, cfg in enumerate(case["cfgs"]):
        a, b = cfg["side"]
        shape = [a, b]
        shape.insert(cfg["axis"], 1)
        shape = tuple(shape)
        brush = fdtdx.circular_brush(cfg["d"], cfg["brush_size"]) if cfg["brush_size"] else fdtdx.circular_brush(cfg["d"])
        K = np.asarray(brush, bool)
        if K.shape[0] % 2 != 1 or K.shape[1] % 2 != 1 or not K.any():
            r.inconclusive(f"unexpected brush array for diameter {cfg['d']}: shape {K.shape}")
            continue
        if not np.array_equal(K, K[::-1, ::-1]):
            # the footprint is whatever array the library built; the definitional opening below does not need symmetry
            r.branch("brush_not_point_symmetric")
        bg_idx = 1 if cfg["bg_high"] else 0
        t = fdtdx.BrushConstraint2D(brush=brush, axis=cfg["axis"], background_material="hi" if cfg["bg_high"] else None)
        t = t.init_module(
            config=cfg0,
            materials=mats,
            matrix_voxel_grid_shape=shape,
            single_voxel_size=(1e-7, 1e-7, 1e-7),
            output_shape={"p": shape},
        ).init_type({"p": ParameterType.CONTINUOUS})
        npix = a * b
        cap = 4 * npix + 8
        log = []
        shim = _EqxiShim(dz.eqxi, log, cap)
        side_cls = "tiny" if min(a, b) < K.shape[0] else "s" if max(a, b) <= 10 else "m" if max(a, b) <= 17 else "l"
        r.branch(f"brush:d={cfg['d']}(array {K.shape[0]}, {int(K.sum())} px)")
        r.branch(f"axis{cfg['axis']}")
        r.branch(f"side:{side_cls}")
        r.branch("bg:high" if cfg["bg_high"] else "bg:low")
        with hooks.patched(dz, "eqxi", lambda real: shim):
            jitted = jax.jit(lambda arr, t=t: t({"p": arr})["p"])
            eager = lambda arr, t=t: t({"p": arr})["p"]  # noqa: E731
            for k in range(case["n_designs"]):
                kind = DESIGNS[(k + case["offset"] + 5 * ci) % len(DESIGNS)]
                sub = int(rng.integers(1 << 31))
                x2 = make_design(kind, (a, b), np.random.default_rng(sub))
                x = np.expand_dims(x2, cfg["axis"]).astype(cfg["dtype"])
                witness = {"config": cfg, "design": kind, "design_seed": sub, "input_2d": x2.tolist() if x2.size <= 150 else None}
                del log[:]
                use_jit = not (k == 0 and npix <= 150)
                try:
                    out = np.asarray((jitted if use_jit else eager)(jnp.asarray(x)))
                    jax.effects_barrier()
                except ValueError as e:
                    if min(a, b) < K.shape[0] and "smaller than the other in every dimension" in str(e):
                        r.branch("rejected:domain narrower than brush array")
                        continue
                    raise
                r.branch(f"design:{kind}")
                r.branch("jit" if use_jit else "eager")
                r.count("calls_judged")
                sig_base = (cfg["d"], side_cls, cfg["axis"], cfg["bg_high"], kind)
                # ---- termination
                if len(log) != 1:
                    r.inconclusive(f"loop monitor saw {len(log)} while loops in one call (expected 1)")
                    continue
                iters, stuck, still = log[0]
                r.count("loop_iterations", iters)
                r.worst("iterations_per_pixel", iters / npix)
                if stuck and still:
                    r.violate(
                        "BrushConstraint2D loop does not terminate: the loop state is a fixed point of the body while the "
                        "loop condition is still true",
                        dict(witness, iterations=iters),
                        sig=sig_base,
                    )
                    continue
                if still:
                    r.inconclusive(f"loop monitor cap {cap} reached without a fixed point ({witness['config']}, {kind})")
                    continue
                # ---- binary output of the right shape
                if out.shape != shape:
                    r.violate("BrushConstraint2D changed the array shape", dict(witness, got_shape=list(out.shape)), sig=sig_base)
                    continue
                if not np.isin(out, [0, 1]).all():
                    r.violate("BrushConstraint2D output is not binary", dict(witness, values=np.unique(out).tolist()[:8]), sig=sig_base)
                    continue
                o2 = np.take(out, 0, axis=cfg["axis"])
                S = o2 != bg_idx
                V = ~S
                both = bool(S.any() and V.any())
                if both:
                    r.count("outputs_with_both_phases")
                want_sign = (x2 > 0) != bool(bg_idx)  # solid = non-background index; index 1 is preferred where x > 0
                nontrivial = both and not np.array_equal(S, want_sign)
                sig = sig_base if nontrivial else None
                okS = np.array_equal(opening(S, K, False), S)
                okV = np.array_equal(opening(V, K, False), V)
                if okS and okV:
                    r.ok(sig)
                    if np.array_equal(opening(S, K, True), S) and np.array_equal(opening(V, K, True), V):
                        r.count("strict_reading_also_holds")
                    agree = float((S == want_sign).mean())
                    r.worst("min_agreement_with_input_sign(neg)", -agree)
                    if r.sample is None and nontrivial:
                        r.sample = {
                            "config": cfg,
                            "design": kind,
                            "iterations": iters,
                            "solid_pixels": int(S.sum()),
                            "pixels": npix,
                            "agreement_with_sign_of_input": agree,
                        }
                    continue
                which = "solid" if not okS else "void"
                R = S if not okS else V
                miss = R & ~opening(R, K, False)
                r.violate(
                    f"{which} region is not a union of in-domain-clipped brush footprints: {int(miss.sum())} pixels of it are "
                    "covered by no admissible placement",
                    dict(
                        witness,
                        region=which,
                        uncovered_pixels=int(miss.sum()),
                        first_uncovered=[int(v) for v in np.argwhere(miss)[0]],
                        output_solid_2d=S.astype(int).tolist() if S.size <= 400 else None,
                        iterations=iters,
                    ),
                    sig=sig_base,
                )
    return r.to_dict()

"""C09 — periodic and Bloch domains match their supercells.

Metamorphic monitor: forward() on an N-cell periodic/Bloch domain and on the m*N-cell domain whose materials
and initial fields are the tiled ones (Bloch phase exp(i k L) per copy) must agree cell for cell at every step.
"""

from __future__ import annotations

PROPERTY = "C09"
RULE = (
    "seeded: shape 1..6 per axis, each axis periodic / bloch(random k incl. 0 and |kL|>pi) / wall(pec,pmc,none); "
    "tiling 2-3 along each periodic axis; random per-cell eps (iso or diag), optional mu array, optional sigma_E; "
    "random complex/real initial fields; 6-20 steps compared at every step. distinct = (axis kinds, tiling, "
    "material tier (iso / diag / full symmetric tensor per cell), complex); non-trivial iff fields non-zero"
)
REQUIRED_COUNTERS = ["steps_compared"]
ASSUMPTIONS = ["uniform grids (the statement's 'N cells')", "float64/complex128, rtol 1e-9 relative to the field maximum"]
CASE_TIMEOUT = {"quick": 900, "thorough": 2400}


def cases(tier, rng):
    n = 14 if tier == "quick" else 56
    per = 2 if tier == "quick" else 10
    out = []
    for i in range(n):
        sc = []
        for j in range(per):
            axes = []
            for a in range(3):
                u = rng.random()
                if u < 0.4:
                    axes.append({"k": "periodic", "m": int(rng.integers(2, 4))})
                elif u < 0.75:
                    axes.append({"k": "bloch", "m": int(rng.integers(2, 4)), "phase": float(rng.choice([0.0, 0.7, -2.0, 3.9, 5.5, rng.uniform(-7, 7)]))})
                else:
                    axes.append({"k": "wall", "lo": ["pec", "pmc", "none"][int(rng.integers(3))], "hi": ["pec", "pmc", "none"][int(rng.integers(3))]})
            if all(a["k"] == "wall" for a in axes):
                axes[int(rng.integers(3))] = {"k": "periodic", "m": 2}
            sc.append(
                {
                    "shape": [int(rng.integers(1, 6)) for _ in range(3)],
                    "axes": axes,
                    "eps_tier": ["iso", "diag", "full"][int(rng.integers(3))],
                    "mu": bool(rng.integers(2)),
                    "lossy": bool(rng.random() < 0.25),
                    "steps": int(rng.integers(6, 20)),
                    "seed": int(rng.integers(1 << 30)),
                    # every other scene builds its boundaries through BoundaryConfig / boundary_objects_from_config
                    # and hands the config a wave vector with (documented to be unused) non-zero components on the
                    # axes that are NOT typed "bloch"
                    "via_config": bool((i + j) % 2),
                    "stray_k": [float(x) for x in rng.uniform(-4.0, 4.0, size=3)],
                }
            )
        out.append({"scenes": sc})
    return out


def run_case(case):
    from vf import bootstrap
    from vf.result import Res

    bootstrap.ensure()
    r = Res()
    for sc in case["scenes"]:
        _one(sc, r)
    return r.to_dict()


def _scene(sc, tiled):
    from vf import scenes

    spacing = 50e-9
    shape = [n * (ak["m"] if tiled and ak["k"] != "wall" else 1) for n, ak in zip(sc["shape"], sc["axes"])]
    s = scenes.default_scene(shape=shape, steps=sc["steps"], spacing=spacing)
    bloch = [0.0, 0.0, 0.0]
    cplx = False
    for a, ak in enumerate(sc["axes"]):
        lo, hi = f"min_{'xyz'[a]}", f"max_{'xyz'[a]}"
        if ak["k"] == "wall":
            s["faces"][lo] = {"type": ak["lo"]}
            s["faces"][hi] = {"type": ak["hi"]}
            if sc.get("via_config"):
                # BoundaryConfig has no "no boundary object" face type
                for f_ in (lo, hi):
                    if s["faces"][f_]["type"] == "none":
                        s["faces"][f_] = {"type": "pec"}
        elif ak["k"] == "periodic":
            s["faces"][lo] = {"type": "periodic"}
            s["faces"][hi] = {"type": "periodic"}
        else:
            s["faces"][lo] = {"type": "bloch"}
            s["faces"][hi] = {"type": "bloch"}
            bloch[a] = ak["phase"] / (sc["shape"][a] * spacing)
            cplx = cplx or ak["phase"] != 0.0
    if sc.get("via_config"):
        s["boundary_api"] = "config"
        for a, ak in enumerate(sc["axes"]):
            if ak["k"] != "bloch":
                bloch[a] = sc["stray_k"][a] / (sc["shape"][a] * spacing)
    s["bloch"] = bloch
    s["complex"] = True if cplx else None
    vol = {"eps": 2.0 if sc["eps_tier"] == "iso" else ([2.0, 3.0, 4.0] if sc["eps_tier"] == "diag" else [2.0, 0.2, 0.1, 0.2, 3.0, 0.3, 0.1, 0.3, 4.0])}
    if sc["mu"]:
        vol["mu"] = 1.5 if sc["eps_tier"] == "iso" else [1.5, 2.0, 2.5]
    if sc["lossy"] and sc["eps_tier"] != "full":
        vol["sig_e"] = 1.0
    s["volume"] = vol
    return s, cplx


def _one(sc, r):
    import jax
    import jax.numpy as jnp
    import numpy as np

    from fdtdx.constants import eta0
    from vf import scenes, sim

    rng = np.random.default_rng(sc["seed"])
    sb, cplx = _scene(sc, False)
    st_, _ = _scene(sc, True)
    bb = scenes.build(sb)
    bt = scenes.build(st_)
    reps = [ak["m"] if ak["k"] != "wall" else 1 for ak in sc["axes"]]
    phases = [ak.get("phase", 0.0) if ak["k"] == "bloch" else 0.0 for ak in sc["axes"]]

    def tile(a, with_phase):
        a = np.asarray(a)
        out = np.tile(a, (1, *reps))
        if with_phase:
            n = sc["shape"]
            ph = np.ones(out.shape[1:], dtype=complex)
            for ax in range(3):
                j = np.arange(out.shape[ax + 1]) // n[ax]
                shp = [1, 1, 1]
                shp[ax] = -1
                ph = ph * np.exp(1j * phases[ax] * j).reshape(shp)
            out = out * ph[None]
        return out

    ab, at = bb["arrays"], bt["arrays"]
    if ab.inv_permittivities.shape[0] == 9:
        # random symmetric positive definite tensor per cell (diagonally dominant), stored as its inverse
        shp = ab.inv_permittivities.shape[1:]
        d = rng.uniform(2.0, 4.0, size=(*shp, 3))
        o = rng.uniform(-0.4, 0.4, size=(*shp, 3))
        eps = np.zeros((*shp, 3, 3))
        for i in range(3):
            eps[..., i, i] = d[..., i]
        for n_, (i, j) in enumerate(((0, 1), (0, 2), (1, 2))):
            eps[..., i, j] = eps[..., j, i] = o[..., n_]
        ie = np.moveaxis(np.linalg.inv(eps).reshape(*shp, 9), -1, 0)
    else:
        ie = 1.0 / rng.uniform(1.0, 4.0, size=ab.inv_permittivities.shape)
    ab = ab.aset("inv_permittivities", jnp.asarray(ie))
    at = at.aset("inv_permittivities", jnp.asarray(tile(ie, False)))
    if isinstance(ab.inv_permeabilities, jax.Array) and ab.inv_permeabilities.ndim > 0:
        im = 1.0 / rng.uniform(1.0, 3.0, size=ab.inv_permeabilities.shape)
        ab = ab.aset("inv_permeabilities", jnp.asarray(im))
        at = at.aset("inv_permeabilities", jnp.asarray(tile(im, False)))
    if ab.electric_conductivity is not None:
        c = bb["config"].courant_number
        a_num = rng.uniform(0, 0.4, size=ab.electric_conductivity.shape)
        sig = a_num * 2.0 / (c * eta0 * np.broadcast_to(ie, np.broadcast_shapes(ie.shape, a_num.shape))[: a_num.shape[0]])
        ab = ab.aset("electric_conductivity", jnp.asarray(sig))
        at = at.aset("electric_conductivity", jnp.asarray(tile(sig, False)))
    E0, H0 = sim.random_fields(rng, ab, bb["objects"])
    ab = sim.set_fields(ab, E0, H0)
    dt = at.fields.E.dtype
    at = sim.set_fields(at, jnp.asarray(tile(E0, True), dtype=dt), jnp.asarray(tile(H0, True), dtype=dt))
    K = sc["steps"]
    key = jax.random.PRNGKey(0)

    def run(built, arr):
        def body(state, _):
            new = sim.forward_step(state, built, key=key)
            return new, (new[1].fields.E, new[1].fields.H)

        return jax.jit(lambda a: jax.lax.scan(body, (jnp.asarray(0, dtype=jnp.int32), a), None, length=K))(arr)[1]

    Eb, Hb = run(bb, ab)
    Et, Ht = run(bt, at)
    Eb, Hb, Et, Ht = (np.asarray(x) for x in (Eb, Hb, Et, Ht))
    kinds = tuple((ak["k"], ak.get("m"), ak.get("lo"), ak.get("hi"), ak.get("phase", 0) != 0) for ak in sc["axes"])
    sig = (kinds, sc["eps_tier"], sc["mu"], sc["lossy"], bool(cplx))
    for ak in sc["axes"]:
        r.branch("axis:" + ak["k"])
    if 1 in sc["shape"]:
        r.branch("size1_axis")
    r.branch("boundary_api:" + ("config+stray_wave_vector_components" if sc.get("via_config") else "objects"))
    scaleE, scaleH = float(np.abs(Eb).max()), float(np.abs(Hb).max())
    worst = 0.0
    bad = None
    for k in range(K):
        for name, base, tl, scl in (("E", Eb[k], Et[k], scaleE), ("H", Hb[k], Ht[k], scaleH)):
            want = tile(base, True)
            err = float(np.abs(tl - want).max()) / scl if scl > 0 else 0.0
            if not np.isfinite(err):
                err = float("inf")
            worst = max(worst, err)
            if err > 1e-9 and bad is None:
                idx = np.unravel_index(int(np.argmax(np.abs(tl - want))), tl.shape)
                bad = {"field": name, "step": k + 1, "rel_err": err, "index": [int(i) for i in idx]}
    r.count("steps_compared", K)
    r.worst("worst_rel_err", worst)
    if bad:
        r.violate(f"supercell differs from tiled cell in {bad['field']} at step {bad['step']}: {bad['rel_err']:.3e}", {"scene": sc, **bad}, sig=sig)
    else:
        r.ok(sig if scaleE > 0 else None, n=K)
    r.sample = {"scene": sc, "worst": worst}

"""Scene DSL -> fdtdx objects through the public constructors, `place_objects` and `apply_params`.

A *scene* is a JSON-able dict (see `build`).  Everything positional is given in grid indices; the
builder converts to `GridCoordinateConstraint`s so that placement is exact on any grid kind.  Scene
transformations (cyclic axis relabelling, tiling) operate on the description only.

scene keys
  shape:    [nx, ny, nz]                total cells (PML slabs included)
  grid:     {"kind": "uniform", "spacing": s}
            {"kind": "rect_uniform", "spacing": s}        RectilinearGrid.uniform(shape, s)
            {"kind": "rect", "edges": [[...],[...],[...]]} explicit edges
            {"kind": "quasi", "d": [dx,dy,dz]}
  steps:    T                           number of time steps (config.time is derived)
  dtype:    "f64" | "f32";  complex: None|True|False;  courant: 0.99
  faces:    {"min_x": {"type": "pml"|"pec"|"pmc"|"periodic"|"bloch"|"none", "thickness": n}, ...}
  bloch:    [kx, ky, kz] (rad/m)
  volume:   material dict (background)
  materials:[{"lo":[..],"hi":[..], "mat": material dict, "order": int, "name": str}]
  sources:  [{"kind": "uniform"|"gaussian"|"dipole"|"tfsf", ...}]
  detectors:[{"kind": "field"|"energy"|"poynting"|"phasor"|..., "lo":[..], "hi":[..], ...}]
  gradient: None | {"method": "reversible"|"checkpointed", "num_checkpoints": n, "num_ckpt_rev": k}
  symmetry: [sx, sy, sz]
material dict: {"eps": scalar|3|9, "mu": ..., "sig_e": ..., "sig_m": ...}
"""

from __future__ import annotations

import dataclasses

import copy

FACES = ("min_x", "max_x", "min_y", "max_y", "min_z", "max_z")
AX = {"x": 0, "y": 1, "z": 2}


def face_axis_dir(face: str):
    side, ax = face.split("_")
    return AX[ax], ("-" if side == "min" else "+")


# --------------------------------------------------------------------------------------------
# description-level helpers (pure python)
# --------------------------------------------------------------------------------------------
def default_scene(shape=(6, 6, 6), steps=10, spacing=50e-9):
    return {
        "shape": list(shape),
        "grid": {"kind": "uniform", "spacing": spacing},
        "steps": steps,
        "dtype": "f64",
        "complex": None,
        "courant": 0.99,
        "faces": {f: {"type": "none"} for f in FACES},
        "bloch": [0.0, 0.0, 0.0],
        "volume": {"eps": 1.0},
        "materials": [],
        "sources": [],
        "detectors": [],
        "gradient": None,
        "symmetry": [0, 0, 0],
    }


def pml_thickness(scene, face):
    f = scene["faces"].get(face, {"type": "none"})
    return int(f.get("thickness", 0)) if f["type"] == "pml" else 0


def interior_box(scene):
    """Index box [lo, hi) outside all PML slabs."""
    lo, hi = [0, 0, 0], list(scene["shape"])
    for face in FACES:
        ax, d = face_axis_dir(face)
        t = pml_thickness(scene, face)
        if d == "-":
            lo[ax] = t
        else:
            hi[ax] = scene["shape"][ax] - t
    return lo, hi


def rotate_axes_list(v, k=1):
    """Cyclic relabelling x->y->z->x applied k times to a per-axis list: new[(a+k)%3] = old[a]."""
    out = [None, None, None]
    for a in range(3):
        out[(a + k) % 3] = v[a]
    return out


# --------------------------------------------------------------------------------------------
# builder
# --------------------------------------------------------------------------------------------
def _mat(fdtdx, m):
    m = m or {}
    kw = {}
    if "eps" in m:
        kw["permittivity"] = _t(m["eps"])
    if "mu" in m:
        kw["permeability"] = _t(m["mu"])
    if "sig_e" in m:
        kw["electric_conductivity"] = _t(m["sig_e"])
    if "sig_m" in m:
        kw["magnetic_conductivity"] = _t(m["sig_m"])
    if m.get("dispersion") is not None:
        kw["dispersion"] = _dispersion(fdtdx, m["dispersion"])
    return fdtdx.Material(**kw)


def _dispersion(fdtdx, d):
    poles = []
    for p in d["poles"]:
        k = p["kind"]
        if k == "lorentz":
            poles.append(fdtdx.LorentzPole(resonance_frequency=p["w0"], damping=p["gamma"], delta_epsilon=p["deps"]))
        elif k == "drude":
            poles.append(fdtdx.DrudePole(plasma_frequency=p["wp"], damping=p["gamma"]))
        else:
            raise ValueError(k)
    return fdtdx.DispersionModel(poles=tuple(poles))


def _t(v):
    if isinstance(v, (list, tuple)):
        if len(v) and isinstance(v[0], (list, tuple)):
            return tuple(tuple(float(x) for x in row) for row in v)
        return tuple(float(x) for x in v)
    return float(v)


def make_grid(fdtdx, scene):
    import jax.numpy as jnp

    g = scene["grid"]
    shape = tuple(scene["shape"])
    if g["kind"] == "uniform":
        return fdtdx.UniformGrid(spacing=g["spacing"])
    if g["kind"] == "rect_uniform":
        return fdtdx.RectilinearGrid.uniform(shape=shape, spacing=g["spacing"])
    if g["kind"] == "rect":
        e = g["edges"]
        return fdtdx.RectilinearGrid(
            x_edges=jnp.asarray(e[0], dtype=jnp.float64),
            y_edges=jnp.asarray(e[1], dtype=jnp.float64),
            z_edges=jnp.asarray(e[2], dtype=jnp.float64),
        )
    if g["kind"] == "quasi":
        return fdtdx.QuasiUniformGrid(dx=g["d"][0], dy=g["d"][1], dz=g["d"][2])
    raise ValueError(g["kind"])


def _switch(fdtdx, s):
    if not s:
        return fdtdx.OnOffSwitch()
    return fdtdx.OnOffSwitch(**s)


def _profile(fdtdx, p, dt):
    import jax.numpy as jnp

    if not p or p["kind"] == "cw":
        kw = {}
        if p and "phase_shift" in p:
            kw["phase_shift"] = p["phase_shift"]
        if p and "num_startup_periods" in p:
            kw["num_startup_periods"] = p["num_startup_periods"]
        return fdtdx.SingleFrequencyProfile(**kw)
    if p["kind"] == "pulse":
        return fdtdx.GaussianPulseProfile(
            spectral_width=fdtdx.WaveCharacter(wavelength=p["width_wavelength"])
            if "width_wavelength" in p
            else fdtdx.WaveCharacter(frequency=p["width_frequency"]),
            center_wave=fdtdx.WaveCharacter(wavelength=p["center_wavelength"]),
        )
    if p["kind"] == "signal":
        return fdtdx.CustomTimeSignalProfile(
            signal=jnp.asarray(p["signal"], dtype=jnp.float64), time_step_duration=p.get("dt_factor", 1.0) * dt
        )
    raise ValueError(p["kind"])


_EDGES = None  # explicit edges of the scene being built (rectilinear grids reject index-space constraints)


def _box_constraints(obj, lo, hi):
    if _EDGES is not None:
        from fdtdx.objects.object import RealCoordinateConstraint

        return [
            RealCoordinateConstraint(
                object=obj.name,
                axes=(0, 1, 2),
                sides=("-", "-", "-"),
                coordinates=tuple(float(_EDGES[a][int(lo[a])]) for a in range(3)),
            )
        ]
    return [obj.set_grid_coordinates(axes=(0, 1, 2), sides=("-", "-", "-"), coordinates=tuple(int(x) for x in lo))]


def _grid_shape(lo, hi):
    return tuple(int(h - l) for l, h in zip(lo, hi))


def time_step_duration(fdtdx, scene):
    """dt as the placed config will see it (resolve policy grids on the scene shape first)."""
    import jax.numpy as jnp

    grid = make_grid(fdtdx, scene)
    if not isinstance(grid, fdtdx.RectilinearGrid):
        grid = grid.resolve(tuple(scene["shape"]))
    del jnp
    return grid.cfl_time_step(scene.get("courant", 0.99))


def build(scene, key_seed=0, extra_objects=None, extra_constraints=None, apply=True, params=None):
    """Returns dict(objects, arrays, config, params, info, names).  Raises what place_objects raises."""
    from vf import bootstrap

    fdtdx = bootstrap.ensure()
    import jax
    import jax.numpy as jnp

    global _EDGES
    scene = copy.deepcopy(scene)
    _EDGES = scene["grid"]["edges"] if scene["grid"]["kind"] == "rect" else None
    f64 = scene.get("dtype", "f64") == "f64"
    rdt = jnp.float64 if f64 else jnp.float32
    cdt = jnp.complex128 if f64 else jnp.complex64
    dt = time_step_duration(fdtdx, scene)
    T = int(scene["steps"])
    grad = None
    g = scene.get("gradient")
    if g:
        if g["method"] == "reversible":
            mods = []
            for m in g.get("recorder_modules", []):
                if m["kind"] == "every_k":
                    mods.append(fdtdx.LinearReconstructEveryK(k=m["k"], start_recording_after=m.get("start", 0)))
                elif m["kind"] == "dtype":
                    mods.append(fdtdx.DtypeConversion(dtype=getattr(jnp, m["dtype"])))
            grad = fdtdx.GradientConfig(
                method="reversible",
                recorder=fdtdx.Recorder(modules=mods),
                num_checkpoints_reversible=int(g.get("num_ckpt_rev", 0)),
            )
        else:
            grad = fdtdx.GradientConfig(method="checkpointed", num_checkpoints=int(g.get("num_checkpoints", 4)))
    config = fdtdx.SimulationConfig(
        time=(T + 0.25) * dt,
        grid=make_grid(fdtdx, scene),
        backend="cpu",
        dtype=rdt,
        use_complex_fields=scene.get("complex"),
        courant_factor=scene.get("courant", 0.99),
        gradient_config=grad,
        symmetry=tuple(scene.get("symmetry", (0, 0, 0))),
    )
    objs, cons = [], []
    volume = fdtdx.SimulationVolume(
        partial_grid_shape=tuple(scene["shape"]), material=_mat(fdtdx, scene.get("volume")), name="volume"
    )
    objs.append(volume)
    names = {"boundaries": {}, "sources": [], "detectors": [], "materials": [], "devices": []}

    # ---- boundaries --------------------------------------------------------------------------
    bloch = tuple(float(x) for x in scene.get("bloch", (0, 0, 0)))
    via_config = scene.get("boundary_api") == "config"
    if via_config:
        # the public BoundaryConfig / boundary_objects_from_config route (all six faces need a type; the full wave
        # vector goes into the config and, as documented, only axes typed "bloch" may use their component of it)
        kw = {"bloch_vector": bloch}
        for face in FACES:
            spec = scene["faces"].get(face, {"type": "none"})
            if spec["type"] == "none" or any(k not in ("type", "thickness") for k in spec):
                raise ValueError("boundary_api=config needs a plain boundary type on every face")
            tag = face.replace("_", "")
            kw[f"boundary_type_{tag}"] = spec["type"]
            kw[f"thickness_grid_{tag}"] = int(spec.get("thickness", 1))
        bdict, bcons = fdtdx.boundary_objects_from_config(fdtdx.BoundaryConfig(**kw), volume)
        for face in FACES:
            b = bdict[face].aset("name", f"b_{face}")
            objs.append(b)
            names["boundaries"][face] = f"b_{face}"
        for c in bcons:
            face = next(f for f in FACES if bdict[f].name == c.object)
            cons.append(dataclasses.replace(c, object=f"b_{face}"))
    for face in [] if via_config else FACES:
        spec = scene["faces"].get(face, {"type": "none"})
        typ = spec["type"]
        if typ == "none":
            continue
        axis, direction = face_axis_dir(face)
        gs = [None, None, None]
        gs[axis] = int(spec.get("thickness", 1)) if typ == "pml" else 1
        name = f"b_{face}"
        if typ == "pml":
            kw = {k: spec[k] for k in spec if k not in ("type", "thickness")}
            b = fdtdx.PerfectlyMatchedLayer(axis=axis, direction=direction, partial_grid_shape=tuple(gs), name=name, **kw)
        elif typ == "pec":
            b = fdtdx.PerfectElectricConductor(axis=axis, direction=direction, partial_grid_shape=tuple(gs), name=name)
        elif typ == "pmc":
            b = fdtdx.PerfectMagneticConductor(axis=axis, direction=direction, partial_grid_shape=tuple(gs), name=name)
        elif typ == "periodic":
            b = fdtdx.BlochBoundary(
                axis=axis, direction=direction, partial_grid_shape=tuple(gs), bloch_vector=(0.0, 0.0, 0.0), name=name
            )
        elif typ == "bloch":
            b = fdtdx.BlochBoundary(axis=axis, direction=direction, partial_grid_shape=tuple(gs), bloch_vector=bloch, name=name)
        else:
            raise ValueError(typ)
        other = [a for a in range(3) if a != axis]
        di = -1 if direction == "-" else 1
        cons.append(
            b.place_relative_to(volume, axes=(axis, other[0], other[1]), own_positions=(di, 0, 0), other_positions=(di, 0, 0))
        )
        objs.append(b)
        names["boundaries"][face] = name

    # ---- static materials --------------------------------------------------------------------
    for i, m in enumerate(scene.get("materials", [])):
        name = m.get("name", f"mat{i}")
        if m.get("center"):
            # placed by the public place_at_center helper (physical-coordinate snapping, may be an exact tie)
            o = fdtdx.UniformMaterialObject(
                partial_grid_shape=tuple(int(x) for x in m["size"]),
                material=_mat(fdtdx, m["mat"]),
                placement_order=int(m.get("order", 0)),
                name=name,
            )
            objs.append(o)
            cons.append(o.place_at_center(volume))
            names["materials"].append(name)
            continue
        o = fdtdx.UniformMaterialObject(
            partial_grid_shape=_grid_shape(m["lo"], m["hi"]),
            material=_mat(fdtdx, m["mat"]),
            placement_order=int(m.get("order", 0)),
            name=name,
        )
        objs.append(o)
        cons += _box_constraints(o, m["lo"], m["hi"])
        names["materials"].append(name)

    # ---- multi-material shapes (sphere / cylinder) -----------------------------------------------
    for i, m in enumerate(scene.get("shapes", [])):
        name = m.get("name", f"shape{i}")
        mats = {k: _mat(fdtdx, v) for k, v in m["materials"].items()}
        sp = scene["grid"].get("spacing", 50e-9)
        if m["kind"] == "sphere":
            o = fdtdx.Sphere(radius=float(m["radius_cells"]) * sp, materials=mats, material_name=m["material_name"], placement_order=int(m.get("order", 0)), name=name)
        else:
            ps = [None, None, None]
            ps[int(m["axis"])] = int(m["length_cells"])
            o = fdtdx.Cylinder(radius=float(m["radius_cells"]) * sp, axis=int(m["axis"]), materials=mats, material_name=m["material_name"],
                               partial_grid_shape=tuple(ps), placement_order=int(m.get("order", 0)), name=name)
        objs.append(o)
        cons += _box_constraints(o, m["lo"], None)
        names["materials"].append(name)

    # ---- devices -----------------------------------------------------------------------------
    for i, d in enumerate(scene.get("devices", [])):
        name = d.get("name", f"dev{i}")
        mats = {k: _mat(fdtdx, v) for k, v in d["materials"].items()}
        tr = []
        for t in d.get("transforms", []):
            tr.append(_transform(fdtdx, t))
        o = fdtdx.Device(
            name=name,
            partial_grid_shape=_grid_shape(d["lo"], d["hi"]),
            materials=mats,
            param_transforms=tr,
            partial_voxel_grid_shape=tuple(d.get("voxel", (1, 1, 1))),
            **({"use_etching": True} if d.get("etch") else {}),
        )
        objs.append(o)
        cons += _box_constraints(o, d["lo"], d["hi"])
        names["devices"].append(name)

    # ---- sources -----------------------------------------------------------------------------
    for i, s in enumerate(scene.get("sources", [])):
        name = s.get("name", f"src{i}")
        wc = fdtdx.WaveCharacter(wavelength=s["wavelength"], **({"phase_shift": s["phase"]} if "phase" in s else {}))
        common = dict(
            name=name,
            wave_character=wc,
            temporal_profile=_profile(fdtdx, s.get("profile"), dt),
            static_amplitude_factor=float(s.get("factor", 1.0)),
            switch=_switch(fdtdx, s.get("switch")),
        )
        k = s["kind"]
        if k in ("uniform", "gaussian"):
            pol = {}
            if "e_pol" in s:
                pol["fixed_E_polarization_vector"] = tuple(s["e_pol"])
            if "h_pol" in s:
                pol["fixed_H_polarization_vector"] = tuple(s["h_pol"])
            extra = {kk: s[kk] for kk in ("azimuth_angle", "elevation_angle", "normalize_by_energy") if kk in s}
            if k == "uniform":
                o = fdtdx.UniformPlaneSource(
                    partial_grid_shape=_grid_shape(s["lo"], s["hi"]),
                    direction=s["direction"],
                    amplitude=float(s.get("amplitude", 1.0)),
                    **pol,
                    **extra,
                    **common,
                )
            else:
                o = fdtdx.GaussianPlaneSource(
                    partial_grid_shape=_grid_shape(s["lo"], s["hi"]),
                    direction=s["direction"],
                    radius=float(s["radius"]),
                    **({"std": s["std"]} if "std" in s else {}),
                    **pol,
                    **extra,
                    **common,
                )
        elif k == "dipole":
            o = fdtdx.PointDipoleSource(
                partial_grid_shape=(1, 1, 1),
                polarization=int(s["polarization"]),
                source_type=s.get("source_type", "electric"),
                amplitude=float(s.get("amplitude", 1.0)),
                azimuth_angle=float(s.get("azimuth_angle", 0.0)),
                elevation_angle=float(s.get("elevation_angle", 0.0)),
                **common,
            )
            s = dict(s)
            s["hi"] = [x + 1 for x in s["lo"]]
        elif k == "tfsf":
            pol = {}
            if "e_pol" in s:
                pol["fixed_E_polarization_vector"] = tuple(s["e_pol"])
            if "h_pol" in s:
                pol["fixed_H_polarization_vector"] = tuple(s["h_pol"])
            o = fdtdx.TFSFPlaneSourceRegion(
                partial_grid_shape=_grid_shape(s["lo"], s["hi"]),
                propagation_axis=int(s["propagation_axis"]),
                direction=s["direction"],
                periodic_axes=tuple(s.get("periodic_axes", ())),
                amplitude=float(s.get("amplitude", 1.0)),
                **pol,
                **common,
            )
        else:
            raise ValueError(k)
        objs.append(o)
        cons += _box_constraints(o, s["lo"], s["hi"])
        names["sources"].append(name)

    # ---- detectors ---------------------------------------------------------------------------
    for i, d in enumerate(scene.get("detectors", [])):
        name = d.get("name", f"det{i}")
        common = dict(
            name=name,
            partial_grid_shape=_grid_shape(d["lo"], d["hi"]),
            switch=_switch(fdtdx, d.get("switch")),
            exact_interpolation=bool(d.get("exact", True)),
            inverse=bool(d.get("inverse", False)),
            plot=False,
        )
        k = d["kind"]
        if k == "field":
            o = fdtdx.FieldDetector(
                dtype=cdt if d.get("complex") else rdt,
                reduce_volume=bool(d.get("reduce", False)),
                **({"components": tuple(d["components"])} if "components" in d else {}),
                **common,
            )
        elif k == "energy":
            o = fdtdx.EnergyDetector(
                dtype=rdt,
                reduce_volume=bool(d.get("reduce", False)),
                as_slices=bool(d.get("as_slices", False)),
                **{kk: d[kk] for kk in ("x_slice", "y_slice", "z_slice", "aggregate") if kk in d},
                **common,
            )
        elif k == "poynting":
            o = fdtdx.PoyntingFluxDetector(
                dtype=rdt,
                direction=d.get("direction", "+"),
                reduce_volume=bool(d.get("reduce", True)),
                keep_all_components=bool(d.get("keep_all", False)),
                **({"fixed_propagation_axis": d["axis"]} if "axis" in d else {}),
                **common,
            )
        elif k == "closed_poynting":
            o = fdtdx.ClosedSurfacePoyntingFluxDetector(
                dtype=rdt,
                orientation=d.get("orientation", "outward"),
                **({"axes": tuple(d["axes"])} if "axes" in d else {}),
                **common,
            )
        elif k in ("phasor", "phasor_poynting", "closed_phasor_poynting"):
            common.pop("plot")
            pk = dict(
                dtype=cdt,
                wave_characters=tuple(fdtdx.WaveCharacter(wavelength=w) for w in d["wavelengths"]),
                scaling_mode=d.get("scaling_mode", "continuous"),
                dft_subsample=d.get("dft_subsample", 1),
                apodization=_window(fdtdx, d.get("window")),
            )
            if k == "phasor":
                o = fdtdx.PhasorDetector(
                    reduce_volume=bool(d.get("reduce", False)),
                    **({"components": tuple(d["components"])} if "components" in d else {}),
                    **pk,
                    **common,
                )
            elif k == "phasor_poynting":
                o = fdtdx.PhasorPoyntingFluxDetector(
                    direction=d.get("direction", "+"),
                    keep_all_components=bool(d.get("keep_all", False)),
                    **({"fixed_propagation_axis": d["axis"]} if "axis" in d else {}),
                    **pk,
                    **common,
                )
            else:
                o = fdtdx.ClosedSurfacePhasorPoyntingFluxDetector(
                    orientation=d.get("orientation", "outward"),
                    **({"axes": tuple(d["axes"])} if "axes" in d else {}),
                    **pk,
                    **common,
                )
        else:
            raise ValueError(k)
        objs.append(o)
        cons += _box_constraints(o, d["lo"], d["hi"])
        names["detectors"].append(name)

    objs += list(extra_objects or [])
    cons += list(extra_constraints or [])
    key = jax.random.PRNGKey(key_seed)
    objects, arrays, p, config, info = fdtdx.place_objects(object_list=objs, config=config, constraints=cons, key=key)
    if params is not None:
        p = params
    if apply:
        arrays, objects, _ = fdtdx.apply_params(arrays, objects, p, key)
    return {"objects": objects, "arrays": arrays, "config": config, "params": p, "info": info, "names": names, "dt": dt}


def _window(fdtdx, w):
    if not w:
        return None
    if w["kind"] == "gaussian":
        return fdtdx.GaussianWindow(**{k: v for k, v in w.items() if k != "kind"})
    if w["kind"] == "tukey":
        return fdtdx.TukeyWindow(**{k: v for k, v in w.items() if k != "kind"})
    raise ValueError(w["kind"])


def _transform(fdtdx, t):
    k = t["kind"]
    kw = {kk: v for kk, v in t.items() if kk != "kind"}
    return getattr(fdtdx, k)(**kw)


# --------------------------------------------------------------------------------------------
# running helpers
# --------------------------------------------------------------------------------------------
def run(built, jit=True, key_seed=0, stopping_condition=None):
    import jax

    from vf import bootstrap

    fdtdx = bootstrap.ensure()
    key = jax.random.PRNGKey(key_seed)

    def f(arrays):
        return fdtdx.run_fdtd(
            arrays=arrays,
            objects=built["objects"],
            config=built["config"],
            key=key,
            show_progress=False,
            **({"stopping_condition": stopping_condition} if stopping_condition is not None else {}),
        )

    if jit:
        f = jax.jit(f)
    return f(built["arrays"])


def np_tree(x):
    """Convert a pytree of jax arrays to nested python containers of numpy arrays."""
    import jax
    import numpy as np

    return jax.tree.map(lambda a: np.asarray(a), x)


def detector_arrays(arrays):
    import numpy as np

    out = {}
    for dn, st in arrays.detector_states.items():
        for k, v in st.items():
            out[f"{dn}/{k}"] = np.asarray(v)
    return out


# --------------------------------------------------------------------------------------------
# description-level transformations
# --------------------------------------------------------------------------------------------
def _rot_list(v):
    """per-axis list under the relabelling x->y, y->z, z->x: new[(a+1)%3] = old[a]"""
    return [v[2], v[0], v[1]]


def _rot_tensor(t):
    """material value (scalar | 3 | 9 row-major) under the same relabelling"""
    if not isinstance(t, (list, tuple)):
        return t
    if len(t) == 3:
        return _rot_list(list(t))
    if len(t) == 9:
        old = [[t[3 * i + j] for j in range(3)] for i in range(3)]
        new = [[0.0] * 3 for _ in range(3)]
        for i in range(3):
            for j in range(3):
                new[(i + 1) % 3][(j + 1) % 3] = old[i][j]
        return [new[i][j] for i in range(3) for j in range(3)]
    raise ValueError(t)


def _rot_mat(m):
    return {k: (_rot_tensor(v) if k in ("eps", "mu", "sig_e", "sig_m") else v) for k, v in (m or {}).items()}


def rotate_scene(scene):
    """Relabel the axes cyclically (x->y, y->z, z->x) in the whole description."""
    s = copy.deepcopy(scene)
    s["shape"] = _rot_list(scene["shape"])
    g = scene["grid"]
    if g["kind"] == "rect":
        s["grid"] = {"kind": "rect", "edges": _rot_list(g["edges"])}
    elif g["kind"] == "quasi":
        s["grid"] = {"kind": "quasi", "d": _rot_list(g["d"])}
    names = "xyz"
    faces = {}
    for f, spec in scene["faces"].items():
        side, ax = f.split("_")
        faces[f"{side}_{names[(AX[ax] + 1) % 3]}"] = copy.deepcopy(spec)
    s["faces"] = faces
    s["bloch"] = _rot_list(list(scene.get("bloch", [0, 0, 0])))
    s["volume"] = _rot_mat(scene.get("volume"))
    s["symmetry"] = _rot_list(list(scene.get("symmetry", [0, 0, 0])))
    for key in ("materials", "sources", "detectors", "devices"):
        out = []
        for o in scene.get(key, []):
            o = copy.deepcopy(o)
            for kk in ("lo", "hi"):
                if kk in o:
                    o[kk] = _rot_list(o[kk])
            if "mat" in o:
                o["mat"] = _rot_mat(o["mat"])
            for kk in ("e_pol", "h_pol"):
                if kk in o:
                    o[kk] = _rot_list(o[kk])
            if "polarization" in o:
                o["polarization"] = (o["polarization"] + 1) % 3
            if "propagation_axis" in o:
                o["propagation_axis"] = (o["propagation_axis"] + 1) % 3
            if "periodic_axes" in o:
                o["periodic_axes"] = sorted((a + 1) % 3 for a in o["periodic_axes"])
            if "axis" in o:
                o["axis"] = (o["axis"] + 1) % 3
            if "axes" in o:
                o["axes"] = sorted((a + 1) % 3 for a in o["axes"])
            out.append(o)
        if key in scene:
            s[key] = out
    return s


def rotate_vector_field(F):
    """(3, nx, ny, nz) vector field of the original scene expressed in the rotated labelling."""
    import numpy as np

    return np.transpose(np.asarray(F)[[2, 0, 1]], (0, 3, 1, 2))


def rotate_scalar_field(F, lead=0):
    """array with `lead` leading non-spatial axes and three trailing spatial axes"""
    import numpy as np

    F = np.asarray(F)
    ax = list(range(lead)) + [lead + 2, lead + 0, lead + 1]
    return np.transpose(F, ax)

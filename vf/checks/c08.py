"""C08 — the solver is equivariant under cyclic relabelling of the axes.

Metamorphic monitor: the scene *description* is relabelled x->y->z->x once and twice; the three real runs
must produce fields and raw detector records that are the relabelled versions of each other.
"""

from __future__ import annotations

PROPERTY = "C08"
RULE = (
    "seeded scenes: PML on random face subsets / periodic / pec / pmc / none per axis, iso/diag/full-tensor boxes, "
    "axis-aligned electric+magnetic dipoles, uniform and Gaussian plane sources, TFSF regions with permuted "
    "polarisations, detectors without co-location (field, energy, poynting, phasor), uniform and rectilinear "
    "grids; each scene is run in all three cyclic orientations. distinct = (axis kinds as a cyclic class, material "
    "tier, source kinds, detector kinds, grid); non-trivial iff the reference fields are non-zero"
)
REQUIRED_COUNTERS = ["orientations_run", "comparisons"]
ASSUMPTIONS = ["detectors use exact_interpolation=False (the co-location target E_z node is not axis-symmetric by definition)", "float64, rtol 1e-9"]
CASE_TIMEOUT = {"quick": 1200, "thorough": 3000}


def cases(tier, rng):
    n = 14 if tier == "quick" else 84
    return [
        {"seed": int(rng.integers(1 << 30)), "steps": int(rng.integers(8, 24 if tier == "quick" else 50)), "pml": ["some", "all", None][i % 3], "mclass": i}
        for i in range(n)
    ]


def run_case(case):
    from vf import bootstrap
    from vf.result import Res

    bootstrap.ensure()
    r = Res()
    _one(case, r)
    return r.to_dict()


def _one(sc, r):
    import numpy as np

    from vf import gen, scenes

    rng = np.random.default_rng(sc["seed"])
    scene = gen.random_scene(
        rng,
        steps=sc["steps"],
        interior=(4, 7),
        pml=sc["pml"],
        pml_thickness=(1, 3),
        materials="any",
        lossy=bool(rng.random() < 0.25),
        n_sources=(1, 3),
        source_kinds=("dipole", "mdipole", "uniform", "gaussian", "tfsf"),
        detectors=("field", "energy", "poynting", "phasor"),
        n_detectors=(1, 3),
        grid=("uniform", "rect"),
        material_class=sc.get("mclass"),
    )
    for d in scene["detectors"]:
        d["exact"] = False
    meta = scene["meta"]
    r.branch("material_class:" + str(meta.get("material_class", "drawn")))
    # permeability tier wider than the permittivity tier (isotropic eps everywhere, diagonal mu in one box)
    if meta["material_tier"] in ("none", "iso") and "tfsf" not in meta["source_kinds"] and rng.random() < 0.6:
        ilo, ihi = scenes.interior_box(scene)
        scene["materials"].append({"lo": [h - 2 for h in ihi], "hi": list(ihi), "mat": {"eps": 2.25, "mu": [float(x) for x in rng.uniform(1.0, 3.0, size=3)]}, "order": 7})
        meta["mu_tier_wider_than_eps"] = True
    s0 = scene
    s1 = scenes.rotate_scene(s0)
    s2 = scenes.rotate_scene(s1)
    outs = []
    for s in (s0, s1, s2):
        b = scenes.build(s)
        st = scenes.run(b)
        outs.append((np.asarray(st[1].fields.E), np.asarray(st[1].fields.H), scenes.detector_arrays(st[1]), int(st[0])))
        r.count("orientations_run")
    E0, H0, D0, t0 = outs[0]
    nontriv = float(np.abs(E0).max()) > 0
    kinds = meta["axis_kinds"]
    cyc = min(tuple(kinds[i:] + kinds[:i]) for i in range(3))
    sig = (cyc, meta["material_tier"], meta["lossy"], tuple(sorted(meta["source_kinds"])), tuple(sorted(meta["detector_kinds"])), scene["grid"]["kind"]) if nontriv else None
    for k in meta["source_kinds"]:
        r.branch("source:" + k)
    for k in meta["detector_kinds"]:
        r.branch("det:" + k)
    for k in kinds:
        r.branch("axis:" + k)
    r.branch("tier:" + meta["material_tier"])
    if meta.get("mu_tier_wider_than_eps"):
        r.branch("mu_tier_wider_than_eps")
    r.branch("grid:" + scene["grid"]["kind"])
    wit = {"case": sc, "meta": meta, "shape": scene["shape"]}
    wantE, wantH, wantD = E0, H0, D0
    det_specs = {d.get("name", f"det{i}"): d for i, d in enumerate(scene["detectors"])}
    for rot in (1, 2):
        wantE = scenes.rotate_vector_field(wantE)
        wantH = scenes.rotate_vector_field(wantH)
        wantD = {k: _rot_det(k, v, det_specs) for k, v in wantD.items()}
        gotE, gotH, gotD, t = outs[rot]
        w = {**wit, "rotations": rot}
        if t != t0:
            r.violate("final step differs between orientations", {**w, "got": t, "want": t0}, sig=sig)
        tol = 1e-9 * (16 if meta["material_tier"] == "full" else 1)
        r.check_close("E", gotE, wantE, tol, witness=w, sig=sig)
        r.check_close("H", gotH, wantH, tol, witness=w, sig=sig)
        for k, v in wantD.items():
            r.check_close("det", gotD[k], v, tol, witness={**w, "detector": k}, sig=sig)
    r.sample = {"case": sc, "meta": meta, "shape": scene["shape"], "max|E|": float(np.abs(E0).max())}


def _rot_det(key, v, specs):
    """relabel a raw detector record"""
    import numpy as np

    from vf import scenes

    name, arr = key.split("/")
    spec = specs[name]
    kind = spec["kind"]
    v = np.asarray(v)
    if kind == "field":
        if spec.get("reduce"):
            return np.concatenate([v[:, [2, 0, 1]], v[:, [5, 3, 4]]], axis=1)
        out = np.concatenate([v[:, [2, 0, 1]], v[:, [5, 3, 4]]], axis=1)
        return np.transpose(out, (0, 1, 4, 2, 3))
    if kind == "phasor":
        out = np.concatenate([v[:, :, [2, 0, 1]], v[:, :, [5, 3, 4]]], axis=2)
        if spec.get("reduce"):
            return out
        return np.transpose(out, (0, 1, 2, 5, 3, 4))
    if kind == "energy":
        if spec.get("reduce"):
            return v
        return scenes.rotate_scalar_field(v, lead=1)
    if kind == "poynting":
        if spec.get("reduce", True):
            return v
        return scenes.rotate_scalar_field(v, lead=1)
    raise ValueError(kind)

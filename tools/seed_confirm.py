#!/venv/bin/python
"""Confirm a seeded change in a scratch git worktree of /repo (outside /repo and /verif, removed afterwards):
the patch applies, the demonstration passes on the original tree and fails with the change, and the repository's
own test modules named in meta.json still pass with the change.  Writes seeded/<name>/confirmation.json.

usage: tools/seed_confirm.py <name> [--skip-tests]
"""
import json
import os
import re
import subprocess
import sys
import tempfile
import time

root = os.path.dirname(os.path.dirname(os.path.abspath(__file__)))
name = sys.argv[1]
sdir = os.path.join(root, "seeded", name)
meta = json.load(open(os.path.join(sdir, "meta.json")))
wt = tempfile.mkdtemp(prefix="vf_confirm_")
os.rmdir(wt)
res = {"seed": name, "when": time.strftime("%Y-%m-%d %H:%M:%S")}
HANGING = ("tests/unit/objects/detectors/test_mode.py",)  # hangs in this sandbox on the original tree as well
# errors on the current (repaired) tree without any seed: its fixture asks for a 33-cell sphere between grid coordinates
# 30 and 70, which the repaired placement solver reports as a conflicting constraint (DESIGN.md 10.3, C26/C27)
DESELECT = ("tests/integration/utils/test_plot_material.py::test_plot_material_sphere_slice",)
try:
    subprocess.run(["git", "-C", "/repo", "worktree", "add", "-q", "--detach", wt, "HEAD"], check=True)
    demo = next(f for f in ("demo.py", "test_demo.py") if os.path.exists(os.path.join(sdir, f)))

    def run_demo(label):
        env = dict(os.environ, FDTDX_SRC=os.path.join(wt, "src"), PYTHONPATH=os.path.join(wt, "src"), JAX_PLATFORMS="cpu")
        cmd = ["/venv/bin/python", "-m", "pytest", "-q", "-p", "no:cacheprovider", "-x", demo] if demo.startswith("test_") else ["/venv/bin/python", demo]
        try:
            rc = subprocess.run(cmd, cwd=sdir, env=env, capture_output=True, text=True, timeout=2400).returncode
        except subprocess.TimeoutExpired:
            rc = "timeout"
        res[f"demo_{label}_rc"] = rc
        print(f"CONFIRM {name}: demo on {label} tree rc={rc}", flush=True)

    run_demo("original")
    a = subprocess.run(["git", "apply", os.path.join(sdir, "patch.diff")], cwd=wt, capture_output=True, text=True)
    res["patch_applies"] = a.returncode == 0
    print(f"CONFIRM {name}: patch applies: {a.returncode == 0} {a.stderr[-200:]}", flush=True)
    if a.returncode == 0:
        run_demo("patched")
        if "--skip-tests" not in sys.argv:
            mods = sorted({m for t in meta.get("tests_run", []) for m in re.findall(r"tests/[\w/]+\.py", str(t))})
            mods = [m for m in mods if m not in HANGING and os.path.exists(os.path.join(wt, m))]
            res["test_modules"] = mods
            if mods:
                env = dict(os.environ, PYTHONPATH=os.path.join(wt, "src"), JAX_PLATFORMS="cpu")
                try:
                    t = subprocess.run(["/venv/bin/python", "-m", "pytest", "-q", "-p", "no:cacheprovider", "--timeout=900", *[f"--deselect={d}" for d in DESELECT], *mods], cwd=wt, env=env, capture_output=True, text=True, timeout=5400)
                    tail = (t.stdout.strip().splitlines() or [""])[-1]
                    res["tests_rc"], res["tests_summary"] = t.returncode, tail
                except subprocess.TimeoutExpired:
                    res["tests_rc"], res["tests_summary"] = "timeout", ""
                print(f"CONFIRM {name}: repository tests with the change rc={res['tests_rc']} {res['tests_summary']}", flush=True)
finally:
    subprocess.run(["git", "-C", "/repo", "worktree", "remove", "--force", wt], capture_output=True)
    with open(os.path.join(sdir, "confirmation.json"), "w") as f:
        json.dump(res, f, indent=1)

"""Helpers for differential checks: run a scene and flatten everything observable into numpy arrays."""

from __future__ import annotations


def run_scene(scene, jit=True):
    """Build + run.  Returns (built, final_state)."""
    import jax

    from vf import scenes

    built = scenes.build(scene)
    st = scenes.run(built, jit=jit)
    jax.block_until_ready(st)
    return built, st


def collect(built, state, materials=False):
    """dict name -> numpy array of every observable of a finished run.

    E, H, PML auxiliary fields, dispersive polarisation, every detector state array ("det/<name>/<key>")
    and the documented post-processing of the frequency-domain flux detectors
    ("flux/<name>" = PhasorPoyntingFluxDetector.compute_poynting_flux(state),
     "netflux/<name>" = ClosedSurfacePhasorPoyntingFluxDetector.compute_net_flux(state)).
    """
    import numpy as np

    arr = state[1]
    out = {"E": np.asarray(arr.fields.E), "H": np.asarray(arr.fields.H)}
    for nm, dct in (("psi_E", arr.fields.psi_E), ("psi_H", arr.fields.psi_H)):
        for k, pair in (dct or {}).items():
            for i, a in enumerate(pair):
                out[f"{nm}/{k}/{i}"] = np.asarray(a)
    for nm in ("dispersive_P_curr", "dispersive_P_prev"):
        v = getattr(arr.fields, nm, None)
        if v is not None:
            out[nm] = np.asarray(v)
    for dn, st in arr.detector_states.items():
        for k, v in st.items():
            out[f"det/{dn}/{k}"] = np.asarray(v)
    for det in built["objects"].detectors:
        st = arr.detector_states.get(det.name)
        if st is None:
            continue
        cls = type(det).__name__
        if cls == "PhasorPoyntingFluxDetector":
            out[f"flux/{det.name}"] = np.asarray(det.compute_poynting_flux(st))
        elif cls == "ClosedSurfacePhasorPoyntingFluxDetector":
            out[f"netflux/{det.name}"] = np.asarray(det.compute_net_flux(st))
    if materials:
        out["mat/inv_eps"] = np.asarray(arr.inv_permittivities)
        out["mat/inv_mu"] = np.asarray(arr.inv_permeabilities)
        if arr.electric_conductivity is not None:
            out["mat/sig_e"] = np.asarray(arr.electric_conductivity)
        if arr.magnetic_conductivity is not None:
            out["mat/sig_m"] = np.asarray(arr.magnetic_conductivity)
    return out


def is_reduced_record(name, scene):
    """True for records that are sums over cells (reduction order may depend on the partitioning)."""
    if name.startswith(("flux/", "netflux/")):
        return True
    if not name.startswith("det/"):
        return False
    dn = name.split("/")[1]
    for d in scene.get("detectors", []):
        if d.get("name") == dn:
            k = d["kind"]
            if k in ("closed_poynting",):
                return True
            if k in ("field", "phasor", "energy", "poynting") and d.get("reduce", k == "poynting"):
                return True
            if k == "energy" and d.get("as_slices"):
                return True  # slice means
            return False
    return False


def detector_tag(name, tags_by_name):
    if name.startswith(("det/", "flux/", "netflux/")):
        parts = name.split("/")
        return parts[0] + ":" + tags_by_name.get(parts[1], "?") + (":" + parts[2] if len(parts) > 2 and parts[0] == "det" else "")
    return name.split("/")[0]

"""Independent judges for `RectilinearGrid` geometry helpers + icontract contracts built on them.

The judges are brute-force numpy oracles written from the documented behaviour (docstrings of
`coord_to_index`, `bounds_for_center`, `bounds_for_anchor`, `cfl_time_step`).  `attach()` wraps the
real methods of the real class with `icontract.ensure` (named condition functions, explicit
`error=`), so every call made by *any* workload in this process (generated queries, `place_objects`
of a scene, another check's simulation) is judged and counted in `COUNTS`.

Usage from any check (worker side):
    from vf.oracles import grid_contracts as gc
    gc.attach()                 # idempotent
    ... run workload, catching gc.GridContractError ...
    gc.COUNTS                   # {"coord_to_index": n, ...}
"""

from __future__ import annotations

import json
import math

COUNTS: dict[str, int] = {}
_attached: dict[str, object] = {}


class GridContractError(AssertionError):
    """A contract on a RectilinearGrid helper failed; `.witness` is a JSON-able replay dict."""

    def __init__(self, msg, witness=None, mechanism=None):
        super().__init__(msg)
        self.witness = witness or {}
        self.mechanism = mechanism


# ------------------------------------------------------------------------------------------------
# pure judges: return (verdict, detail) with verdict in {True, False, None}; None = not specified
# ------------------------------------------------------------------------------------------------
def _np_edges(edges):
    import numpy as np

    e = np.asarray(edges)
    eps = float(np.finfo(e.dtype).eps) if np.issubdtype(e.dtype, np.floating) else 2.3e-16
    return e.astype(np.float64), eps


def _is_int(x):
    import numpy as np

    return isinstance(x, (int, np.integer)) and not isinstance(x, bool)


def judge_snap(edges, coord, snap, result):
    """nearest: any minimiser of |edge-coord|; lower: last edge <= coord; upper: first edge >= coord."""
    import numpy as np

    e, eps = _np_edges(edges)
    n = e.shape[0] - 1
    coord = float(coord)
    if math.isnan(coord):
        return None, "nan coordinate"
    if not _is_int(result):
        return False, f"result {result!r} is not an integer"
    r = int(result)
    if snap == "nearest":
        if not (0 <= r <= n):
            return False, f"index {r} outside [0,{n}]"
        with np.errstate(invalid="ignore", over="ignore"):
            d = np.abs(e - coord)
        if not np.all(np.isfinite(d)):
            # +-inf / overflow: every distance is infinite, so every edge is a minimiser
            return None, "infinite distance to every edge"
        tol = 4.0 * eps * max(float(np.max(np.abs(e))), abs(coord))
        if d[r] <= float(d.min()) + tol:
            return True, ""
        return False, f"|e[{r}]-x|={d[r]:.17g} but min is {float(d.min()):.17g} at {int(np.argmin(d))}"
    if snap == "lower":
        if coord < e[0]:
            return None, "no edge below the coordinate"
        want = int(np.sum(e <= coord)) - 1
        return (r == want), f"want last edge <= x: {want}, got {r}"
    if snap == "upper":
        if coord > e[-1]:
            return None, "no edge above the coordinate"
        want = int(np.sum(e < coord))
        return (r == want), f"want first edge >= x: {want}, got {r}"
    return None, f"unknown snap {snap!r}"


def _interval_judge(e, eps, size, target, result, anchor_of):
    import numpy as np

    n = e.shape[0] - 1
    if not (isinstance(result, tuple) and len(result) == 2 and _is_int(result[0]) and _is_int(result[1])):
        return False, f"result {result!r} is not an (int, int) pair"
    lo, hi = int(result[0]), int(result[1])
    if hi - lo != size:
        return False, f"size not preserved: {hi}-{lo} != {size}"
    if lo < 0 or hi > n:
        return False, f"interval ({lo},{hi}) leaves the grid [0,{n}]"
    target = float(target)
    if math.isnan(target):
        return None, "nan target"
    cands = np.arange(0, n - size + 1)
    a = np.array([anchor_of(e[k], e[k + size]) for k in cands], dtype=np.float64)
    with np.errstate(invalid="ignore", over="ignore"):
        d = np.abs(a - target)
    if not np.all(np.isfinite(d)):
        return None, "infinite target"
    tol = 8.0 * eps * max(float(np.max(np.abs(e))), abs(target))
    if d[lo] <= float(d.min()) + tol:
        return True, ""
    return False, f"distance {d[lo]:.17g} at lower={lo} but {float(d.min()):.17g} at lower={int(np.argmin(d))}"


def judge_bounds_for_center(edges, center, size, result):
    e, eps = _np_edges(edges)
    return _interval_judge(e, eps, int(size), center, result, lambda a, b: 0.5 * (a + b))


def judge_bounds_for_anchor(edges, size, anchor, position, result):
    e, eps = _np_edges(edges)
    p = float(position)
    return _interval_judge(e, eps, int(size), anchor, result, lambda a, b: a + 0.5 * (p + 1.0) * (b - a))


C0 = 299792458.0


def cfl_number(edge_arrays, dt):
    """c * dt * sqrt(sum_a 1/min(dx_a)^2) from the raw edges (float64)."""
    import numpy as np

    s = 0.0
    for ed in edge_arrays:
        w = np.diff(np.asarray(ed).astype(np.float64))
        s += 1.0 / float(np.min(w)) ** 2
    return C0 * float(dt) * math.sqrt(s)


def classify_cfl_excess(edge_arrays):
    """Deterministic mechanism key for a CFL excess on a grid the library labels uniform."""
    import numpy as np

    widths = [np.diff(np.asarray(ed).astype(np.float64)) for ed in edge_arrays]
    first = float(widths[0][0])
    wmin = min(float(w.min()) for w in widths)
    rounded = float(np.round(first, decimals=14))
    if first > wmin * (1 + 1e-9):
        return "cfl-uniform-shortcut-uses-first-width-not-min-width"
    if rounded > first:
        return "cfl-uniform-spacing-rounded-to-14-decimals"
    return None


def judge_cfl(edge_arrays, courant_factor, dt, rtol=1e-9):
    if not (isinstance(dt, float) or hasattr(dt, "__float__")):
        return False, f"dt {dt!r} is not a number", None
    dt = float(dt)
    if not (math.isfinite(dt) and dt > 0):
        mech = None
        try:
            import numpy as np

            if float(np.round(float(np.diff(np.asarray(edge_arrays[0]).astype(np.float64))[0]), 14)) == 0.0:
                mech = "cfl-uniform-spacing-rounded-to-14-decimals"
        except Exception:
            pass
        return False, f"time step {dt!r} is not a positive finite number", mech
    cn = cfl_number(edge_arrays, dt)
    if cn <= courant_factor * (1 + rtol):
        return True, "", None
    return (
        False,
        f"c*dt*sqrt(sum 1/dmin^2) = {cn:.12g} exceeds courant_factor {courant_factor} by {cn / courant_factor - 1:.3e} relative",
        classify_cfl_excess(edge_arrays),
    )


# ------------------------------------------------------------------------------------------------
# contracts
# ------------------------------------------------------------------------------------------------
def _edges_of(self, axis):
    import numpy as np

    return np.asarray(self.edges(axis))


def _bump(name):
    COUNTS[name] = COUNTS.get(name, 0) + 1


def snapped_edge_is_the_named_one(self, axis, coord, snap, result):
    _bump("coord_to_index")
    v, _ = judge_snap(_edges_of(self, axis), coord, snap, result)
    if v is None:
        _bump("coord_to_index_unspecified")
    return v is not False


def _snap_error(self, axis, coord, snap, result):
    e = _edges_of(self, axis)
    _, detail = judge_snap(e, coord, snap, result)
    return GridContractError(
        f"coord_to_index(snap={snap!r}) did not return the {snap} edge: {detail}",
        {"helper": "coord_to_index", "edges": [float(x) for x in e], "dtype": str(e.dtype), "coord": float(coord),
         "snap": snap, "result": _j(result)},
    )


def center_interval_keeps_size_and_minimises_distance(self, axis, center, size, result):
    _bump("bounds_for_center")
    v, _ = judge_bounds_for_center(_edges_of(self, axis), center, size, result)
    return v is not False


def _center_error(self, axis, center, size, result):
    e = _edges_of(self, axis)
    _, detail = judge_bounds_for_center(e, center, size, result)
    return GridContractError(
        f"bounds_for_center: {detail}",
        {"helper": "bounds_for_center", "edges": [float(x) for x in e], "dtype": str(e.dtype), "center": float(center),
         "size": int(size), "result": _j(result)},
    )


def anchor_interval_keeps_size_and_minimises_distance(self, axis, size, anchor, position, result):
    _bump("bounds_for_anchor")
    v, _ = judge_bounds_for_anchor(_edges_of(self, axis), size, anchor, position, result)
    return v is not False


def _anchor_error(self, axis, size, anchor, position, result):
    e = _edges_of(self, axis)
    _, detail = judge_bounds_for_anchor(e, size, anchor, position, result)
    return GridContractError(
        f"bounds_for_anchor: {detail}",
        {"helper": "bounds_for_anchor", "edges": [float(x) for x in e], "dtype": str(e.dtype), "anchor": float(anchor),
         "position": float(position), "size": int(size), "result": _j(result)},
    )


def time_step_respects_cfl_bound(self, courant_factor, result):
    _bump("cfl_time_step")
    v, _, _ = judge_cfl([_edges_of(self, a) for a in range(3)], courant_factor, result)
    return v


def _cfl_error(self, courant_factor, result):
    ed = [_edges_of(self, a) for a in range(3)]
    _, detail, mech = judge_cfl(ed, courant_factor, result)
    return GridContractError(
        f"cfl_time_step: {detail}",
        {"helper": "cfl_time_step", "edges": [[float(x) for x in e] for e in ed], "courant_factor": float(courant_factor),
         "result": float(result)},
        mechanism=mech,
    )


def _j(x):
    try:
        return json.loads(json.dumps(x, default=lambda o: o.item() if hasattr(o, "item") else repr(o)))
    except Exception:
        return repr(x)


def attach(cfl: bool = False) -> bool:
    """Wrap the real RectilinearGrid methods.  Returns False if icontract is unavailable."""
    from vf import bootstrap

    if not bootstrap.ensure_deps():
        return False
    import icontract

    bootstrap.ensure()
    from fdtdx.core.grid import RectilinearGrid

    specs = [
        ("coord_to_index", snapped_edge_is_the_named_one, _snap_error),
        ("bounds_for_center", center_interval_keeps_size_and_minimises_distance, _center_error),
        ("bounds_for_anchor", anchor_interval_keeps_size_and_minimises_distance, _anchor_error),
    ]
    if cfl:
        specs.append(("cfl_time_step", time_step_respects_cfl_bound, _cfl_error))
    for name, cond, err in specs:
        if name in _attached:
            continue
        orig = RectilinearGrid.__dict__[name]
        wrapped = icontract.ensure(cond, error=err)(orig)
        _attached[name] = orig
        setattr(RectilinearGrid, name, wrapped)
    return True


def detach():
    from fdtdx.core.grid import RectilinearGrid

    for name, orig in list(_attached.items()):
        setattr(RectilinearGrid, name, orig)
        del _attached[name]

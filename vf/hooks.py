"""Harness-side instrumentation: wrap module attributes that fdtdx looks up at call time.

No source hooks are needed: `fdtdx.fdtd.fdtd.forward` / `.backward` are resolved from module globals
each time a loop body is built, so replacing the attribute with a delegating wrapper that emits a
`jax.debug.callback` event makes every executed step observable, inside `eqxi.while_loop`, under
`jit`, and inside the custom-VJP backward pass.  Event order is reconstructed from the payload (the
step index), never from callback arrival order.
"""

from __future__ import annotations

import contextlib
import threading


class EventLog:
    def __init__(self):
        self.events: list[tuple] = []
        self._lock = threading.Lock()

    def add(self, *ev):
        with self._lock:
            self.events.append(ev)

    def of(self, kind):
        return [e for e in self.events if e[0] == kind]


@contextlib.contextmanager
def patched(module, name, wrapper_factory):
    orig = getattr(module, name)
    setattr(module, name, wrapper_factory(orig))
    try:
        yield orig
    finally:
        setattr(module, name, orig)


@contextlib.contextmanager
def trace_forward(capture_fields: bool = False, also_backward: bool = True):
    """Log ('forward', t_in[, E, H after the step]) and ('backward', t_out[, E, H after the step])."""
    import jax
    import numpy as np

    from vf import bootstrap

    bootstrap.ensure()
    import fdtdx.fdtd.backward as bmod
    import fdtdx.fdtd.fdtd as fmod
    import fdtdx.fdtd.forward as fwmod

    log = EventLog()

    def fwd_factory(orig):
        def wrapped(state, *a, **k):
            out = orig(state, *a, **k)
            if capture_fields:
                jax.debug.callback(
                    lambda t, E, H: log.add("forward", int(t), np.asarray(E), np.asarray(H)),
                    state[0],
                    out[1].fields.E,
                    out[1].fields.H,
                )
            else:
                jax.debug.callback(lambda t: log.add("forward", int(t)), state[0])
            return out

        return wrapped

    def bwd_factory(orig):
        def wrapped(state, *a, **k):
            out = orig(state, *a, **k)
            if capture_fields:
                jax.debug.callback(
                    lambda t, E, H: log.add("backward", int(t), np.asarray(E), np.asarray(H)),
                    out[0],
                    out[1].fields.E,
                    out[1].fields.H,
                )
            else:
                jax.debug.callback(lambda t: log.add("backward", int(t)), out[0])
            return out

        return wrapped

    with contextlib.ExitStack() as es:
        es.enter_context(patched(fmod, "forward", fwd_factory))
        if also_backward:
            es.enter_context(patched(fmod, "backward", bwd_factory))
            es.enter_context(patched(bmod, "backward", bwd_factory))
        del fwmod
        yield log

"""C15 — detectors record the co-located fields of their region.

Differential monitor: FieldDetector rows written by real forward() steps on random fields vs an independent numpy
co-location (vf/oracles/colocate.py) with the boundary-appropriate halo, for detector boxes in every one of the
4^3 contact classes with the domain faces.  Both code paths of update_detector_states (interior block and
full-domain fallback) are driven and counted.
"""

from __future__ import annotations

PROPERTY = "C15"
RULE = (
    "per case one scene (random shape 4..7 per axis; per axis zero-halo walls (none/pec/pmc), PML, periodic, bloch or "
    "an electric symmetry plane; uniform or stretched grid) carrying one exact FieldDetector per contact class "
    "(4^3 = 64: touch low / high / both / neither per axis) plus raw (exact_interpolation=False) detectors and "
    "component subsets; 2 forward steps on random fields. distinct = (boundary kind per axis, grid, contact class, "
    "exact); non-trivial iff the expected record is non-zero"
)
REQUIRED_COUNTERS = ["detector_rows_compared", "branch_interior_fast_path", "branch_edge_fallback"]
ASSUMPTIONS = [
    "stretched grids: backward averages weighted by physical half-widths, with the width below index 0 taken as the width of cell 0 (the metric the library declares)",
    "H is time-centred as (H_prev + H)/2 for exact detectors, raw detectors record E and H of the step",
]
CASE_TIMEOUT = {"quick": 1200, "thorough": 3000}


def EXHAUSTIVE(tier):
    return True  # all 64 contact classes in every scene


def cases(tier, rng):
    n = 12 if tier == "quick" else 72
    out = []
    kinds = ["none", "pec", "pmc", "pml", "periodic", "bloch", "esym"]
    for i in range(n):
        ax = []
        for a in range(3):
            k = kinds[int(rng.integers(len(kinds)))]
            if k == "esym" and any(x["k"] == "esym" for x in ax) and rng.random() < 0.5:
                k = "periodic"
            d = {"k": k}
            if k in ("none", "pec", "pmc"):
                d["hi"] = ["none", "pec", "pmc"][int(rng.integers(3))]
            if k == "bloch":
                d["phase"] = float(rng.uniform(-3, 3))
            if k == "esym":
                d["hi"] = ["none", "pec", "pml"][int(rng.integers(3))]
            ax.append(d)
        # the first scenes always combine two / three electric symmetry planes (halo cells behind several planes)
        forced = {0: (0, 1), 1: (1, 2), 2: (0, 2), 3: (0, 1, 2)}.get(i)
        if forced:
            for a in forced:
                ax[a] = {"k": "esym", "hi": ["none", "pec", "pml"][int(rng.integers(3))]}
        out.append({"axes": ax, "shape": [int(rng.integers(4, 8)) for _ in range(3)], "grid": ["uniform", "rect"][i % 2], "seed": int(rng.integers(1 << 30))})
    return out


def run_case(case):
    from vf import bootstrap
    from vf.result import Res

    bootstrap.ensure()
    r = Res()
    _one(case, r)
    return r.to_dict()


def _intervals(n):
    """one interval per contact class on an axis of n >= 4 cells: low only, high only, both, neither"""
    return {"lo": (0, max(1, n // 2)), "hi": (n - max(1, n // 2), n), "both": (0, n), "none": (1, n - 1)}


def _one(c, r):
    import itertools

    import jax
    import jax.numpy as jnp
    import numpy as np

    from vf import scenes, sim
    from vf.oracles import colocate

    rng = np.random.default_rng(c["seed"])
    spacing = 50e-9
    red = list(c["shape"])  # shape of the simulated (reduced) domain
    full = [n * 2 if ak["k"] == "esym" else n for n, ak in zip(red, c["axes"])]
    sym = [-1 if ak["k"] == "esym" else 0 for ak in c["axes"]]
    T = 2
    s = scenes.default_scene(shape=full, steps=T, spacing=spacing)
    s["symmetry"] = sym
    if c["grid"] == "rect":
        edges = []
        for a in range(3):
            w = spacing * np.exp(rng.uniform(0, np.log(2.5), size=red[a]))
            if c["axes"][a]["k"] == "pml":
                w[:2] = w[1]
                w[-2:] = w[-2]
            if c["axes"][a]["k"] == "esym":
                w = np.concatenate([w[::-1], w])
                if c["axes"][a].get("hi") == "pml":
                    w[:2] = w[1]
                    w[-2:] = w[-2]
            e = np.concatenate([[0.0], np.cumsum(w)])
            edges.append([float(x) for x in e - e[-1] / 2])
        s["grid"] = {"kind": "rect", "edges": edges}
    bloch = [0.0, 0.0, 0.0]
    kinds = []
    for a, ak in enumerate(c["axes"]):
        lo, hi = f"min_{'xyz'[a]}", f"max_{'xyz'[a]}"
        k = ak["k"]
        if k in ("none", "pec", "pmc"):
            s["faces"][lo], s["faces"][hi] = {"type": k}, {"type": ak["hi"]}
            kinds.append(("zero", "zero"))
        elif k == "pml":
            s["faces"][lo], s["faces"][hi] = {"type": "pml", "thickness": 1}, {"type": "pml", "thickness": 1}
            kinds.append(("zero", "zero"))
        elif k == "periodic":
            s["faces"][lo], s["faces"][hi] = {"type": "periodic"}, {"type": "periodic"}
            kinds.append(("wrap", "wrap"))
        elif k == "bloch":
            s["faces"][lo], s["faces"][hi] = {"type": "bloch"}, {"type": "bloch"}
            L = (edges[a][-1] - edges[a][0]) if c["grid"] == "rect" else full[a] * spacing
            bloch[a] = ak["phase"] / L
            kinds.append(("bloch", "bloch"))
        else:  # electric symmetry plane at the min edge of the reduced domain
            h = ak["hi"]
            s["faces"][lo] = {"type": "pml", "thickness": 1} if h == "pml" else {"type": h}
            s["faces"][hi] = {"type": "pml", "thickness": 1} if h == "pml" else {"type": h}
            kinds.append(("emirror", "zero"))
    s["bloch"] = bloch
    if any(b != 0 for b in bloch):
        s["complex"] = True
    # detectors are described in FULL-domain indices; on a symmetric axis the kept half starts at n
    off = [n if ak["k"] == "esym" else 0 for n, ak in zip(red, c["axes"])]
    ivs = [_intervals(n) for n in red]
    dets, meta = [], {}
    classes = list(itertools.product(("lo", "hi", "both", "none"), repeat=3))
    for ci, cl in enumerate(classes):
        lo = [ivs[a][cl[a]][0] + off[a] for a in range(3)]
        hi = [ivs[a][cl[a]][1] + off[a] for a in range(3)]
        name = f"x{ci}"
        dets.append({"kind": "field", "name": name, "lo": lo, "hi": hi, "exact": True})
        meta[name] = (cl, True, None)
    for j in range(4):
        cl = classes[int(rng.integers(64))]
        lo = [ivs[a][cl[a]][0] + off[a] for a in range(3)]
        hi = [ivs[a][cl[a]][1] + off[a] for a in range(3)]
        # subsets are listed in and out of the fixed Ex..Hz order; the record slots keep the fixed order
        comps = [["Hz", "Ex"], ["Ey", "Ez", "Hx"], None, ["Hy"]][j] if rng.random() < 0.5 else [["Ex", "Hz"], ["Hx", "Ey", "Ez"], None, ["Hy"]][j]
        d = {"kind": "field", "name": f"r{j}", "lo": lo, "hi": hi, "exact": bool(j % 2)}
        if comps:
            d["components"] = comps
        dets.append(d)
        meta[f"r{j}"] = (cl, bool(j % 2), comps)
    s["detectors"] = dets
    built = scenes.build(s)
    arrays, objects, config = built["arrays"], built["objects"], built["config"]
    if tuple(arrays.fields.E.shape[1:]) != tuple(red):
        r.inconclusive(f"reduced shape {arrays.fields.E.shape} != expected {red}")
        return
    E0, H0 = sim.random_fields(rng, arrays, objects)
    arrays = sim.set_fields(arrays, E0, H0)
    key = jax.random.PRNGKey(0)

    def body(state, _):
        new = sim.forward_step(state, built, key=key, record_detectors=True)
        return new, (new[1].fields.E, new[1].fields.H)

    fin, (Es, Hs) = jax.jit(lambda a: jax.lax.scan(body, (jnp.asarray(0, dtype=jnp.int32), a), None, length=T))(arrays)
    Es, Hs = np.asarray(Es), np.asarray(Hs)
    Hprev = [np.asarray(H0), Hs[0]]
    grid = config.resolved_grid
    widths = [np.asarray(grid.cell_widths(a)) for a in range(3)]
    phases = []
    for a in range(3):
        if kinds[a][0] == "bloch":
            e = np.asarray(grid.edges(a))
            phases.append(np.exp(1j * bloch[a] * (e[-1] - e[0])))
        else:
            phases.append(1.0)
    names6 = ["Ex", "Ey", "Ez", "Hx", "Hy", "Hz"]
    D = scenes.detector_arrays(fin[1])
    placed = {o.name: o for o in objects.detectors}
    kind_sig = tuple((ak["k"], ak.get("hi")) for ak in c["axes"])
    for ak in c["axes"]:
        r.branch("axis:" + ak["k"])
    r.branch("grid:" + c["grid"])
    for name, (cl, exact, comps) in meta.items():
        det = placed[name]
        gs = det.grid_slice
        interior = all(s0 >= 1 and e0 <= red[a] - 1 for a, (s0, e0) in enumerate(det.grid_slice_tuple))
        if exact:
            r.count("branch_interior_fast_path" if interior else "branch_edge_fallback")
        rows = D[f"{name}/fields"]
        for t in range(T):
            if exact:
                Ec, Hc = colocate.colocate(Es[t], 0.5 * (Hprev[t] + Hs[t]), kinds, phases, widths)
            else:
                Ec, Hc = Es[t], Hs[t]
            full6 = np.concatenate([Ec, Hc])[:, gs[0], gs[1], gs[2]]
            if comps:
                full6 = full6[sorted(names6.index(x) for x in comps)]
            want = full6
            got = rows[t]
            if not np.iscomplexobj(got):
                want = want.real
            sig = (kind_sig, c["grid"], cl, exact)
            r.count("detector_rows_compared")
            r.check_close(
                "record", got, want, 1e-9,
                witness={"case": c, "detector": name, "contact_class": list(cl), "exact": exact, "step": t, "interior_path": interior,
                         "slice": [list(x) for x in det.grid_slice_tuple]},
                sig=sig,
            )
    r.sample = {"case": c, "reduced_shape": red, "detectors": len(dets)}

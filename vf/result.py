"""Result accumulator shared by all checks (worker side) and exceptions with verdict meaning."""

from __future__ import annotations

import math


class Violation(Exception):
    """Raised by an oracle when the property is refuted; carries a JSON-able witness."""

    def __init__(self, msg: str, witness: dict | None = None, mechanism: str | None = None):
        super().__init__(msg)
        self.witness = witness or {}
        self.mechanism = mechanism


class HarnessInconclusive(Exception):
    """The harness could not build / judge this case (never counted as held or violated)."""


class Res:
    """Three-valued verdict for one case plus what the monitors observed while judging it."""

    def __init__(self):
        self.evals = 0
        self.sigs: set[str] = set()
        self.counters: dict[str, float] = {}
        self.maxes: dict[str, float] = {}
        self.branches: dict[str, int] = {}
        self.violations: list[dict] = []
        self.inconclusive_reasons: list[str] = []
        self.sample = None

    # --- observations -------------------------------------------------------------------------
    def count(self, name: str, n: float = 1):
        self.counters[name] = self.counters.get(name, 0) + n

    def branch(self, tag: str, n: int = 1):
        self.branches[tag] = self.branches.get(tag, 0) + n

    def worst(self, name: str, val: float):
        val = float(val)
        if math.isnan(val):
            val = math.inf
        if val > self.maxes.get(name, -math.inf):
            self.maxes[name] = val

    # --- verdicts -----------------------------------------------------------------------------
    def ok(self, sig=None, n: int = 1):
        """n evaluations judged and held; `sig` (hashable -> str) marks them non-trivial."""
        self.evals += n
        if sig is not None:
            self.sigs.add(sig if isinstance(sig, str) else repr(sig))

    def violate(self, what: str, witness: dict | None = None, mechanism: str | None = None, sig=None):
        self.evals += 1
        if sig is not None:
            self.sigs.add(sig if isinstance(sig, str) else repr(sig))
        # the cap is per mechanism key: a run of violations that belong to one (possibly known) mechanism must never
        # crowd out a violation of another kind in the same case
        if sum(1 for v in self.violations if v["mechanism"] == mechanism) < 8:
            self.violations.append({"what": what, "witness": witness or {}, "mechanism": mechanism})
        else:
            self.count("violations_dropped")

    def inconclusive(self, reason: str):
        self.inconclusive_reasons.append(reason)

    def check_close(self, name, got, want, rtol, what=None, witness=None, mechanism=None, sig=None, atol=0.0):
        """Identity-type comparison `max|got-want| <= rtol*max|want| + atol`; records worst error."""
        import numpy as np

        got = np.asarray(got)
        want = np.asarray(want)
        self.count("comparisons")
        if got.shape != want.shape:
            self.violate(
                what or f"{name}: shape mismatch",
                {"name": name, "got_shape": list(got.shape), "want_shape": list(want.shape), **(witness or {})},
                mechanism,
                sig,
            )
            return False
        if got.size == 0:
            self.ok(None)
            return True
        scale = float(np.max(np.abs(want))) if want.size else 0.0
        diff = np.abs(got - want)
        bad = ~np.isfinite(diff) if np.all(np.isfinite(want)) else np.zeros(diff.shape, bool)
        err = float(np.max(np.where(np.isfinite(diff), diff, 0.0))) if diff.size else 0.0
        if bad.any():
            err = math.inf
        rel = err / scale if scale > 0 else (0.0 if err <= atol else math.inf)
        self.worst(f"worst_rel_err_{name}", rel if math.isfinite(rel) else 1e300)
        if err <= rtol * scale + atol:
            self.ok(sig if scale > 0 else None)
            return True
        idx = np.unravel_index(int(np.argmax(np.where(np.isfinite(diff), diff, np.inf))), diff.shape) if diff.ndim else ()
        w = {
            "name": name,
            "max_abs_err": err,
            "scale": scale,
            "rtol": rtol,
            "index": [int(i) for i in idx],
            "got": _scalar(got[idx]) if diff.ndim else _scalar(got),
            "want": _scalar(want[idx]) if diff.ndim else _scalar(want),
        }
        w.update(witness or {})
        self.violate(what or f"{name}: mismatch rel={rel:.3e}", w, mechanism, sig)
        return False

    def to_dict(self) -> dict:
        if self.violations:
            status = "violated"
        elif self.inconclusive_reasons:
            status = "inconclusive"
        else:
            status = "held"
        return {
            "status": status,
            "evals": self.evals,
            "sigs": sorted(self.sigs),
            "counters": self.counters,
            "maxes": self.maxes,
            "branches": self.branches,
            "violations": self.violations,
            "inconclusive": self.inconclusive_reasons,
            "sample": self.sample,
        }


def _scalar(x):
    import numpy as np

    x = np.asarray(x)
    if np.iscomplexobj(x):
        return [float(x.real), float(x.imag)]
    return float(x)

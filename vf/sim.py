"""Helpers shared by the time-loop checks: stepping the real forward()/backward(), wall projection,
random states, Yee control-volume weights."""

from __future__ import annotations


def project_walls(E, H, objects):
    """Project a random state onto the wall conditions with the library's own post-update hooks."""
    from fdtdx.fdtd.update import apply_boundary_post_E_update, apply_boundary_post_H_update

    return apply_boundary_post_E_update(E, objects), apply_boundary_post_H_update(H, objects)


def random_fields(rng, arrays, objects, scale=1.0, project=True):
    import jax.numpy as jnp
    import numpy as np

    shp = arrays.fields.E.shape
    dt = arrays.fields.E.dtype
    if jnp.issubdtype(dt, jnp.complexfloating):
        E = rng.standard_normal(shp) + 1j * rng.standard_normal(shp)
        H = rng.standard_normal(shp) + 1j * rng.standard_normal(shp)
    else:
        E = rng.standard_normal(shp)
        H = rng.standard_normal(shp)
    E = jnp.asarray(E * scale, dtype=dt)
    H = jnp.asarray(H * scale, dtype=dt)
    if project:
        E, H = project_walls(E, H, objects)
    del np
    return E, H


def set_fields(arrays, E, H):
    arrays = arrays.aset("fields->E", E)
    arrays = arrays.aset("fields->H", H)
    return arrays


def forward_step(state, built, key=None, record_detectors=False, record_boundaries=False, simulate_boundaries=True):
    import jax

    from fdtdx.fdtd.forward import forward

    key = jax.random.PRNGKey(0) if key is None else key
    return forward(
        state=state,
        config=built["config"],
        objects=built["objects"],
        key=key,
        record_detectors=record_detectors,
        record_boundaries=record_boundaries,
        simulate_boundaries=simulate_boundaries,
    )


def backward_step(state, built, key=None, record_detectors=False, reset_fields=False):
    import jax

    from fdtdx.fdtd.backward import backward

    key = jax.random.PRNGKey(0) if key is None else key
    return backward(
        state=state,
        config=built["config"],
        objects=built["objects"],
        key=key,
        record_detectors=record_detectors,
        reset_fields=reset_fields,
    )


def yee_weights(config, shape):
    """Control-volume weights (W_E, W_H), each (3, Nx, Ny, Nz), numpy float64.

    E_a sits on the primal edge along a: primal width along a, dual widths along the other two axes;
    H_a sits on the dual edge along a: dual width along a, primal along the other two.  The dual width
    at index i is 0.5*(w[i]+w[i-1]) with w[-1]:=w[0], exactly the metric the backward stencil declares.
    On a uniform grid both reduce to the cell volume."""
    import numpy as np

    grid = config.resolved_grid
    w = [np.asarray(grid.cell_widths(a), dtype=np.float64) for a in range(3)]
    d = [0.5 * (x + np.concatenate([x[:1], x[:-1]])) for x in w]

    def outer(a, b, c):
        return a[:, None, None] * b[None, :, None] * c[None, None, :]

    WE = np.stack([outer(w[0], d[1], d[2]), outer(d[0], w[1], d[2]), outer(d[0], d[1], w[2])])
    WH = np.stack([outer(d[0], w[1], w[2]), outer(w[0], d[1], w[2]), outer(w[0], w[1], d[2])])
    assert WE.shape[1:] == tuple(shape)
    return WE, WH


def cell_volumes(config):
    import numpy as np

    grid = config.resolved_grid
    w = [np.asarray(grid.cell_widths(a), dtype=np.float64) for a in range(3)]
    return w[0][:, None, None] * w[1][None, :, None] * w[2][None, None, :]


def random_edges(rng, n, spacing, ratio=3.0):
    """Strictly increasing edges with width ratio <= `ratio`."""
    import numpy as np

    w = spacing * np.exp(rng.uniform(0.0, np.log(ratio), size=n))
    e = np.concatenate([[0.0], np.cumsum(w)])
    return (e - e[-1] / 2).tolist()


def pml_mask(built, shape):
    """Boolean (Nx,Ny,Nz): True outside every PML slab."""
    import numpy as np

    m = np.ones(shape, bool)
    for p in built["objects"].pml_objects:
        m[p.grid_slice] = False
    return m


def near_pml(built, dist=2):
    """Boolean (Nx,Ny,Nz): cells within Chebyshev distance `dist` of a PML cell (PML cells included)."""
    import numpy as np

    arrays = built["arrays"]
    shape = tuple(arrays.fields.E.shape[1:])
    near = ~pml_mask(built, shape)
    for _ in range(dist):
        grown = near.copy()
        for dx in (-1, 0, 1):
            for dy in (-1, 0, 1):
                for dz in (-1, 0, 1):
                    if dx == dy == dz == 0:
                        continue
                    sh = near
                    for a, d in enumerate((dx, dy, dz)):
                        if d:
                            sh = np.roll(sh, d, axis=a).copy()
                            sl = [slice(None)] * 3
                            sl[a] = 0 if d == 1 else -1
                            sh[tuple(sl)] = False
                    grown |= sh
        near = grown
    return near


def full_tensor_near_pml(built, inv_eps=None, inv_mu=None, dist=2):
    """Deterministic classifier for the known finding 'full-tensor-near-pml': True iff some cell with a
    non-zero off-diagonal inverse permittivity/permeability entry lies within `dist` cells (26-neighbourhood)
    of a PML slab.  The off-diagonal averaging stencils of the anisotropic update reach two cells, while only
    a one-cell PML interface is recorded, so the reverse reconstruction is inexact exactly there."""
    import numpy as np

    arrays = built["arrays"]
    shape = tuple(arrays.fields.E.shape[1:])
    if not (~pml_mask(built, shape)).any():
        return False
    near = near_pml(built, dist)
    for arr in (arrays.inv_permittivities if inv_eps is None else inv_eps, arrays.inv_permeabilities if inv_mu is None else inv_mu):
        a = np.asarray(arr)
        if a.ndim == 4 and a.shape[0] == 9:
            off = np.zeros(shape, bool)
            for i in (1, 2, 3, 5, 6, 7):
                off |= a[i] != 0
            if (off & near).any():
                return True
    return False

"""C40 — functional updates (`TreeClass.aset`) never mutate their input and change only the addressed path.

M3: an independent model (vf.oracles.aset_contracts: deep structural snapshot, own parser of the documented path
grammar, `expected()` = snapshot with the addressed node replaced) judges the real `aset` on
  * random nested synthetic TreeClass objects (lists in lists, dicts in dicts, frozen fields holding mutable
    containers, shared/aliased sub-objects, private fields, numpy/jax leaves, hostile dictionary keys),
  * real fdtdx configuration objects (SimulationConfig / GradientConfig / Recorder, grids, Material, Device with
    material dict and transform list, and the ObjectContainer / ArrayContainer of a placed scene),
with random valid paths (attribute / index / key chains, negative indices, padded brackets, create_new_ok) and
invalid ones (must raise and leave the input untouched).
M5: the same model is attached to the real `TreeClass.aset` with icontract.snapshot/ensure while scenes are
placed, parameters applied and simulations run eagerly and under jit; the evaluation counter must be non-zero.
"""

from __future__ import annotations

PROPERTY = "C40"
RULE = (
    "roots: synthetic Node trees (depth<=4, aliasing, frozen containers, hostile keys) and real fdtdx objects "
    "(config, grids, material, device, placed containers); paths: random walks over the live object choosing "
    "attribute / list index (positive, negative, padded) / dict key steps, length 1..5, optionally ending in a new "
    "attribute or key with create_new_ok; values: scalar, str, None, list, dict, tuple, numpy, jax array, TreeClass; "
    "invalid: missing attribute/key (with and without create_new_ok, mid-path), out-of-range index, tuple index, "
    "malformed grammar.  distinct = (root kind, op-kind chain, value kind, create flag | invalid class)"
)
REQUIRED_COUNTERS = ["updates_judged", "rejections_judged", "contract_evals_aset", "contract_evals_in_real_workload"]
ASSUMPTIONS = [
    "object state = attributes in vars(obj) read through getattr (so frozen fields are compared unfrozen), containers "
    "recursively, arrays by dtype/shape/bytes, tracers by shape/dtype",
    "a declared field with an on_setattr converter other than freeze (Material tensors, object names) may store a "
    "converted value at the addressed path; everything else must be untouched",
    "dictionaries are compared as python compares them (key order ignored): the library copies trees through jax "
    "pytree flatten/unflatten, which re-creates every dict in the tree with sorted keys (counted in branches)",
    "indexing into arrays is outside the statement (attribute, list index, dictionary key) and only checked for "
    "not mutating the input",
]
CASE_TIMEOUT = {"quick": 600, "thorough": 1800}

KEYS = ["a", "b", "x y", "k.1", "0", "", "a->b", " pad ", "ü", "key-with-dash", "-1", "name"]


def cases(tier, rng):
    q = tier == "quick"
    out = []
    for i in range(6 if q else 60):
        out.append({"kind": "synthetic", "roots": 15 if q else 80, "updates": 12})
    for i in range(3 if q else 20):
        out.append({"kind": "real_objects", "updates": 120 if q else 400})
    for i in range(3 if q else 12):
        out.append({"kind": "placed", "variant": i, "updates": 60 if q else 150})
    return out


def run_case(case):
    import numpy as np

    from vf.oracles import aset_contracts as ac
    from vf.result import Res

    r = Res()
    if not ac.attach():
        r.inconclusive("icontract could not be installed from the offline wheelhouse")
        return r.to_dict()
    before = dict(ac.COUNTS)
    rng = np.random.default_rng(case["seed"])
    try:
        {"synthetic": _synthetic, "real_objects": _real_objects, "placed": _placed}[case["kind"]](case, r, rng)
    except ac.AsetContractError as e:
        r.violate(f"contract: {e}", e.witness, mechanism=e.mechanism)
    for k, v in ac.COUNTS.items():
        d = v - before.get(k, 0)
        if d:
            r.count(f"contract_evals_{k}", d)
    return r.to_dict()


# ------------------------------------------------------------------------------------------------
# synthetic trees
# ------------------------------------------------------------------------------------------------
_CLS = {}


def _classes():
    if _CLS:
        return _CLS
    from vf import bootstrap

    bootstrap.ensure()
    from fdtdx.core.jax.pytrees import TreeClass, autoinit, field, frozen_field, frozen_private_field, private_field

    @autoinit
    class Node(TreeClass):
        name: str = frozen_field(default="n")
        items: list = field(default=None)
        table: dict = field(default=None)
        arr: object = field(default=None)
        fz: tuple = frozen_field(default=(1, 2))
        fzlist: list = frozen_field(default=None)
        fzdict: dict = frozen_field(default=None)
        child: object = field(default=None)
        other: object = field(default=None)
        _priv: int = frozen_private_field(default=3)
        _plist: list = private_field(default=None)

    @autoinit
    class Leafy(TreeClass):
        value: float = field(default=0.0)
        tag: str = frozen_field(default="t")
        pair: tuple = frozen_field(default=(0, 0))

    _CLS.update(Node=Node, Leafy=Leafy)
    return _CLS


def _value(rng, depth=0, kind=None):
    """Returns (kind, python value)."""
    import numpy as np

    from vf import bootstrap

    bootstrap.ensure()
    import jax.numpy as jnp

    C = _classes()
    kinds = ["int", "float", "str", "none", "list", "dict", "tuple", "numpy", "jax", "leafy", "node", "bool", "nested_list"]
    k = kind or kinds[int(rng.integers(len(kinds)))]
    if depth > 2 and k in ("node", "nested_list", "list", "dict"):
        k = "int"
    if k == "int":
        return k, int(rng.integers(-5, 100))
    if k == "float":
        return k, float(rng.choice([0.0, -0.0, 1.5, float("inf"), float("nan"), 1e-300]))
    if k == "str":
        return k, str(rng.choice(["", "s", "a->b", "[0]", "üñ"]))
    if k == "none":
        return k, None
    if k == "bool":
        return k, bool(rng.integers(2))
    if k == "list":
        return k, [_value(rng, depth + 1)[1] for _ in range(int(rng.integers(0, 4)))]
    if k == "nested_list":
        return k, [[_value(rng, depth + 2)[1] for _ in range(int(rng.integers(1, 3)))] for _ in range(int(rng.integers(1, 3)))]
    if k == "dict":
        ks = rng.permutation(len(KEYS))[: int(rng.integers(0, 4))]
        return k, {KEYS[i]: _value(rng, depth + 1)[1] for i in ks}
    if k == "tuple":
        return k, tuple(_value(rng, depth + 1)[1] for _ in range(int(rng.integers(0, 3))))
    if k == "numpy":
        return k, rng.normal(size=tuple(int(x) for x in rng.integers(0, 3, int(rng.integers(0, 3)))))
    if k == "jax":
        return k, jnp.asarray(rng.normal(size=int(rng.integers(1, 4))))
    if k == "leafy":
        return k, C["Leafy"](value=float(rng.normal()), tag=str(rng.choice(["t", "u"])), pair=(int(rng.integers(9)), 1))
    return k, _node(rng, depth + 1)


def _node(rng, depth=0):
    C = _classes()
    shared_list = [1, [2, 3], {"a": [4, 5]}]
    shared_leaf = C["Leafy"](value=1.0)

    def items():
        out = [_value(rng, depth + 1)[1] for _ in range(int(rng.integers(0, 5)))]
        if rng.random() < 0.4:
            out.append(shared_list)
        if rng.random() < 0.4:
            out += [shared_leaf, shared_leaf]
        return out

    def table():
        ks = rng.permutation(len(KEYS))[: int(rng.integers(0, 6))]
        d = {KEYS[i]: _value(rng, depth + 1)[1] for i in ks}
        if rng.random() < 0.4:
            d["shared"] = shared_list
        return d

    child = _node(rng, depth + 1) if depth < 3 and rng.random() < 0.6 else (shared_leaf if rng.random() < 0.5 else None)
    return C["Node"](
        name=str(rng.choice(["n", "m", ""])),
        items=items(),
        table=table(),
        arr=_value(rng, 3, kind=str(rng.choice(["numpy", "jax", "none"])))[1],
        fz=tuple(_value(rng, 3)[1] for _ in range(int(rng.integers(0, 3)))),
        fzlist=items() if rng.random() < 0.7 else None,
        fzdict=table() if rng.random() < 0.7 else None,
        child=child,
        other=child if rng.random() < 0.3 else (shared_list if rng.random() < 0.3 else None),
    )


# ------------------------------------------------------------------------------------------------
# random paths over a live object
# ------------------------------------------------------------------------------------------------
def _legal_key(k):
    return isinstance(k, str) and "'" not in k and "[" not in k and "]" not in k


def _steps(obj):
    """Possible next steps from a live object: list of (kind, arg, child)."""
    import pytreeclass as tc

    out = []
    if isinstance(obj, tc.TreeClass):
        for name in vars(obj):
            if name.isidentifier():
                try:
                    out.append(("attr", name, getattr(obj, name)))
                except Exception:  # noqa: BLE001
                    pass
    elif isinstance(obj, list):
        for i in range(len(obj)):
            out.append(("idx", i, obj[i]))
    elif isinstance(obj, dict):
        for k, v in obj.items():
            if _legal_key(k):
                out.append(("key", k, v))
    return out


def _fmt(rng, kind, arg, n=None):
    if kind == "attr":
        return arg
    if kind == "idx":
        if n is not None and rng.random() < 0.4:
            arg = arg - n  # negative spelling of the same element
        return f"[ {arg} ]" if rng.random() < 0.2 else f"[{arg}]"
    return f"[ '{arg}' ]" if rng.random() < 0.2 else f"['{arg}']"


def _random_path(rng, root, max_len=5):
    """Returns (path string, op kinds, parent of the last step, last step) or None when the root has no steps."""
    cur = root
    parts, kinds = [], []
    L = int(rng.integers(1, max_len + 1))
    parent = None
    last = None
    for i in range(L):
        st = _steps(cur)
        if not st:
            break
        if i < L - 1 and rng.random() < 0.8:
            deeper = [x for x in st if _steps(x[2])]  # prefer steps that can be continued, for long chains
            st = deeper or st
        kind, arg, child = st[int(rng.integers(len(st)))]
        parts.append(_fmt(rng, kind, arg, len(cur) if kind == "idx" else None))
        kinds.append(kind)
        parent, last = cur, (kind, arg)
        cur = child
    if not parts:
        return None
    return "->".join(parts), tuple(kinds), parent, last, cur


def _judge_update(r, root, root_kind, path, val, vkind, create, kinds, note=""):
    """Calls the real aset and judges it with the model.  Returns the result object or None."""
    from vf.oracles import aset_contracts as ac

    before = ac.snap(root)
    vs = ac.snap(val)
    wit = {"root": root_kind, "path": path, "value_kind": vkind, "value": ac._short(val), "create_new_ok": create, "note": note}
    try:
        model_ops = ac.parse_path(path)
        want_ok = True
        try:
            ac.expected(before, model_ops, vs, create)
        except ac.Unjudgeable:
            want_ok = None
        except (KeyError, IndexError, TypeError):
            want_ok = False
    except ValueError:
        want_ok = False
    try:
        res = root.aset(path, val, create_new_ok=create) if create else (root.aset(path, val) if len(path) % 2 else root.aset(path, val, False))
    except ac.AsetContractError as e:
        r.count("updates_judged")
        r.violate(f"contract: {e}", wit, mechanism=e.mechanism, sig=(root_kind, kinds[-4:], vkind, "create" if create else "set", note))
        return None
    except Exception as e:  # noqa: BLE001  (documented rejections raise a bare Exception)
        after = ac.snap(root)
        if after != before:
            r.violate("a rejected update mutated its input: " + str(ac.first_difference(before, after)), wit, mechanism="aset-mutates-input")
            return None
        if want_ok and ac.has_converter(root, path):
            r.branch("value_rejected_by_field_validator")  # e.g. Material tensors accept only scalars / 3- / 9-tuples
            r.ok(None)
            return None
        if want_ok:
            r.violate(f"a valid update was rejected with {type(e).__name__}: {str(e)[:200]}", wit, mechanism="aset-rejects-valid-path")
            return None
        r.count("rejections_judged")
        r.ok(("reject", root_kind, note or "invalid", kinds[-3:]))
        r.branch(f"rejected:{type(e).__name__}")
        return None
    after = ac.snap(root)
    v, detail, mech = ac.judge(before, after, type(res), type(root), ac.snap(res), path, vs, create, ac.has_converter(root, path))
    if v is None:
        r.branch("unjudgeable")
        if after != before:
            r.violate("update mutated its input: " + str(ac.first_difference(before, after)), wit, mechanism="aset-mutates-input")
        return res
    r.count("updates_judged")
    sig = (root_kind, kinds[-4:], vkind, "create" if create else "set", note)
    if v:
        r.ok(sig)
        r.branch("len%d" % min(len(kinds), 5))
        if detail == "converted":
            r.branch("value_converted_by_field")
        if detail == "dict_order":
            r.branch("dict_key_order_changed_elsewhere")
    else:
        r.violate(detail, wit, mechanism=mech, sig=sig)
    return res


def _invalid_updates(r, rng, root, root_kind):
    """Paths that must be rejected; the input must stay untouched."""
    got = _random_path(rng, root, 3)
    prefix = ""
    parent = root
    if got is not None and rng.random() < 0.7:
        path, kinds, _, _, cur = got
        import pytreeclass as tc

        if isinstance(cur, (tc.TreeClass, list, dict, tuple)):
            prefix, parent = path + "->", cur
    import pytreeclass as tc

    cands = []
    if isinstance(parent, tc.TreeClass):
        cands += [("missing_attr", prefix + "no_such_attr", False), ("missing_attr_mid", prefix + "no_such_attr->x", True)]
    if isinstance(parent, list):
        cands += [("index_out_of_range", prefix + f"[{len(parent)}]", True), ("index_out_of_range", prefix + f"[{-len(parent) - 1}]", False)]
    if isinstance(parent, dict):
        cands += [("missing_key", prefix + "['no such key']", False), ("missing_key_mid", prefix + "['no such key']->[0]", True)]
    if isinstance(parent, tuple) and len(parent):
        cands += [("tuple_index", prefix + "[0]", False)]
    cands += [("malformed", prefix + bad, False) for bad in ("", "->", "a-->b", "[x]", "[1", "['a'b']", "1abc", "a->", "a.b")][:: int(rng.integers(1, 4))]
    for note, p, create in cands:
        if note == "malformed" and p == "" and prefix:
            continue
        _judge_update(r, root, root_kind, p, 1, "int", create, ("invalid",), note=note)


def _update_batch(r, rng, root, root_kind, n):
    import pytreeclass as tc

    for _ in range(n):
        got = _random_path(rng, root)
        if got is None:
            return
        path, kinds, parent, last, cur = got
        vkind, val = _value(rng)
        create = False
        note = ""
        u = rng.random()
        if u < 0.15 and isinstance(cur, (tc.TreeClass, dict)):
            # extend the path by a brand-new attribute / key: needs create_new_ok
            if isinstance(cur, tc.TreeClass):
                path, kinds, note = path + "->fresh_attr", kinds + ("attr",), "new_attr"
            else:
                path, kinds, note = path + "->['fresh key']", kinds + ("key",), "new_key"
            create = True
        elif u < 0.25:
            create = True  # create_new_ok on an existing path must behave like a plain set
            note = "create_flag_on_existing"
        res = _judge_update(r, root, root_kind, path, val, vkind, create, kinds, note)
        if res is not None and rng.random() < 0.3:
            root = res  # chain updates: the result is a fully fledged object of the same type
            r.branch("chained")
    _invalid_updates(r, rng, root, root_kind)


def _synthetic(case, r, rng):
    for i in range(case["roots"]):
        root = _node(rng)
        _update_batch(r, rng, root, "Node", case["updates"])
    r.sample = {"root": "synthetic Node tree", "example_path": _random_path(rng, _node(rng))[0]}


# ------------------------------------------------------------------------------------------------
# real fdtdx objects
# ------------------------------------------------------------------------------------------------
def _real_roots(rng):
    import numpy as np

    from vf import bootstrap

    fdtdx = bootstrap.ensure()
    import jax.numpy as jnp

    roots = []
    rec = fdtdx.Recorder(modules=[fdtdx.LinearReconstructEveryK(k=2), fdtdx.DtypeConversion(dtype=jnp.float32), fdtdx.LinearReconstructEveryK(k=3)])
    roots.append(("SimulationConfig+recorder", fdtdx.SimulationConfig(
        time=1e-13, grid=fdtdx.UniformGrid(spacing=25e-9), backend="cpu", dtype=jnp.float64,
        gradient_config=fdtdx.GradientConfig(method="reversible", recorder=rec, num_checkpoints_reversible=1))))
    roots.append(("SimulationConfig+rect", fdtdx.SimulationConfig(
        time=1e-13, grid=fdtdx.RectilinearGrid.uniform((4, 6, 2), 25e-9), backend="cpu", symmetry=(0, -1, 1),
        gradient_config=fdtdx.GradientConfig(method="checkpointed", num_checkpoints=3))))
    e = np.cumsum(np.concatenate([[0.0], rng.uniform(1, 2, 5)])) * 1e-8
    roots.append(("RectilinearGrid", fdtdx.RectilinearGrid(x_edges=e, y_edges=e[:4], z_edges=e[:3])))
    roots.append(("QuasiUniformGrid", fdtdx.QuasiUniformGrid(dx=1e-8, dy=2e-8, dz=3e-8)))
    roots.append(("Material", fdtdx.Material(permittivity=(2.0, 3.0, 4.0), electric_conductivity=0.5)))
    mats = {"air": fdtdx.Material(permittivity=1.0), "si": fdtdx.Material(permittivity=12.25), "x y": fdtdx.Material(permittivity=2.0)}
    roots.append(("Device", fdtdx.Device(
        name="dev", partial_grid_shape=(4, 4, 2), materials=mats,
        param_transforms=[fdtdx.StandardToInversePermittivityRange(), fdtdx.ClosestIndex()], partial_voxel_grid_shape=(1, 1, 1))))
    roots.append(("Sphere", fdtdx.Sphere(name="sph", radius=1e-7, materials=mats, material_name="si")))
    roots.append(("Recorder", rec))
    roots.append(("PhasorDetector", fdtdx.PhasorDetector(
        name="ph", partial_grid_shape=(2, 2, 1), wave_characters=(fdtdx.WaveCharacter(wavelength=1e-6), fdtdx.WaveCharacter(frequency=2e14)))))
    roots.append(("OnOffSwitch", fdtdx.OnOffSwitch(start_time=1e-15, interval=3)))
    return roots


def _real_objects(case, r, rng):
    roots = _real_roots(rng)
    per = max(4, case["updates"] // len(roots))
    for kind, root in roots:
        _update_batch(r, rng, root, kind, per)
        r.branch(f"root:{kind}")
    r.sample = {"roots": [k for k, _ in roots]}


# ------------------------------------------------------------------------------------------------
# placed scenes: generated updates on the containers + contract over the library's own calls
# ------------------------------------------------------------------------------------------------
def _placed(case, r, rng):
    from vf import scenes
    from vf.oracles import aset_contracts as ac

    shape = [int(rng.integers(6, 9)) for _ in range(3)]
    sc = scenes.default_scene(shape=shape, steps=3)
    v = case["variant"] % 3
    if v == 0:
        sc["faces"]["min_x"] = {"type": "pml", "thickness": 2}
        sc["faces"]["max_x"] = {"type": "pml", "thickness": 2}
    elif v == 1:
        for a in "yz":
            sc["faces"][f"min_{a}"] = {"type": "periodic"}
            sc["faces"][f"max_{a}"] = {"type": "periodic"}
        sc["gradient"] = {"method": "reversible", "num_ckpt_rev": 0}
    else:
        sc["grid"] = {"kind": "rect_uniform", "spacing": 50e-9}
        sc["faces"]["min_z"] = {"type": "pec"}
    sc["materials"] = [{"lo": [2, 2, 2], "hi": [4, 4, 4], "mat": {"eps": [2.0, 3.0, 4.0]}}]
    sc["devices"] = [{"lo": [3, 3, 3], "hi": [5, 5, 5], "materials": {"air": {"eps": 1.0}, "si": {"eps": 4.0}},
                      "transforms": [{"kind": "StandardToInversePermittivityRange"}, {"kind": "ClosestIndex"}]}]
    sc["sources"] = [{"kind": "dipole", "lo": [3, 3, 2], "polarization": 2, "wavelength": 1e-6}]
    sc["detectors"] = [{"kind": "field", "lo": [2, 2, 2], "hi": [4, 4, 4]}, {"kind": "energy", "lo": [2, 2, 2], "hi": [5, 5, 5], "reduce": True},
                       {"kind": "phasor", "lo": [2, 2, 3], "hi": [5, 5, 4], "wavelengths": [1e-6]}]
    c0 = ac.COUNTS.get("aset", 0)
    built = scenes.build(sc)
    c1 = ac.COUNTS.get("aset", 0)
    st = scenes.run(built, jit=False)
    c2 = ac.COUNTS.get("aset", 0)
    scenes.run(built, jit=True)
    c3 = ac.COUNTS.get("aset", 0)
    r.count("contract_evals_in_real_workload", c3 - c0)
    r.ok(("contract", "place+apply", v), n=max(1, c1 - c0))
    r.ok(("contract", "run_eager", v), n=max(1, c2 - c1))
    r.ok(("contract", "run_jit", v), n=max(1, c3 - c2))
    r.branch("contract:place+apply", c1 - c0)
    r.branch("contract:run_eager", c2 - c1)
    r.branch("contract:run_jit", c3 - c2)
    roots = [("ObjectContainer", built["objects"]), ("ArrayContainer", st[1]), ("placed SimulationConfig", built["config"]),
             ("placed Device", built["objects"].devices[0]), ("placed detector", built["objects"].detectors[0])]
    per = max(4, case["updates"] // len(roots))
    for kind, root in roots:
        _update_batch(r, rng, root, kind, per)
        r.branch(f"root:{kind}")
    r.sample = {"scene_shape": shape, "contract_evaluations": {"place+apply": c1 - c0, "run_eager": c2 - c1, "run_jit": c3 - c2}}

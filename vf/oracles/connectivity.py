"""Face-adjacency (6-neighbourhood) connectivity oracles on 3-D boolean grids, numpy / pure python only.

Written from the definition: a cell belongs to the component of a seed set iff there is a path of
face-adjacent cells of the mask from it to a seed cell that lies in the mask.
"""

from __future__ import annotations

from collections import deque

import numpy as np


def _neighbours_or(f: np.ndarray) -> np.ndarray:
    """Union of the six unit shifts of a 3-D boolean array (no wrap-around)."""
    out = np.zeros_like(f)
    out[1:, :, :] |= f[:-1, :, :]
    out[:-1, :, :] |= f[1:, :, :]
    out[:, 1:, :] |= f[:, :-1, :]
    out[:, :-1, :] |= f[:, 1:, :]
    out[:, :, 1:] |= f[:, :, :-1]
    out[:, :, :-1] |= f[:, :, 1:]
    return out


def bfs_distance(mask: np.ndarray, seed: np.ndarray) -> np.ndarray:
    """Level-synchronous BFS.  Returns int array: graph distance (number of face steps inside `mask`)
    from the nearest cell of `seed & mask`; -1 for cells of the mask that are unreachable and for
    cells outside the mask."""
    mask = np.asarray(mask, bool)
    dist = np.full(mask.shape, -1, dtype=np.int64)
    frontier = np.asarray(seed, bool) & mask
    d = 0
    while frontier.any():
        dist[frontier] = d
        frontier = _neighbours_or(frontier) & mask & (dist < 0)
        d += 1
    return dist


def bfs_component_py(mask: np.ndarray, seed: np.ndarray) -> np.ndarray:
    """Independent pure-python queue BFS (used to cross-check `bfs_distance` on small grids)."""
    mask = np.asarray(mask, bool)
    nx, ny, nz = mask.shape
    seen = np.zeros(mask.shape, bool)
    q = deque()
    for idx in zip(*np.nonzero(np.asarray(seed, bool) & mask)):
        seen[idx] = True
        q.append(idx)
    while q:
        x, y, z = q.popleft()
        for dx, dy, dz in ((1, 0, 0), (-1, 0, 0), (0, 1, 0), (0, -1, 0), (0, 0, 1), (0, 0, -1)):
            a, b, c = x + dx, y + dy, z + dz
            if 0 <= a < nx and 0 <= b < ny and 0 <= c < nz and mask[a, b, c] and not seen[a, b, c]:
                seen[a, b, c] = True
                q.append((a, b, c))
    return seen


def bottom_seed(shape) -> np.ndarray:
    s = np.zeros(shape, bool)
    s[:, :, 0] = True
    return s


def sides_top_seed(shape) -> np.ndarray:
    s = np.zeros(shape, bool)
    s[0, :, :] = True
    s[-1, :, :] = True
    s[:, 0, :] = True
    s[:, -1, :] = True
    s[:, :, -1] = True
    return s

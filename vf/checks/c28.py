"""C28 — static materials are painted by placement order.

Monitor: real `place_objects` on seeded scenes of overlapping boxes (UniformMaterialObject), spheres/ellipsoids
and cylinders with random placement orders (ties, negatives) and materials of every tier (isotropic, diagonal,
full tensor; magnetic; electrically / magnetically conductive).  Oracle: an independent numpy painter — objects
sorted by (placement_order, position in the user's list), volume first, masks from analytic geometry (box;
ellipsoid / disc by cell-centre inclusion), per cell 1/eps, 1/mu (matrix inverse for full tensors) and
sigma x (c dt / courant); component count = widest tier any material in the scene needs; a scene without
magnetic material stores a scalar 1.0; without conductive material no conductivity array.
"""

from __future__ import annotations

PROPERTY = "C28"
RULE = (
    "seeded scenes (a case = one domain + a pool of object shapes, re-used with new positions/orders/materials): 0-7 static objects (box/sphere/cylinder) with random boxes (size-1 axes, full-domain, nested, "
    "identical), placement orders from a small set (ties frequent), list order shuffled, per-property tier targets "
    "(1/3/9 components, non-magnetic, non-conductive); an evaluation = one material array of one scene compared "
    "cell by cell; distinct = (tier signature, object kinds, has order ties among overlapping objects, grid kind)"
)
REQUIRED_COUNTERS = ["comparisons", "cells_compared", "overlap_cells_with_order_tie", "tier_checks"]
ASSUMPTIONS = [
    "sphere/cylinder cells whose centre lies within 1e-9 (relative) of the analytic surface are excluded and counted",
    "placement orders are > the volume's default (-1000); materials within one scene differ by >= 1% so that "
    "math.isclose-based tier classification has no ties",
    "spheres and cylinders are driven on uniform grids only; boxes also on stretched rectilinear grids",
    "sub-pixel smoothing is off (the statement describes the binary painter)",
]
CASE_TIMEOUT = {"quick": 600, "thorough": 1800}


def cases(tier, rng):
    n_cases = 12 if tier == "quick" else 160
    per = 10 if tier == "quick" else 30
    return [{"kind": "scenes", "n": per, "gen_seed": int(rng.integers(1 << 30)), "idx": i} for i in range(n_cases)]


# ------------------------------------------------------------------------------------------------
# generation (pure numpy / python)
# ------------------------------------------------------------------------------------------------
def _spd(rng, lo, hi):
    """Random symmetric positive definite 3x3 with eigenvalues in [lo, hi] and visible off-diagonals."""
    import numpy as np

    q, _ = np.linalg.qr(rng.normal(size=(3, 3)))
    ev = rng.uniform(lo, hi, size=3)
    m = q @ np.diag(ev) @ q.T
    m = 0.5 * (m + m.T)
    return [[float(x) for x in row] for row in m]


def _prop(rng, tier, lo, hi, base=None):
    """tier: 0 -> `base` (neutral value), 1 isotropic, 3 diagonal, 9 full."""
    if tier == 0:
        return base
    if tier == 1:
        return float(rng.uniform(lo, hi))
    if tier == 3:
        v = sorted(rng.uniform(lo, hi, size=3))
        # make sure the three differ by > 1 %
        return [float(v[0]), float(v[1] * 1.05 + 0.02 * hi), float(v[2] * 1.1 + 0.05 * hi)]
    return _spd(rng, lo, hi)


# tier combinations (eps, mu, sigma_e, sigma_m) in which one property needs a wider array than the others: the
# allocation of each array must follow its OWN widest tier.  Walked cyclically over the cases of a run, on a domain
# that admits spheres and cylinders, next to the fully random pools.
TIER_GRID = [
    (1, 0, 0, 3), (1, 3, 0, 0), (1, 0, 3, 0), (3, 0, 0, 0), (1, 0, 1, 3), (1, 1, 3, 1), (1, 9, 0, 0), (1, 0, 0, 9),
    (1, 0, 9, 1), (3, 1, 1, 9), (9, 1, 0, 3), (1, 3, 1, 0), (3, 9, 3, 1), (1, 1, 1, 3), (1, 0, 3, 9), (9, 0, 0, 0),
]


def gen_pool(rng, forced_tiers=None):
    """Per-case pool: one domain, a few object shapes and the tier targets.  Scenes of a case re-use the pool with
    new positions / orders / materials / list orders (keeps the number of distinct XLA programs small)."""
    import numpy as np

    t_eps = int(rng.choice([1, 1, 3, 9]))
    t_mu = int(rng.choice([0, 0, 1, 3, 9]))
    t_se = int(rng.choice([0, 0, 1, 3, 9]))
    t_sm = int(rng.choice([0, 0, 0, 1, 3, 9]))
    grid_kind = "uniform" if rng.random() < 0.7 else "rect"
    dims = []
    for a in range(3):
        c = rng.random()
        dims.append(1 if c < 0.08 else (2 if c < 0.16 else int(rng.integers(3, 10))))
    spacing = float(rng.choice([20e-9, 50e-9, 73e-9]))
    if forced_tiers is not None:
        t_eps, t_mu, t_se, t_sm = forced_tiers
        grid_kind = "uniform"
        dims = [max(d, 4) for d in dims]
    pool = {"shape": dims, "spacing": spacing, "grid_kind": grid_kind, "tiers": [t_eps, t_mu, t_se, t_sm], "forced": forced_tiers is not None}
    if grid_kind == "rect":
        edges = []
        for a in range(3):
            w = spacing * rng.uniform(0.6, 1.7, size=dims[a])
            edges.append([0.0] + [float(x) for x in np.cumsum(w)])
        pool["edges"] = edges
    boxes = [list(dims), [1, 1, 1]]
    for _ in range(3):
        boxes.append([int(rng.integers(1, dims[a] + 1)) for a in range(3)])
    pool["box_shapes"] = boxes
    pool["sphere"] = None
    pool["cylinder"] = None
    if grid_kind == "uniform" and min(dims) >= 3:
        diam = [int(rng.integers(2, dims[a] + 1)) for a in range(3)]
        if rng.random() < 0.5:
            diam = [min(diam)] * 3
        pool["sphere"] = {"diam": diam, "fudge": float(rng.choice([1.0, 0.97, 1.03]))}
        ax = int(rng.integers(3))
        tr = [a for a in range(3) if a != ax]
        d = int(rng.integers(2, min(dims[tr[0]], dims[tr[1]]) + 1))
        pool["cylinder"] = {"axis": ax, "d": d, "length": int(rng.integers(1, dims[ax] + 1)), "fudge": float(rng.choice([1.0, 0.97, 1.03]))}
    return pool


def gen_scene(rng, pool=None):
    if pool is None:
        pool = gen_pool(rng)
    t_eps, t_mu, t_se, t_sm = pool["tiers"]
    dims, spacing, grid_kind = pool["shape"], pool["spacing"], pool["grid_kind"]
    scene = {"shape": dims, "spacing": spacing, "grid_kind": grid_kind, "tiers": pool["tiers"]}
    if grid_kind == "rect":
        scene["edges"] = pool["edges"]

    def material(force=None):
        """Random material whose tiers do not exceed the scene targets; `force` = index of the property that must
        reach its target tier."""
        tiers = []
        for j, t in enumerate((t_eps, t_mu, t_se, t_sm)):
            opts = [x for x in (0, 1, 3, 9) if x <= t]
            if j == 0:
                opts = [x for x in opts if x >= 1]
            tiers.append(t if (force == j or force == "all") else int(rng.choice(opts)))
        m = {"eps": _prop(rng, tiers[0], 1.0, 12.0)}
        mu = _prop(rng, tiers[1], 1.2, 4.0)
        if mu is not None:
            m["mu"] = mu
        se = _prop(rng, tiers[2], 1e3, 1e5)
        if se is not None:
            m["sig_e"] = se
        sm = _prop(rng, tiers[3], 1e3, 1e5)
        if sm is not None:
            m["sig_m"] = sm
        return m

    scene["volume"] = material() if rng.random() < 0.6 else {"eps": 1.0}
    k = int(rng.choice([0, 1, 2, 3, 4, 5, 6, 7]))
    if pool.get("forced"):
        k = max(k, 2)
    orders_pool = [int(x) for x in rng.choice([-5, 0, 0, 1, 1, 2, 7], size=3)]
    objs = []
    for i in range(k):
        kind = "box"
        if pool["sphere"] is not None and rng.random() < 0.45:
            kind = "sphere" if rng.random() < 0.5 else "cylinder"
        if pool.get("forced") and pool["sphere"] is not None and i < 2:
            kind = ("sphere", "cylinder")[i]  # in the tier-grid pools a sphere and a cylinder reach every target tier
        o = {"name": f"s{i}", "kind": kind, "order": int(rng.choice(orders_pool)), "mat": material(force="all" if (pool.get("forced") and i < 2) else (i % 4 if i < 4 else None))}
        if kind == "box":
            if rng.random() < 0.2 and objs and objs[-1]["kind"] == "box":
                lo, hi = list(objs[-1]["lo"]), list(objs[-1]["hi"])  # identical box (order tie hostile class)
            else:
                sh = pool["box_shapes"][int(rng.integers(len(pool["box_shapes"])))]
                lo = [int(rng.integers(0, dims[a] - sh[a] + 1)) for a in range(3)]
                hi = [lo[a] + sh[a] for a in range(3)]
            o["lo"], o["hi"] = lo, hi
        elif kind == "sphere":
            diam, fudge = pool["sphere"]["diam"], pool["sphere"]["fudge"]
            o["radii"] = [0.5 * d * spacing * fudge for d in diam]
            o["lo"] = [int(rng.integers(0, dims[a] - diam[a] + 1)) for a in range(3)]
            o["hi"] = [o["lo"][a] + diam[a] for a in range(3)]
            o["materials"] = {"m0": material(), "core": o["mat"], "zz": material()}
            o["material_name"] = "core"
        else:
            cy = pool["cylinder"]
            ax, d = cy["axis"], cy["d"]
            o["axis"] = ax
            o["radius"] = 0.5 * d * spacing * cy["fudge"]
            lo, hi = [0, 0, 0], [0, 0, 0]
            for a in range(3):
                size = cy["length"] if a == ax else d
                lo[a] = int(rng.integers(0, dims[a] - size + 1))
                hi[a] = lo[a] + size
            o["lo"], o["hi"] = lo, hi
            o["materials"] = {"clad": material(), "core": o["mat"]}
            o["material_name"] = "core"
        objs.append(o)
    # a device only widens the tiers (it paints nothing at placement time)
    scene["device"] = None
    if rng.random() < 0.2:
        sh = pool["box_shapes"][2]
        lo = [int(rng.integers(0, dims[a] - sh[a] + 1)) for a in range(3)]
        scene["device"] = {
            "lo": lo,
            "hi": [lo[a] + sh[a] for a in range(3)],
            "materials": {"a": material(force=0), "b": material(force=1 if t_mu else 0)},
        }
    perm = [int(x) for x in rng.permutation(k)]
    scene["objects"] = [objs[i] for i in perm]
    return scene


# ------------------------------------------------------------------------------------------------
# oracle (numpy)
# ------------------------------------------------------------------------------------------------
def _as9(v, neutral):
    import numpy as np

    if v is None:
        v = neutral
    a = np.asarray(v, dtype=float)
    if a.ndim == 0:
        return np.diag([float(a)] * 3)
    if a.shape == (3,):
        return np.diag(a)
    return a.reshape(3, 3)


def _tier_of(m3, neutral):
    """0 if equal to the neutral scalar, else 1 / 3 / 9 = narrowest representation."""
    import numpy as np

    off = m3 - np.diag(np.diag(m3))
    if np.any(off != 0):
        return 9
    d = np.diag(m3)
    if not (d[0] == d[1] == d[2]):
        return 3
    return 0 if d[0] == neutral else 1


def _all_materials(scene):
    out = [scene["volume"]]
    for o in scene["objects"]:
        if o["kind"] == "box":
            out.append(o["mat"])
        else:
            out.extend(o["materials"].values())
    if scene["device"]:
        out.extend(scene["device"]["materials"].values())
    return out


def _mask(scene, o):
    """(mask, uncertain) boolean arrays over the whole domain from analytic geometry."""
    import numpy as np

    dims = scene["shape"]
    box = np.zeros(dims, bool)
    sl = tuple(slice(o["lo"][a], o["hi"][a]) for a in range(3))
    box[sl] = True
    if o["kind"] == "box":
        return box, np.zeros(dims, bool)
    s = scene["spacing"]
    # cell centres relative to the box centre
    rel = []
    for a in range(3):
        c = (np.arange(dims[a]) + 0.5) * s
        mid = 0.5 * (o["lo"][a] + o["hi"][a]) * s
        rel.append(c - mid)
    X, Y, Z = np.meshgrid(*rel, indexing="ij")
    if o["kind"] == "sphere":
        q = (X / o["radii"][0]) ** 2 + (Y / o["radii"][1]) ** 2 + (Z / o["radii"][2]) ** 2
    else:
        g = [X, Y, Z]
        tr = [a for a in range(3) if a != o["axis"]]
        q = (g[tr[0]] / o["radius"]) ** 2 + (g[tr[1]] / o["radius"]) ** 2
    inside = (q < 1.0) & box
    uncertain = (np.abs(q - 1.0) < 1e-9) & box
    return inside, uncertain


def oracle(scene, sigma_scale):
    import numpy as np

    dims = scene["shape"]
    mats = _all_materials(scene)
    neutral = {"eps": None, "mu": 1.0, "sig_e": 0.0, "sig_m": 0.0}
    tiers = {}
    for key in ("eps", "mu", "sig_e", "sig_m"):
        ts = [_tier_of(_as9(m.get(key), 1.0 if key in ("eps", "mu") else 0.0), neutral[key]) for m in mats]
        tiers[key] = max(ts)
    tiers["eps"] = max(tiers["eps"], 1)
    order = sorted(range(len(scene["objects"])), key=lambda i: (scene["objects"][i]["order"], i))
    painted = [("volume", scene["volume"], np.ones(dims, bool), np.zeros(dims, bool), -1000)]
    for i in order:
        o = scene["objects"][i]
        m, u = _mask(scene, o)
        painted.append((o["name"], o["mat"], m, u, o["order"]))
    full = {k: np.zeros((3, 3, *dims)) for k in ("eps", "mu", "sig_e", "sig_m")}
    uncertain = np.zeros(dims, bool)
    top_order = np.full(dims, -10**9)
    tie = np.zeros(dims, bool)
    for name, mat, m, u, od in painted:
        uncertain |= u
        tie = np.where(m, top_order == od, tie)
        top_order = np.where(m, od, top_order)
        for k in full:
            t = _as9(mat.get(k), 1.0 if k in ("eps", "mu") else 0.0)
            full[k][:, :, m] = t[:, :, None]
    exp = {}
    for k, scale, invert in (("eps", 1.0, True), ("mu", 1.0, True), ("sig_e", sigma_scale, False), ("sig_m", sigma_scale, False)):
        t = tiers[k]
        if t == 0:
            exp[k] = None
            continue
        A = np.moveaxis(full[k], (0, 1), (-2, -1))  # (*dims,3,3)
        if invert:
            A = np.linalg.inv(A)
        else:
            A = A * scale
        if t == 1:
            exp[k] = A[..., 0, 0][None]
        elif t == 3:
            exp[k] = np.stack([A[..., 0, 0], A[..., 1, 1], A[..., 2, 2]], axis=0)
        else:
            exp[k] = np.moveaxis(A.reshape(*dims, 9), -1, 0)
    return exp, tiers, uncertain, tie


# ------------------------------------------------------------------------------------------------
def run_case(case):
    import numpy as np

    from vf.result import Res

    r = Res()
    rng = np.random.default_rng(case["gen_seed"])
    # every second case takes its tier targets from the systematic grid
    forced = TIER_GRID[(case.get("idx", 0) // 2) % len(TIER_GRID)] if case.get("idx", 0) % 2 == 1 else None
    pool = gen_pool(rng, forced)
    for j in range(case["n"]):
        scene = gen_scene(rng, pool)
        _judge(scene, r, {"gen_seed": case["gen_seed"], "scene_index": j})
    return r.to_dict()


def _judge(scene, r, where):
    import numpy as np

    from vf import bootstrap, scenes

    fdtdx = bootstrap.ensure()
    s = scenes.default_scene(shape=scene["shape"], steps=2, spacing=scene["spacing"])
    if scene["grid_kind"] == "rect":
        s["grid"] = {"kind": "rect", "edges": scene["edges"]}
    s["volume"] = scene["volume"]
    extra, cons = [], []
    for o in scene["objects"]:
        if o["kind"] == "box":
            obj = fdtdx.UniformMaterialObject(
                name=o["name"],
                partial_grid_shape=tuple(o["hi"][a] - o["lo"][a] for a in range(3)),
                material=scenes._mat(fdtdx, o["mat"]),
                placement_order=o["order"],
            )
        elif o["kind"] == "sphere":
            obj = fdtdx.Sphere(
                name=o["name"],
                radius=o["radii"][0],
                radius_x=o["radii"][0],
                radius_y=o["radii"][1],
                radius_z=o["radii"][2],
                materials={k: scenes._mat(fdtdx, v) for k, v in o["materials"].items()},
                material_name=o["material_name"],
                placement_order=o["order"],
            )
        else:
            pgs = [None, None, None]
            pgs[o["axis"]] = o["hi"][o["axis"]] - o["lo"][o["axis"]]
            obj = fdtdx.Cylinder(
                name=o["name"],
                radius=o["radius"],
                axis=o["axis"],
                partial_grid_shape=tuple(pgs),
                materials={k: scenes._mat(fdtdx, v) for k, v in o["materials"].items()},
                material_name=o["material_name"],
                placement_order=o["order"],
            )
        extra.append(obj)
        if scene["grid_kind"] == "rect":
            from fdtdx.objects.object import RealCoordinateConstraint

            cons.append(
                RealCoordinateConstraint(
                    object=o["name"], axes=(0, 1, 2), sides=("-", "-", "-"), coordinates=tuple(scene["edges"][a][o["lo"][a]] for a in range(3))
                )
            )
        else:
            cons.append(obj.set_grid_coordinates(axes=(0, 1, 2), sides=("-", "-", "-"), coordinates=tuple(o["lo"])))
    if scene["device"]:
        d = scene["device"]
        dev = fdtdx.Device(
            name="dev0",
            partial_grid_shape=tuple(d["hi"][a] - d["lo"][a] for a in range(3)),
            materials={k: scenes._mat(fdtdx, v) for k, v in d["materials"].items()},
            param_transforms=[],
            partial_voxel_grid_shape=(1, 1, 1),
        )
        extra.append(dev)
        if scene["grid_kind"] == "rect":
            from fdtdx.objects.object import RealCoordinateConstraint

            cons.append(
                RealCoordinateConstraint(
                    object="dev0", axes=(0, 1, 2), sides=("-", "-", "-"), coordinates=tuple(scene["edges"][a][d["lo"][a]] for a in range(3))
                )
            )
        else:
            cons.append(dev.set_grid_coordinates(axes=(0, 1, 2), sides=("-", "-", "-"), coordinates=tuple(d["lo"])))
    wit = {**where, "scene": scene}
    import warnings

    with warnings.catch_warnings():
        warnings.simplefilter("ignore")
        built = scenes.build(s, extra_objects=extra, extra_constraints=cons, apply=False)
    arrays, objects, config = built["arrays"], built["objects"], built["config"]
    placed = {o.name: o for o in objects.object_list}
    for o in scene["objects"]:
        got = [[int(x) for x in ax] for ax in placed[o["name"]].grid_slice_tuple]
        want = [[o["lo"][a], o["hi"][a]] for a in range(3)]
        if got != want:
            # the rasterised extent of a sphere/cylinder is the library's choice (C26/C43); the painter is judged
            # on the box the object actually got
            if o["kind"] == "box":
                r.inconclusive(f"harness: box {o['name']} placed at {got}, wanted {want}")
                return
            o["lo"], o["hi"] = [g[0] for g in got], [g[1] for g in got]
            r.branch("shape_box_differs_from_request")
    if scene["grid_kind"] == "uniform":
        sigma_scale = scene["spacing"]
    else:
        sigma_scale = 299792458.0 * float(built["dt"]) * (3.0**0.5) / 0.99
    exp, tiers, uncertain, tie = oracle(scene, sigma_scale)
    kinds = "".join(sorted({o["kind"][0] for o in scene["objects"]})) or "-"
    tsig = f"eps{tiers['eps']}mu{tiers['mu']}se{tiers['sig_e']}sm{tiers['sig_m']}"
    sig = (tsig, kinds, bool(tie.any()), scene["grid_kind"], bool(scene["device"]))
    r.branch("tiers:" + tsig)
    r.branch("grid:" + scene["grid_kind"])
    for o in scene["objects"]:
        r.branch("object:" + o["kind"])
    if 1 in scene["shape"]:
        r.branch("size1_axis")
    if not scene["objects"]:
        r.branch("volume_only")
    r.count("overlap_cells_with_order_tie", int(tie.sum()))
    r.count("uncertain_cells_excluded", int(uncertain.sum()))
    got = {
        "eps": arrays.inv_permittivities,
        "mu": arrays.inv_permeabilities,
        "sig_e": arrays.electric_conductivity,
        "sig_m": arrays.magnetic_conductivity,
    }
    label = {"eps": "inverse permittivity", "mu": "inverse permeability", "sig_e": "electric conductivity", "sig_m": "magnetic conductivity"}
    keep = ~uncertain
    for k in ("eps", "mu", "sig_e", "sig_m"):
        g, e = got[k], exp[k]
        r.count("tier_checks")
        if e is None:
            if k == "mu":
                ok = (not hasattr(g, "ndim") or np.ndim(g) == 0) and float(np.asarray(g)) == 1.0
                if not ok:
                    r.violate(
                        "no magnetic material in the scene but inv_permeabilities is not the scalar 1.0",
                        {**wit, "got_shape": list(np.shape(g))},
                        sig=sig,
                    )
                else:
                    r.ok(sig)
            elif k == "eps":
                r.inconclusive("harness: eps tier 0")
            else:
                if g is not None:
                    r.violate(f"no material has {label[k]} but an array of shape {list(np.shape(g))} is stored", wit, sig=sig)
                else:
                    r.ok(sig)
            continue
        if g is None or np.ndim(g) == 0:
            r.violate(
                f"{label[k]}: scene needs a {e.shape[0]}-component array but {'None' if g is None else 'a scalar'} is stored",
                {**wit, "tiers": tiers},
                sig=sig,
            )
            continue
        g = np.asarray(g)
        if g.shape != e.shape:
            r.violate(
                f"{label[k]}: component count / shape {list(g.shape)} != expected {list(e.shape)} (widest tier any material needs = {e.shape[0]})",
                {**wit, "tiers": tiers},
                sig=sig,
            )
            continue
        r.count("cells_compared", int(keep.sum()))
        gm = np.where(keep[None], g, 0.0)
        em = np.where(keep[None], e, 0.0)
        r.check_close(
            k,
            gm,
            em,
            1e-9,
            what=f"{label[k]} is not that of the highest-placement-order object covering the cell (ties: later in the list wins)",
            witness=wit,
            sig=sig,
        )
    if r.sample is None and len(scene["objects"]) >= 2:
        r.sample = {
            "shape": scene["shape"],
            "tiers": tiers,
            "objects": [(o["name"], o["kind"], o["order"], o["lo"], o["hi"]) for o in scene["objects"]],
            "tie_cells": int(tie.sum()),
        }

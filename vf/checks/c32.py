"""C32 — symmetry unfolding is consistent (`fdtdx.unfold_fields`, `fdtdx.unfold_detector_states`).

(a) fields: every non-zero symmetry tuple (26) x E/H x seeded arrays (real/complex, size-1/2 axes): the result doubles
    each symmetric axis, its upper half is the input bit-for-bit, and the lower half equals an index-map oracle written
    from the docstrings (parity table of `field_component_parity`; electric plane: components sampled on the plane
    pair as m+-j and the outermost cell repeats its neighbour, everything else and every magnetic plane is a plain
    flip).
(b) detectors: scenes with `config.symmetry` placed by the real `place_objects` (which clips the detectors), run for a
    few steps, and additionally refilled with seeded random records: for every spatial detector (field / phasor /
    phasor-Poynting / energy / energy slices / Poynting scalar and vector, co-located and raw) the unfolded record keeps
    the stored half and mirrors it with the documented sign and index map; untouched detectors are unchanged;
(c) for every (spatial, volume-reduced) detector pair on the same box with no sample on a plane, the unfolded reduced
    value equals the reduction (mean / volume sum / area sum) of the unfolded spatial record.
"""

from __future__ import annotations

import itertools

PROPERTY = "C32"
RULE = (
    "fields: all 26 symmetry tuples x {E,H} x shapes with every axis in {1,2,3,5} x {float64, complex128}; detectors: "
    "symmetry tuples (quick: 5 fixed + 2 seeded per run, thorough: all 26) x detector kinds {field, phasor, "
    "phasor_poynting, energy, energy slices, poynting scalar/vector} x {co-located, raw} x component subsets x box "
    "classes per axis {symmetric straddle, asymmetric straddle, clipped to one cell, starts at plane, upper half only} "
    "x {recorded run, random refills}.  distinct = (tuple class, detector kind/mode, touched walls, box class)"
)
REQUIRED_COUNTERS = ["field_unfolds_judged", "detector_records_judged", "reduced_pairs_judged"]
ASSUMPTIONS = [
    "parity table (docstring of field_component_parity): PEC wall: normal E / tangential H even, tangential E / normal H "
    "odd; PMC wall the opposite; Poynting component parity = product of the two transverse field parities; energy even",
    "co-located detector samples (exact_interpolation) sit at the Ez Yee point, i.e. on an electric plane normal to x or y "
    "only; raw detectors and magnetic planes use the plain flip (docstring of _colocated_on_plane_axes)",
    "reduced-vs-spatial identity is judged only when no stored sample sits on a plane (magnetic walls, electric wall "
    "normal to z with co-located samples); uniform grid, so means are plain means and sums are weighted by s^3 / s^2",
    "for a kept axis of one cell on an electric plane the value of the single mirrored cell is not specified by the "
    "docstring; only the doubled shape and the kept half are required",
]
CASE_TIMEOUT = {"quick": 900, "thorough": 1800}

TUPLES = [t for t in itertools.product((-1, 0, 1), repeat=3) if any(t)]
QUICK_DET = [(-1, 0, 0), (0, 1, 0), (0, 0, -1), (1, 1, 1), (1, -1, -1)]


def EXHAUSTIVE(tier):
    return True  # part (a) walks all 26 tuples x E/H x component x axis completely in every run


def cases(tier, rng):
    q = tier == "quick"
    out = []
    nchunk = 4 if q else 13
    for i in range(nchunk):
        out.append({"kind": "fields", "tuples": [list(t) for t in TUPLES[i::nchunk]], "shapes": 0 if q else 15})
    if q:
        dets = list(QUICK_DET)
        extra = [t for t in TUPLES if t not in dets]
        dets += [extra[int(i)] for i in rng.permutation(len(extra))[:2]]  # two more tuples drawn from the run seed
        for t in dets:
            out.append({"kind": "detectors", "sym": list(t), "refills": 1})
    else:
        for rep in range(4):
            for t in TUPLES:
                out.append({"kind": "detectors", "sym": list(t), "refills": 4})
    return out


def _violate(r, what, witness=None, mechanism=None, sig=None):
    """Record at most two violations per mechanism key and case, so that a frequent (possibly already known)
    mechanism cannot crowd a different one out of the bounded violation list of `Res`."""
    k = f"violations[{mechanism}]"
    r.count(k)
    if r.counters[k] <= 2:
        r.violate(what, witness, mechanism, sig)
    else:
        r.evals += 1
        if sig is not None:
            r.sigs.add(sig if isinstance(sig, str) else repr(sig))



def run_case(case):
    import numpy as np

    from vf.result import Res

    r = Res()
    rng = np.random.default_rng(case["seed"])
    if case["kind"] == "fields":
        _fields(case, r, rng)
    else:
        _detectors(case, r, rng)
    return r.to_dict()


# ------------------------------------------------------------------------------------------------
# oracle (written from the docstrings; numpy, explicit index maps)
# ------------------------------------------------------------------------------------------------
def parity(ft, c, a, wall):
    normal = c == a
    if wall == -1:
        even = normal if ft == "E" else not normal
    else:
        even = (not normal) if ft == "E" else normal
    return 1 if even else -1


def sits_on_electric_plane(ft, c, a, wall):
    return wall == -1 and ((ft == "E" and c != a) or (ft == "H" and c == a))


def mirror_low(kept, axis, sign, on_plane):
    """Low-side block (ascending index) for kept samples along `axis`; sign broadcastable."""
    import numpy as np

    n = kept.shape[axis]
    src = []
    for i in range(n):
        if not on_plane:
            src.append(n - 1 - i)  # full index i <-> 2n-1-i
        else:
            src.append(n - i if i >= 1 else max(n - 1, 0))  # m-j <-> m+j (m = n); i = 0 repeats its neighbour i = 1
    src = [min(max(j, 0), n - 1) for j in src]
    return np.take(kept, src, axis=axis) * sign


def unfold_np(arr, sym, spatial_axes, sign_of, on_plane_of):
    """Generic: for each symmetric physical axis a: concat(mirror_low, arr) along spatial_axes[a]."""
    import numpy as np

    for a in range(3):
        if sym[a] == 0:
            continue
        arr = np.concatenate([mirror_low(arr, spatial_axes[a], sign_of(a), on_plane_of(a)), arr], axis=spatial_axes[a])
    return arr


def unfold_fields_oracle(F, sym, ft):
    import numpy as np

    comps = []
    for c in range(3):
        x = F[c : c + 1]
        x = unfold_np(x, sym, (1, 2, 3), lambda a: parity(ft, c, a, sym[a]), lambda a: sits_on_electric_plane(ft, c, a, sym[a]))
        comps.append(x)
    return np.concatenate(comps, axis=0)


# ------------------------------------------------------------------------------------------------
# (a) fields
# ------------------------------------------------------------------------------------------------
def _tuple_class(sym):
    return "".join({-1: "e", 0: "0", 1: "m"}[s] for s in sym)


FIELD_SHAPES = ((1, 2, 3), (3, 1, 2), (2, 3, 1), (2, 2, 2), (5, 3, 2), (1, 1, 1))


def _fields(case, r, rng):
    """Per tuple: fixed small family of shapes (singleton axis in every position, size-2 axes, 1x1x1) so that one jit
    compilation per (tuple, shape, dtype, field type) serves several seeded arrays; one eager call per tuple."""
    import jax
    import numpy as np

    from vf import bootstrap

    fdtdx = bootstrap.ensure()
    import jax.numpy as jnp

    jitted = jax.jit(fdtdx.unfold_fields, static_argnums=(1, 2))
    for ti, sym in enumerate([tuple(t) for t in case["tuples"]]):
        for si, shp in enumerate(FIELD_SHAPES):
            for ft in ("E", "H"):
                variants = [("random", False), ("ones", False)]
                if si in (0, 3):
                    variants.append(("random", True))
                if si == 3 and ft == ("E", "H")[ti % 2]:
                    variants.append(("eager", False))
                for rep in range(case["shapes"] // 5):
                    variants.append(("random", False))
                for vk, cplx in variants:
                    F = rng.normal(size=(3, *shp))
                    if cplx:
                        F = F + 1j * rng.normal(size=(3, *shp))
                    if vk == "ones":
                        F = np.ones_like(F)
                    _judge_field(r, fdtdx.unfold_fields if vk == "eager" else jitted, jnp, F, sym, ft, shp, cplx, vk, case)
        r.branch(f"tuple:{_tuple_class(sym)}")
    for ft in ("E", "H"):
        try:
            fdtdx.unfold_fields(jnp.zeros((3, 2, 2, 2)), (0, 0, 0), ft)
            _violate(r, "unfold_fields accepted symmetry (0,0,0) (documented ValueError)", {"field_type": ft})
        except ValueError:
            r.ok(None)
    r.sample = {"symmetry": case["tuples"][0], "shapes": [list(x) for x in FIELD_SHAPES]}


def _judge_field(r, fn, jnp, F, sym, ft, shp, cplx, vk, case):
    import numpy as np

    wit = {"symmetry": list(sym), "field_type": ft, "shape": list(shp), "complex": cplx, "field": _jl(F) if F.size <= 24 else None,
           "case_seed": case["seed"], "mode": vk}
    single_on_plane = any(sym[a] == -1 and shp[a] == 1 for a in range(3))
    sig = ("fields", _tuple_class(sym), ft, tuple(shp), "c" if cplx else "r", "eager" if vk == "eager" else "jit")
    r.count("field_unfolds_judged")
    try:
        got = np.asarray(fn(jnp.asarray(F), sym, ft))
    except Exception as e:  # noqa: BLE001
        _violate(r, 
            f"unfold_fields raised {type(e).__name__}: {str(e)[:200]}", wit, sig=sig,
            mechanism="unfold-electric-plane-kept-axis-of-one-cell" if single_on_plane else None,
        )
        return
    want_shape = (3, *[shp[a] * (2 if sym[a] else 1) for a in range(3)])
    if got.shape != want_shape:
        _violate(r, f"unfolded shape {got.shape} != {want_shape} (every symmetric axis doubled)", wit, sig=sig,
                  mechanism="unfold-electric-plane-kept-axis-of-one-cell" if single_on_plane else None)
        return
    idx = (slice(None),) + tuple(slice(shp[a], None) if sym[a] else slice(None) for a in range(3))
    if not np.array_equal(got[idx], F):
        _violate(r, "upper half of the unfolded field is not the input", wit, sig=sig, mechanism="unfold-upper-half-not-input")
        return
    if single_on_plane:
        r.ok(sig)
        r.branch("kept_axis_of_one_cell_on_electric_plane")
        return
    want = unfold_fields_oracle(F, sym, ft)
    if np.array_equal(got, want):
        r.ok(sig)
    else:
        bad = np.argwhere(got != want)[0]
        _violate(r, 
            "mirrored half violates the documented parity / index map",
            {**wit, "index": [int(x) for x in bad], "got": _c(got[tuple(bad)]), "want": _c(want[tuple(bad)])},
            sig=sig,
            mechanism=_field_mechanism(got, want, F, sym, ft, int(bad[0])),
        )


def _jl(F):
    import numpy as np

    return [F.real.tolist(), F.imag.tolist()] if np.iscomplexobj(F) else F.tolist()


def _field_mechanism(got, want, F, sym, ft, c):
    """sign error vs index-map error, per wall type, for component c (deterministic)."""
    import numpy as np

    walls = sorted({("electric" if s == -1 else "magnetic") for s in sym if s})
    w = "+".join(walls)
    if got.shape == want.shape and np.array_equal(np.abs(got), np.abs(want)):
        return f"unfold-fields-parity-{ft}-{w}"
    return f"unfold-fields-index-map-{ft}-{w}"


def _c(x):
    import numpy as np

    x = np.asarray(x)
    return [float(x.real), float(x.imag)] if np.iscomplexobj(x) else float(x)


# ------------------------------------------------------------------------------------------------
# (b), (c) detectors
# ------------------------------------------------------------------------------------------------
COMP = ("Ex", "Ey", "Ez", "Hx", "Hy", "Hz")


def _box(rng, shape, sym, cls_per_axis):
    lo, hi = [], []
    for a in range(3):
        n = shape[a]
        m = n // 2
        c = cls_per_axis[a]
        if sym[a] == 0 or c == "free":
            l = int(rng.integers(0, n - 1))
            h = int(rng.integers(l + 1, n + 1))
        elif c == "straddle_sym":
            k = int(rng.integers(1, m + 1))
            l, h = m - k, m + k
        elif c == "straddle_asym":
            l, h = (m - 1, min(n, m + 2 + int(rng.integers(0, 2)))) if rng.random() < 0.5 else (max(0, m - 2 - int(rng.integers(0, 2))), m + 2)
            if l + h == 2 * m:
                h = min(n, h + 1) if h < n else h
                if l + h == 2 * m:
                    l = max(0, l - 1)
        elif c == "clipped_to_one":
            l, h = max(0, m - 2), m + 1
        elif c == "starts_at_plane":
            l, h = m, min(n, m + 2)
        else:  # upper_only
            l, h = m + 1, min(n, m + 3)
        lo.append(int(l))
        hi.append(int(h))
    return lo, hi


def _det_specs(rng, shape, sym):
    """List of (spec dict for scenes DSL, meta)."""
    classes = ("straddle_sym", "straddle_sym", "straddle_asym", "clipped_to_one", "starts_at_plane", "upper_only")
    specs = []

    def add(base, kind_tag, pair_key, box, **meta):
        lo, hi = box
        d = dict(base)
        d.update({"lo": lo, "hi": hi, "name": f"d{len(specs)}"})
        specs.append((d, {"tag": kind_tag, "pair": pair_key, "lo": lo, "hi": hi, **meta}))

    nb = 0

    def newbox(first=False):
        # the first box of every detector family straddles every symmetry plane (symmetrically or not, never clipped to
        # one cell), so that each family is unfolded across all planes of the tuple at least once per scene
        nonlocal nb
        nb += 1
        if first:
            cls = [("straddle_sym", "straddle_asym")[int(rng.integers(2))] if sym[a] else "free" for a in range(3)]
            if nb % 2:
                cls = ["straddle_sym" if sym[a] else "free" for a in range(3)]
        else:
            cls = [classes[int(rng.integers(len(classes)))] if sym[a] else "free" for a in range(3)]
        return _box(rng, shape, sym, cls), cls

    # field detectors
    for exact, comps in ((True, COMP), (False, COMP), (True, tuple(c for c in COMP if rng.random() < 0.5) or ("Hy",))):
        box, cls = newbox(first=exact and comps is COMP)
        for red in (False, True):
            add({"kind": "field", "reduce": red, "exact": exact, "components": list(comps)}, "field", f"field{len(specs) // 2}", box,
                reduce=red, exact=exact, components=list(comps), box_class=cls)
    # phasor detectors
    for exact, comps in ((True, COMP), (False, ("Ex", "Hz", "Ey"))):
        box, cls = newbox(first=not exact)
        for red in (False, True):
            add({"kind": "phasor", "reduce": red, "exact": exact, "components": list(comps), "wavelengths": [1e-6, 0.7e-6]}, "phasor",
                f"phasor{len(specs) // 2}", box, reduce=red, exact=exact, components=list(comps), box_class=cls)
    # energy
    for exact in (True, False):
        box, cls = newbox(first=exact)
        add({"kind": "energy", "reduce": False, "exact": exact}, "energy", f"energy{exact}", box, reduce=False, exact=exact, box_class=cls)
        add({"kind": "energy", "reduce": True, "exact": exact}, "energy", f"energy{exact}", box, reduce=True, exact=exact, box_class=cls)
        add({"kind": "energy", "as_slices": True, "exact": exact}, "energy_slices", None, box, reduce=False, exact=exact, box_class=cls)
    # poynting
    # keep_all_components=True is not generated: PoyntingFluxDetector.place_on_grid stacks the three face-area arrays,
    # whose shapes differ, and raises for every box (reported separately; not part of C32)
    for keep_all in (False,):
        for exact in (True, False):
            box, cls = newbox(first=not exact)
            axis = int(rng.integers(3))
            direction = "+" if rng.random() < 0.5 else "-"
            for red in (False, True):
                add({"kind": "poynting", "reduce": red, "keep_all": keep_all, "axis": axis, "direction": direction, "exact": exact},
                    "poynting_vec" if keep_all else "poynting", f"poy{keep_all}{exact}", box, reduce=red, exact=exact, keep_all=keep_all,
                    axis=axis, box_class=cls)
    # phasor poynting flux (a PhasorDetector: its stored record is the 6-component phasor volume)
    box, cls = newbox()
    lo, hi = box
    ax = int(rng.integers(3))
    add({"kind": "phasor_poynting", "axis": ax, "wavelengths": [1e-6], "exact": True}, "phasor", None, box, reduce=False, exact=True,
        components=list(COMP), box_class=cls)
    return specs


def _touched(meta, shape, sym):
    return tuple(sym[a] if (sym[a] != 0 and meta["lo"][a] < shape[a] // 2 < meta["hi"][a]) else 0 for a in range(3))


def _on_plane_axes(meta, touched):
    if not meta["exact"]:
        return ()
    return tuple(a for a in (0, 1) if touched[a] == -1)


def _poy_parity(i, a, wall):
    j, k = [x for x in range(3) if x != i]
    return parity("E", j, a, wall) * parity("H", k, a, wall)


def _spatial_oracle(meta, key, arr, touched):
    """Unfolded spatial record per the documentation.  Returns (array, spatial_axes) or None if unspecified."""
    import numpy as np

    onp = _on_plane_axes(meta, touched)
    tag = meta["tag"]

    def comp_sign(ndim, comp_axis, vals):
        shp = [1] * ndim
        shp[comp_axis] = len(vals)
        return np.asarray(vals, float).reshape(shp)

    if tag in ("field", "phasor"):
        comps = [(("E", i) if n[0] == "E" else ("H", i)) for n in COMP for i in ["xyz".index(n[1])] if n in meta["components"]]
        comp_axis = 1 if tag == "field" else 2
        sp = (2, 3, 4) if tag == "field" else (3, 4, 5)
        return unfold_np(arr, touched, sp, lambda a: comp_sign(arr.ndim, comp_axis, [parity(ft, c, a, touched[a]) for ft, c in comps]),
                         lambda a: a in onp), sp
    if tag == "energy":
        sp = (1, 2, 3)
        return unfold_np(arr, touched, sp, lambda a: 1.0, lambda a: a in onp), sp
    if tag == "energy_slices":
        phys = {"XY Plane": (0, 1), "XZ Plane": (0, 2), "YZ Plane": (1, 2)}[key]
        sub = [0, 0, 0]
        sp = [0, 0, 0]
        for k, p in enumerate(phys, start=1):
            sub[p] = touched[p]
            sp[p] = k
        return unfold_np(arr, tuple(sub), tuple(sp), lambda a: 1.0, lambda a: a in onp), tuple(sp)
    if tag == "poynting":
        sp = (1, 2, 3)
        return unfold_np(arr, touched, sp, lambda a: float(_poy_parity(meta["axis"], a, touched[a])), lambda a: a in onp), sp
    if tag == "poynting_vec":
        sp = (2, 3, 4)
        return unfold_np(arr, touched, sp, lambda a: comp_sign(arr.ndim, 1, [_poy_parity(i, a, touched[a]) for i in range(3)]),
                         lambda a: a in onp), sp
    return None


def _wall_names(touched):
    return "".join({-1: "e", 0: "0", 1: "m"}[t] for t in touched)


def _detectors(case, r, rng):
    import numpy as np

    from vf import bootstrap, scenes

    fdtdx = bootstrap.ensure()
    import jax.numpy as jnp

    sym = tuple(case["sym"])
    shape = [int(rng.choice([6, 8])) if sym[a] else int(rng.choice([5, 6, 7])) for a in range(3)]
    s = 40e-9
    T = 5
    sc = scenes.default_scene(shape=shape, steps=T, spacing=s)
    sc["symmetry"] = list(sym)
    src_lo = [shape[a] // 2 + 1 if sym[a] else shape[a] // 2 for a in range(3)]
    sc["sources"] = [
        {"kind": "dipole", "lo": src_lo, "polarization": int(rng.integers(3)), "wavelength": 1e-6},
        {"kind": "dipole", "lo": [min(shape[a] - 1, src_lo[a] + 1) for a in range(3)], "polarization": int(rng.integers(3)), "wavelength": 0.8e-6,
         "source_type": "magnetic"},
    ]
    sc["materials"] = [{"lo": [shape[a] // 2 if sym[a] else 1 for a in range(3)], "hi": [shape[a] - 1 for a in range(3)], "mat": {"eps": 2.25}}]
    specs = _det_specs(rng, shape, sym)
    sc["detectors"] = [d for d, _ in specs]
    meta = {d["name"]: m for d, m in specs}
    desc = {"symmetry": list(sym), "shape": shape, "case_seed": case["seed"]}
    built = scenes.build(sc)
    state = scenes.run(built, jit=False)
    arrays = state[1]
    objects, config = built["objects"], built["config"]
    placed = {d.name for d in objects.detectors}
    for name in meta:
        if name not in placed:
            r.branch("detector_dropped_by_reduction")

    def judge(arrs, how):
        states_in = {k: {kk: np.asarray(vv) for kk, vv in v.items()} for k, v in arrs.detector_states.items()}
        try:
            unf = fdtdx.unfold_detector_states(arrs, objects, config)
        except Exception as e:  # noqa: BLE001
            _violate(r, f"unfold_detector_states raised {type(e).__name__}: {str(e)[:300]}", {**desc, "how": how})
            return
        out = {k: {kk: np.asarray(vv) for kk, vv in v.items()} for k, v in unf.detector_states.items()}
        # input container untouched
        for k, v in arrs.detector_states.items():
            for kk, vv in v.items():
                if not np.array_equal(np.asarray(vv), states_in[k][kk], equal_nan=True):
                    _violate(r, "unfold_detector_states changed its input arrays", {**desc, "detector": k})
        unf_spatial = {}
        for name, m in meta.items():
            if name not in states_in:
                continue
            touched = _touched(m, shape, sym)
            wit = {**desc, "detector": {k: v for k, v in m.items()}, "touched": list(touched), "how": how}
            for key, arr in states_in[name].items():
                got = out[name][key]
                sig = (_tuple_class(sym), m["tag"], "reduced" if m["reduce"] else "spatial", "exact" if m["exact"] else "raw", _wall_names(touched),
                       tuple(sorted(set(m["box_class"]))), how)
                if not any(touched):
                    r.count("detector_records_judged")
                    if got.shape == arr.shape and np.array_equal(got, arr, equal_nan=True):
                        r.ok(sig)
                        r.branch("untouched_detector_unchanged")
                    else:
                        _violate(r, "a detector that does not straddle any symmetry plane was changed by unfolding", wit, sig=sig,
                                  mechanism="unfold-changes-untouched-detector")
                    continue
                if m["reduce"]:
                    continue  # judged through its spatial partner below
                res = _spatial_oracle(m, key, arr, touched)
                if res is None:
                    continue
                want, sp = res
                r.count("detector_records_judged")
                onp = _on_plane_axes(m, touched)
                if m["tag"] == "energy_slices":
                    phys = {"XY Plane": (0, 1), "XZ Plane": (0, 2), "YZ Plane": (1, 2)}[key]
                    active = [a for a in phys if touched[a]]
                else:
                    active = [a for a in range(3) if touched[a]]
                one_cell = any(a in onp and arr.shape[sp[a]] == 1 for a in active)
                mech1 = "unfold-electric-plane-kept-axis-of-one-cell" if one_cell else None
                if got.shape != want.shape:
                    _violate(r, f"unfolded record shape {got.shape} != {want.shape} (each clipped axis doubled)", {**wit, "key": key}, sig=sig,
                              mechanism=mech1 or "unfold-detector-shape")
                    continue
                idx = [slice(None)] * arr.ndim
                for a in active:
                    idx[sp[a]] = slice(arr.shape[sp[a]], None)
                if not np.array_equal(got[tuple(idx)], arr, equal_nan=True):
                    _violate(r, "upper half of the unfolded record is not the stored record", {**wit, "key": key}, sig=sig, mechanism="unfold-upper-half-not-input")
                    continue
                if one_cell:
                    r.ok(sig)
                    r.branch("kept_axis_of_one_cell_on_electric_plane")
                elif np.array_equal(got, want, equal_nan=True):
                    r.ok(sig if np.any(arr != 0) else None)
                else:
                    bad = np.argwhere(~((got == want) | (np.isnan(got) & np.isnan(want))))[0]
                    sign_only = np.array_equal(np.abs(got), np.abs(want))
                    _violate(r, 
                        "mirrored half of a detector record violates the documented parity / index map",
                        {**wit, "key": key, "index": [int(x) for x in bad], "got": _c(got[tuple(bad)]), "want": _c(want[tuple(bad)])},
                        sig=sig,
                        mechanism=f"unfold-detector-{m['tag']}-{'parity' if sign_only else 'index-map'}-{'exact' if m['exact'] else 'raw'}-{_wall_names(touched)}",
                    )
                if key in ("fields", "phasor", "energy", "poynting_flux"):
                    unf_spatial[name] = (want, sp, got)
        # ---- (c) reduced partner --------------------------------------------------------------------
        by_pair = {}
        for name, m in meta.items():
            if m["pair"] is not None and name in states_in:
                by_pair.setdefault(m["pair"], {})["red" if m["reduce"] else "spa"] = name
        for pk, pr in by_pair.items():
            if "red" not in pr or "spa" not in pr or pr["spa"] not in unf_spatial:
                continue
            ms, mr = meta[pr["spa"]], meta[pr["red"]]
            touched = _touched(ms, shape, sym)
            if not any(touched):
                continue
            electric = [a for a in range(3) if touched[a] == -1]
            on_plane_possible = any((not ms["exact"]) or a in (0, 1) for a in electric)
            key = {"field": "fields", "phasor": "phasor", "energy": "energy", "poynting": "poynting_flux", "poynting_vec": "poynting_flux"}[ms["tag"]]
            got = out[pr["red"]][key]
            want_full, sp, _ = unf_spatial[pr["spa"]]
            if ms["tag"] in ("field", "phasor"):
                want = want_full.mean(axis=sp)
            elif ms["tag"] == "energy":
                want = want_full.sum(axis=sp)[:, None] * s**3
            elif ms["tag"] == "poynting":
                want = want_full.sum(axis=sp)[:, None] * s**2
            else:
                want = want_full.sum(axis=sp) * s**2
            sig = (_tuple_class(sym), ms["tag"], "pair", "exact" if ms["exact"] else "raw", _wall_names(touched), how)
            if on_plane_possible:
                r.branch("pair_skipped_sample_on_plane")
                continue
            # consistency of the two real recordings (same fields, same box): reduce(stored spatial) == stored reduced
            r.count("reduced_pairs_judged")
            scale = float(np.max(np.abs(want_full))) if want_full.size else 0.0
            wsc = scale * {"field": 1.0, "phasor": 1.0, "energy": s**3 * want_full[0].size, "poynting": s**2 * want_full[0].size,
                           "poynting_vec": s**2 * want_full[0, 0].size}[ms["tag"]]
            r.count("comparisons")
            w2 = want.reshape(got.shape) if want.size == got.size else want
            if w2.shape != got.shape:
                _violate(r, f"unfolded reduced record has shape {got.shape}, reduction of the unfolded spatial record {w2.shape}",
                          {**desc, "spatial": ms, "reduced": mr, "touched": list(touched), "how": how}, sig=sig,
                          mechanism=f"unfold-reduced-{ms['tag']}-{_wall_names(touched)}")
                continue
            err = float(np.max(np.abs(got - w2))) if got.size else 0.0
            if not np.isfinite(err):
                err = np.inf
            r.worst("reduced_vs_spatial_err_over_natural_scale", err / wsc if wsc > 0 else 0.0)
            if err <= 1e-9 * wsc:
                r.ok(sig if scale > 0 else None)
            else:
                bad = np.unravel_index(int(np.argmax(np.abs(got - w2))), got.shape)
                _violate(r, 
                    "unfolded volume-reduced value differs from the reduction of the unfolded spatial record",
                    {**desc, "spatial": ms, "reduced": mr, "touched": list(touched), "how": how, "index": [int(x) for x in bad],
                     "got": _c(got[bad]), "want": _c(w2[bad]), "natural_scale": wsc},
                    mechanism=f"unfold-reduced-{ms['tag']}-{'exact' if ms['exact'] else 'raw'}-{_wall_names(touched)}",
                    sig=sig,
                )

    judge(arrays, "recorded")
    # random refills: same shapes / dtypes, hostile values; reduced partners are recomputed from the spatial ones with
    # the detector's own documented reduction so that (c) stays meaningful
    for k in range(case["refills"]):
        new = {}
        for name, st in arrays.detector_states.items():
            new[name] = {}
            for key, v in st.items():
                v = np.asarray(v)
                x = rng.normal(size=v.shape)
                if np.iscomplexobj(v):
                    x = x + 1j * rng.normal(size=v.shape)
                if k == 1:
                    x = np.ones(v.shape)
                new[name][key] = x.astype(v.dtype)
        for name, m in meta.items():
            if m["reduce"] and name in new and m["pair"]:
                partner = [n for n, mm in meta.items() if mm["pair"] == m["pair"] and not mm["reduce"]]
                if partner and partner[0] in new:
                    p = partner[0]
                    if m["tag"] in ("field", "phasor"):
                        key = "fields" if m["tag"] == "field" else "phasor"
                        sp = (2, 3, 4) if m["tag"] == "field" else (3, 4, 5)
                        new[name][key] = new[p][key].mean(axis=sp)
                    elif m["tag"] == "energy":
                        new[name]["energy"] = new[p]["energy"].sum(axis=(1, 2, 3))[:, None] * s**3
                    elif m["tag"] == "poynting":
                        new[name]["poynting_flux"] = new[p]["poynting_flux"].sum(axis=(1, 2, 3))[:, None] * s**2
                    else:
                        new[name]["poynting_flux"] = new[p]["poynting_flux"].sum(axis=(2, 3, 4)) * s**2
        arrs2 = arrays.aset("detector_states", {n: {k2: jnp.asarray(v2) for k2, v2 in st.items()} for n, st in new.items()})
        judge(arrs2, "refill")
    r.sample = {**desc, "detectors": len(meta), "example": {k: v for k, v in list(meta.values())[0].items()}}

"""C20 — tanh projection / subpixel-smoothed projection: bounded, monotone, well-behaved at the extremes.

Two kinds of cases, all of them drive the real `fdtdx.TanhProjection`, `fdtdx.SubpixelSmoothedProjection`,
`tanh_projection` and `smoothed_projection`:

tanh   for a grid of (beta, eta) classes (beta in {0, subnormal, tiny, moderate, large, 1e300, inf}, eta in
       {0, 1e-9, interior, 1-1e-9, 1} + random) and a sorted hostile sample of [0,1] (end points, eta itself,
       eta +- 1ulp .. 1e-3, random): range [0,1], monotone, f(0)=0 and f(1)=1 for 0<eta<1, beta=0 == clip on
       [-0.5,1.5], beta=inf == step away from eta, finite values and finite d/dx on [-0.5,1.5] (eager and
       under jit with a traced beta).
smooth for (beta, eta, resolution, dtype) classes and hostile 2D designs (smooth random, white noise, binary,
       constant, constant == eta, ramps crossing eta, spike, one-sided, tiny-gradient) with the singleton
       axis of the 3D parameter array in every position: finite value, finite d/drho, and equality with the
       plain projection in every cell that an independent numpy monitor classifies as interface-free
       (grad rho == 0, or |eta-rho| >= 0.55*|grad rho| with a safety margin; 0.55 voxels is the documented
       smoothing radius, the resolution cancels).
"""

from __future__ import annotations

PROPERTY = "C20"
RULE = (
    "tanh: every (beta class x eta class x dtype) judged on a sorted hostile sample of 96 points (8 judged sub-properties); "
    "smooth: seeded (beta, eta, resolution, dtype, singleton axis position) x 10 design classes x shapes 2..9 per axis; an "
    "evaluation is one judged sub-property of one array; non-trivial when the array is not constant or the sub-property "
    "is about the extremes; distinct = (kind, beta class, eta class, dtype, design class, sub-property)"
)
REQUIRED_COUNTERS = ["comparisons", "gradients_judged", "interface_free_cells_compared", "interface_cells_seen"]
ASSUMPTIONS = [
    "gradients = derivative with respect to the design array (not with respect to beta)",
    "float64 for all identities; float32 designs only with beta <= 1e4 or inf and resolution in [1,1000] px/um",
    "designs whose non-zero gradient magnitude is below 1e-30 (f64) / 1e-16 (f32) are excluded: the exact derivative of "
    "the subpixel fill factor is O(1/|grad rho|) and legitimately overflows there",
    "interface-free classification uses the documented smoothing radius 0.55 voxel with a relative margin of 1e-6 (f64) "
    "/ 1e-3 (f32); cells inside the margin are not compared",
]
CASE_TIMEOUT = {"quick": 600, "thorough": 1800}

# beta below the smallest normal double: XLA:CPU flushes beta*eta to zero while `beta == 0` is False -> 0/0.
SUBNORMAL_BETA_CLASS = True
MECH_SUBNORMAL = "tanh-projection-subnormal-beta"
TINY_NORMAL = 2.2250738585072014e-308

BETAS64 = [
    ("0", 0.0),
    ("tiny", 1e-300),
    ("1e-12", 1e-12),
    ("0.5", 0.5),
    ("1", 1.0),
    ("8", 8.0),
    ("64", 64.0),
    ("1e3", 1e3),
    ("1e8", 1e8),
    ("1e300", 1e300),
    ("inf", float("inf")),
]
BETAS_SUB = [("subnormal", 5e-324), ("subnormal", 1e-310)]
BETAS32 = [("0", 0.0), ("1e-3", 1e-3), ("1", 1.0), ("8", 8.0), ("64", 64.0), ("1e4", 1e4), ("inf", float("inf"))]
ETAS = [("0", 0.0), ("1e-9", 1e-9), ("0.25", 0.25), ("0.5", 0.5), ("0.75", 0.75), ("1-1e-9", 1 - 1e-9), ("1", 1.0)]
# float32 designs: only thresholds that are exactly representable in float32 (the implementation mixes the python
# double `1 - eta` with the float32 `x - eta`; for other thresholds that adds an error of beta * 6e-8 which is
# round-off, not the subject of this property)
ETAS32 = [("0", 0.0), ("2^-20", 2.0**-20), ("0.25", 0.25), ("0.5", 0.5), ("0.75", 0.75), ("1-2^-20", 1 - 2.0**-20), ("1", 1.0)]


def _etas(dtype):
    return ETAS if dtype == "float64" else ETAS32


def _rand_eta(rng, dtype):
    if dtype == "float64":
        return float(rng.uniform(0.02, 0.98))
    return float(int(rng.integers(20, 1004)) / 1024.0)


def EXHAUSTIVE(tier):
    return False


def cases(tier, rng):
    out = []
    # tanh: split the (beta, eta) grid into a few cases
    for dtype in ("float64", "float32"):
        betas = (BETAS64 + (BETAS_SUB if SUBNORMAL_BETA_CLASS else [])) if dtype == "float64" else BETAS32
        nrand = 2 if tier == "quick" else 12
        chunks = 3 if dtype == "float64" else 1
        for c in range(chunks):
            out.append({"kind": "tanh", "dtype": dtype, "betas": betas[c::chunks], "n_random_eta": nrand})
    n = 12 if tier == "quick" else 160
    for i in range(n):
        dtype = "float32" if i % 4 == 3 else "float64"
        bl = BETAS32 if dtype == "float32" else BETAS64
        b = bl[int(rng.integers(len(bl)))] if i >= len(bl) else bl[i % len(bl)]
        out.append(
            {
                "kind": "smooth",
                "dtype": dtype,
                "beta": list(b),
                "n_eta": 3 if tier == "quick" else 4,
                "axis": i % 3,
            }
        )
    return out


def run_case(case):
    from vf.result import Res

    r = Res()
    if case["kind"] == "tanh":
        _tanh(case, r)
    else:
        _smooth(case, r)
    return r.to_dict()


# ---------------------------------------------------------------------------------------------------------------
def _beta_from_case(b):
    return b[0], float(b[1])


def _tol(dtype):
    return (1e-12, 1e-9) if dtype == "float64" else (2e-6, 1e-5)


def _sample01(eta, rng, dt):
    """Sorted hostile sample of [0,1]: end points, eta, neighbours of eta at 1 ulp .. 1e-3, random points."""
    import numpy as np

    pts = [0.0, 1.0, 0.5, 1e-300, 1e-12, 1 - 1e-12]
    if 0 <= eta <= 1:
        pts.append(eta)
    for d in (1e-3, 1e-6, 1e-9, 1e-12):
        pts += [eta - d, eta + d]
    e = np.asarray(eta, dt)
    pts += [float(np.nextafter(e, dt(2))), float(np.nextafter(e, dt(-1)))]
    pts += list(rng.uniform(0, 1, 96 - len(pts) - 8))
    pts += list(np.clip(eta + rng.normal(0, 0.02, 8), 0, 1))
    a = np.asarray([p for p in pts if 0 <= p <= 1], dt)
    while a.size < 96:  # keep one shape for the compile cache
        a = np.append(a, dt(rng.uniform(0, 1)))
    return np.sort(a[:96])


def _tanh(case, r):
    import numpy as np

    from vf import bootstrap

    bootstrap.ensure()
    import jax
    import jax.numpy as jnp
    from fdtdx.config import SimulationConfig
    from fdtdx.core.grid import UniformGrid
    from fdtdx.materials import Material
    from fdtdx.objects.device.parameters.projection import TanhProjection, tanh_projection
    from fdtdx.typing import ParameterType

    rng = np.random.default_rng(case["seed"])
    dt = np.float64 if case["dtype"] == "float64" else np.float32
    atol, rtol = _tol(case["dtype"])
    cfg = SimulationConfig(time=100e-15, grid=UniformGrid(spacing=50e-9), backend="cpu")
    mats = {"a": Material(permittivity=1.0), "b": Material(permittivity=4.0)}
    etas = list(_etas(case["dtype"])) + [("rand", _rand_eta(rng, case["dtype"])) for _ in range(case["n_random_eta"])]
    shapes3 = [(96, 1, 1), (1, 96, 1), (4, 4, 6), (1, 1, 96)]
    jit_val = jax.jit(lambda x, b, e: tanh_projection(x, b, e))
    jit_grad = jax.jit(jax.grad(lambda x, b, e: jnp.sum(tanh_projection(x, b, e))))

    for bi, b in enumerate(case["betas"]):
        bcls, beta = _beta_from_case(b)
        subnormal = 0 < beta < TINY_NORMAL
        for ei, (ecls, eta) in enumerate(etas):
            r.branch(f"tanh:beta={bcls}")
            r.branch(f"tanh:eta={ecls}")
            x = _sample01(eta, rng, dt)
            shape = shapes3[(bi + ei) % len(shapes3)]
            sig = ("tanh", bcls, ecls, case["dtype"])
            wit = {"beta": beta, "eta": eta, "dtype": case["dtype"], "shape": list(shape), "x_is": "sorted hostile sample, see _sample01", "seed": case["seed"]}

            def mech_for(arr, subnormal=subnormal):
                return MECH_SUBNORMAL if (subnormal and np.isnan(np.asarray(arr, float)).any()) else None

            # ---- the transform object on a 3D array -----------------------------------------------------
            t = TanhProjection(projection_midpoint=eta).init_module(
                config=cfg, materials=mats, matrix_voxel_grid_shape=shape, single_voxel_size=(5e-8,) * 3, output_shape={"p": shape}
            )
            t = t.init_type({"p": ParameterType.CONTINUOUS})
            y3 = np.asarray(t({"p": jnp.asarray(x.reshape(shape))}, beta=beta)["p"])
            if y3.shape != tuple(shape):
                r.violate("TanhProjection changed the array shape", {**wit, "out_shape": list(y3.shape)})
                continue
            y = y3.reshape(-1).astype(float)
            xf = x.astype(float)
            # 1 finite + range
            r.count("comparisons")
            if np.all(np.isfinite(y)) and y.min() >= -atol and y.max() <= 1 + atol:
                r.ok(sig + ("range",))
                r.worst("worst_range_excess", max(0.0, -y.min(), y.max() - 1))
            else:
                j = int(np.argmax(~np.isfinite(y) | (y < -atol) | (y > 1 + atol)))
                r.violate(
                    "projection of a value in [0,1] is outside [0,1] or not finite",
                    {**wit, "x": float(xf[j]), "got": float(y[j])},
                    mechanism=mech_for(y),
                    sig=sig + ("range",),
                )
            # 2 monotone (x sorted)
            r.count("comparisons")
            dy = np.diff(y)
            if np.all(dy >= -atol):
                r.ok(sig + ("monotone",))
            else:
                j = int(np.argmin(np.where(np.isfinite(dy), dy, -np.inf)))
                r.violate(
                    "projection is not non-decreasing",
                    {**wit, "x0": float(xf[j]), "x1": float(xf[j + 1]), "f0": float(y[j]), "f1": float(y[j + 1])},
                    mechanism=mech_for(y),
                    sig=sig + ("monotone",),
                )
            # 3 fixed points for 0 < eta < 1   (x[0] == 0 and x[-1] == 1 by construction)
            if 0 < eta < 1:
                r.count("comparisons")
                if abs(y[0]) <= atol and abs(y[-1] - 1) <= rtol:
                    r.ok(sig + ("fixed",))
                else:
                    r.violate(
                        "0 or 1 is not a fixed point",
                        {**wit, "f(0)": float(y[0]), "f(1)": float(y[-1])},
                        mechanism=mech_for(y),
                        sig=sig + ("fixed",),
                    )
            # 4/5/6 on the wider interval [-0.5, 1.5] through the plain function
            xw = np.sort(np.concatenate([x[::2], rng.uniform(-0.5, 0.0, 23).astype(dt), rng.uniform(1.0, 1.5, 24).astype(dt), np.asarray([eta], dt)]))
            yw = np.asarray(tanh_projection(jnp.asarray(xw), beta, eta)).astype(float)
            if beta == 0:
                r.check_close(
                    "beta0_clip", yw, np.clip(xw.astype(float), 0, 1), rtol, what="beta = 0 is not clipping", witness=wit, sig=sig + ("clip",), atol=atol
                )
            if np.isinf(beta):
                # "away from the threshold itself": XLA:CPU treats subnormal differences as zero, so points closer
                # than the smallest normal number count as the threshold
                away = np.abs(xw.astype(float) - float(np.asarray(eta, dt))) >= float(np.finfo(dt).tiny)
                want = (xw.astype(float) > eta).astype(float)
                r.count("comparisons")
                if np.array_equal(yw[away], want[away]):
                    r.ok(sig + ("step",))
                else:
                    j = int(np.flatnonzero(away & (yw != want))[0])
                    r.violate("beta = inf is not a step at eta", {**wit, "x": float(xw[j]), "got": float(yw[j]), "want": float(want[j])}, sig=sig + ("step",))
            g = np.asarray(jax.grad(lambda a: jnp.sum(tanh_projection(a, beta, eta)))(jnp.asarray(xw)))
            r.count("gradients_judged")
            if np.all(np.isfinite(yw)) and np.all(np.isfinite(g)):
                r.ok(sig + ("finite-grad",))
                r.worst("max_abs_tanh_grad", float(np.abs(g).max()))
            else:
                j = int(np.argmax(~np.isfinite(g) | ~np.isfinite(yw)))
                r.violate(
                    "tanh_projection value or d/dx is not finite",
                    {**wit, "x": float(xw[j]), "value": float(yw[j]), "grad": float(g[j])},
                    mechanism=mech_for(np.concatenate([yw, g])),
                    sig=sig + ("finite-grad",),
                )
            # 7 the same under jit with a traced beta and eta
            bj = jnp.asarray(beta, dt)
            yj = np.asarray(jit_val(jnp.asarray(xw), bj, jnp.asarray(eta, dt)))
            gj = np.asarray(jit_grad(jnp.asarray(xw), bj, jnp.asarray(eta, dt)))
            r.count("gradients_judged")
            if np.all(np.isfinite(yj)) and np.all(np.isfinite(gj)):
                r.ok(sig + ("finite-grad-jit",))
            else:
                j = int(np.argmax(~np.isfinite(gj) | ~np.isfinite(yj)))
                r.violate(
                    "jitted tanh_projection (traced beta) value or d/dx is not finite",
                    {**wit, "x": float(xw[j]), "value": float(yj[j]), "grad": float(gj[j])},
                    mechanism=mech_for(np.concatenate([yj.astype(float), gj.astype(float)])),
                    sig=sig + ("finite-grad-jit",),
                )
            if np.all(np.isfinite(yj)) and np.all(np.isfinite(yw)):
                r.check_close("jit_vs_eager", yj.astype(float), yw, rtol, what="jit and eager projection differ", witness=wit, sig=sig + ("jit==eager",), atol=atol)
    r.sample = {"beta": case["betas"][0], "eta": etas[0], "n_points": 96}


# ---------------------------------------------------------------------------------------------------------------
DESIGNS = ["smooth", "white", "binary", "const", "const=eta", "ramp0", "ramp1", "spike", "one-sided", "tiny-gradient"]


def _design(cls, shape, eta, rng, dt):
    import numpy as np

    n, m = shape
    if cls == "smooth":
        a = rng.uniform(0, 1, (n + 4, m + 4))
        k = np.ones((5, 5)) / 25.0
        out = np.zeros((n, m))
        for i in range(5):
            for j in range(5):
                out += k[i, j] * a[i : i + n, j : j + m]
        lo, hi = out.min(), out.max()
        a = (out - lo) / (hi - lo) if hi > lo else out
    elif cls == "white":
        a = rng.uniform(0, 1, shape)
    elif cls == "binary":
        a = (rng.uniform(0, 1, shape) > 0.5).astype(float)
    elif cls == "const":
        a = np.full(shape, float(rng.choice([0.0, 1.0, rng.uniform(0, 1)])))
    elif cls == "const=eta":
        a = np.full(shape, eta)
    elif cls == "ramp0":
        a = np.tile(np.linspace(0, 1, n)[:, None], (1, m))
    elif cls == "ramp1":
        a = np.tile(np.linspace(1, 0, m)[None, :], (n, 1)) * 0.5 + 0.5 * np.tile(np.linspace(0, 1, n)[:, None], (1, m))
    elif cls == "spike":
        a = np.zeros(shape)
        a[int(rng.integers(n)), int(rng.integers(m))] = float(rng.choice([1.0, 0.5, 1e-3]))
    elif cls == "one-sided":
        if eta <= 0.5:
            a = rng.uniform(eta + 0.35, 1.0, shape) if eta + 0.35 < 1 else np.full(shape, 1.0)
        else:
            a = rng.uniform(0.0, eta - 0.35, shape)
    elif cls == "tiny-gradient":
        amp = 10.0 ** rng.uniform(-28, -9) if dt == np.float64 else 10.0 ** rng.uniform(-14, -9)
        base = 0.0 if eta >= 0.5 else 1.0
        a = base + (amp * rng.integers(0, 4, shape) if base == 0.0 else -np.maximum(amp, 1e-7 if dt == np.float32 else 1e-15) * rng.integers(0, 4, shape))
    else:
        raise ValueError(cls)
    return np.asarray(a, dt)


def _interface_free(rho64, eta, margin):
    """Independent monitor: True where no interface lies within the smoothing radius (0.55 voxel)."""
    import numpy as np

    g0, g1 = np.gradient(rho64)  # central differences inside, one-sided at the border, in index units
    gn = np.sqrt(g0 * g0 + g1 * g1)
    free = (gn == 0) | (np.abs(eta - rho64) >= 0.55 * gn * (1 + margin) + 1e-300)
    near = (gn > 0) & (np.abs(eta - rho64) < 0.55 * gn * (1 - margin))
    return free, near


def _smooth(case, r):
    import numpy as np

    from vf import bootstrap

    bootstrap.ensure()
    import jax
    import jax.numpy as jnp
    from fdtdx.config import SimulationConfig
    from fdtdx.core.grid import UniformGrid
    from fdtdx.materials import Material
    from fdtdx.objects.device.parameters.projection import SubpixelSmoothedProjection, smoothed_projection, tanh_projection
    from fdtdx.typing import ParameterType

    rng = np.random.default_rng(case["seed"])
    dt = np.float64 if case["dtype"] == "float64" else np.float32
    atol, rtol = _tol(case["dtype"])
    margin = 1e-6 if dt == np.float64 else 1e-3
    bcls, beta = _beta_from_case(case["beta"])
    cfg = SimulationConfig(time=100e-15, grid=UniformGrid(spacing=50e-9), backend="cpu")
    mats = {"a": Material(permittivity=1.0), "b": Material(permittivity=4.0)}
    axis = int(case["axis"])
    shapes2 = [(2, 2), (2, 7), (5, 3), (6, 6), (9, 4)]
    el = _etas(case["dtype"])
    etas = [el[int(rng.integers(len(el)))] for _ in range(case["n_eta"] - 1)] + [("rand", _rand_eta(rng, case["dtype"]))]
    if dt == np.float64:
        voxels = [1e-6, 20e-9, 50e-9, 1e-9, 1e-3, 1e-12]
    else:
        voxels = [1e-6, 20e-9, 50e-9, 1e-9]
    r.branch(f"smooth:beta={bcls}")
    r.branch(f"smooth:dtype={case['dtype']}")
    r.branch(f"smooth:singleton_axis={axis}")
    for ecls, eta in etas:
        r.branch(f"smooth:eta={ecls}")
        for di, cls in enumerate(DESIGNS):
            shape2 = shapes2[int(rng.integers(len(shapes2)))]
            voxel = voxels[int(rng.integers(len(voxels)))]
            rho = _design(cls, shape2, float(np.asarray(eta, dt)), rng, dt)
            shape3 = list(shape2)
            shape3.insert(axis, 1)
            shape3 = tuple(shape3)
            vs = [voxel, voxel, voxel]
            vs[axis] = voxel * 3.7  # the size along the singleton axis must be irrelevant
            t = SubpixelSmoothedProjection(projection_midpoint=eta).init_module(
                config=cfg, materials=mats, matrix_voxel_grid_shape=shape3, single_voxel_size=tuple(vs), output_shape={"p": shape3}
            )
            t = t.init_type({"p": ParameterType.CONTINUOUS})
            sig = ("smooth", bcls, ecls, case["dtype"], cls)
            wit = {
                "beta": beta,
                "eta": eta,
                "dtype": case["dtype"],
                "design_class": cls,
                "shape": list(shape3),
                "voxel_size": voxel,
                "rho_2d": rho.astype(float).tolist(),
            }
            x3 = jnp.asarray(rho.reshape(shape3))
            y3 = np.asarray(t({"p": x3}, beta=beta)["p"])
            g3 = np.asarray(jax.grad(lambda a: jnp.sum(t({"p": a}, beta=beta)["p"]))(x3))
            nontrivial = bool(rho.max() > rho.min()) or cls in ("const=eta",)
            if y3.shape != shape3:
                r.violate("SubpixelSmoothedProjection changed the array shape", {**wit, "out_shape": list(y3.shape)})
                continue
            y = y3.reshape(shape2).astype(float)
            g = g3.reshape(shape2).astype(float)
            r.count("comparisons")
            if np.all(np.isfinite(y)):
                r.ok(sig + ("finite",) if nontrivial else None)
            else:
                idx = tuple(int(i) for i in np.argwhere(~np.isfinite(y))[0])
                r.violate("smoothed projection value is not finite", {**wit, "index": list(idx), "got": float(y[idx])}, sig=sig + ("finite",))
            r.count("gradients_judged")
            if np.all(np.isfinite(g)):
                r.ok(sig + ("finite-grad",) if nontrivial else None)
                r.worst("max_abs_smoothed_grad", float(np.abs(g).max()))
            else:
                idx = tuple(int(i) for i in np.argwhere(~np.isfinite(g))[0])
                r.violate("gradient of the smoothed projection is not finite", {**wit, "index": list(idx), "got": float(g[idx])}, sig=sig + ("finite-grad",))
            # agreement with the plain projection where there is no interface
            rho64 = rho.astype(np.float64)
            free, near = _interface_free(rho64, float(np.asarray(eta, dt)), margin)
            plain = np.asarray(tanh_projection(jnp.asarray(rho), beta, eta)).astype(float)
            r.count("interface_free_cells_compared", int(free.sum()))
            r.count("interface_cells_seen", int(near.sum()))
            r.branch(f"smooth:design={cls}")
            if free.any() and np.all(np.isfinite(plain)):
                err = np.where(free, np.abs(y - plain), 0.0)
                err = np.where(np.isfinite(err), err, np.inf)
                r.count("comparisons")
                r.worst("worst_abs_err_interface_free", float(err.max()))
                if err.max() <= atol + rtol * np.abs(plain).max():
                    r.ok(sig + ("agree",) if nontrivial else None)
                else:
                    idx = tuple(int(i) for i in np.unravel_index(int(np.argmax(err)), err.shape))
                    g0, g1 = np.gradient(rho64)
                    r.violate(
                        "smoothed projection differs from the plain projection in an interface-free cell",
                        {
                            **wit,
                            "index": list(idx),
                            "rho": float(rho64[idx]),
                            "grad_index_units": [float(g0[idx]), float(g1[idx])],
                            "distance_over_radius": float(abs(eta - rho64[idx]) / (0.55 * np.hypot(g0[idx], g1[idx]))) if np.hypot(g0[idx], g1[idx]) > 0 else None,
                            "got": float(y[idx]),
                            "plain": float(plain[idx]),
                        },
                        sig=sig + ("agree",),
                    )
            # direct function call with an explicit resolution must give the same numbers as the transform object
            if di % 3 == 0:
                yf = np.asarray(smoothed_projection(jnp.asarray(rho), beta, eta, 1 / (voxel / 1e-6))).astype(float)
                if np.all(np.isfinite(yf)) and np.all(np.isfinite(y)):
                    r.check_close("object_vs_function", y, yf, rtol, what="transform object and smoothed_projection disagree", witness=wit, sig=sig + ("obj==fn",), atol=atol)
    r.sample = {"beta": beta, "etas": etas, "dtype": case["dtype"], "designs": DESIGNS, "singleton_axis": axis}

"""C19 — ClosestIndex returns the index of the nearest allowed value, keeps the shape, passes gradients.

Every evaluation builds a random material set (2-5 materials, isotropic or diagonal tensors, inserted in
random order so that the sorted material order matters), initialises a real `fdtdx.ClosestIndex` through
`init_module` and calls it on hostile arrays.  The oracle (numpy, brute force) is

    index set accepted for voxel x  =  { k : |x - a_k| <= min_j |x - a_j| }        (ties accept every minimiser)

with a_k = k (plain mode) or a_k = 1/eps_k of the k-th material in ascending-permittivity order (isotropic sets
with mapping_from_inverse_permittivities=True).  Additionally: output shape == input shape, output is integer
valued, and the vector-Jacobian product with a random cotangent w is w itself (straight-through estimator).

The statement defines the inverse-permittivity mode only for isotropic sets, therefore diagonal sets are only
judged in plain mode.
"""

from __future__ import annotations

PROPERTY = "C19"
RULE = (
    "cases = (material kind iso|diag) x (n materials 2..5) x (mapping flag; inverse mapping only for isotropic); inside a "
    "case: seeded material set (random eps in [0.5,20], optionally two equal / nearly equal permittivities, shuffled dict "
    "order) x shapes (3D, singleton axis in every position, all-ones, size-2, depth == n and depth != n, 1-2 dict keys) x "
    "value classes (uniform in range, exactly on allowed values, exactly on midpoints = ties, out of range, huge, "
    "negative zero). One evaluation = one judged array (all voxels) or one judged gradient; it is non-trivial when the "
    "expected indices take at least two different values (value classes that are constant by design count via their own "
    "signature); distinct = (kind, n, mapping, shape class, value class, what)"
)
REQUIRED_COUNTERS = ["arrays_judged", "voxels_judged", "gradients_judged"]
ASSUMPTIONS = [
    "materials are indexed in ascending order of (permittivity_xx, permeability_xx, conductivities) as documented in "
    "fdtdx.materials.compute_ordered_material_name_tuples",
    "float64 inputs; NaN/Inf latent values are outside the property",
    "inverse-permittivity mode is only judged for isotropic material sets (the statement defines nothing else)",
]
CASE_TIMEOUT = {"quick": 600, "thorough": 1800}

MECH_INV_ISO = "inverse-permittivity-mapping-isotropic"


def EXHAUSTIVE(tier):
    return False


def cases(tier, rng):
    out = []
    reps = 1 if tier == "quick" else 8
    nshape = 10 if tier == "quick" else 20
    for rep in range(reps):
        for n in (2, 3, 4, 5):
            for kind, mapping in (("iso", False), ("iso", True), ("diag", False)):
                out.append(
                    {
                        "kind": kind,
                        "n": n,
                        "mapping": mapping,
                        "nshape": nshape,
                        "eps_mode": ["random", "equal-pair", "close-pair", "sub-unity"][int(rng.integers(4))]
                        if rep or kind == "diag"
                        else ["random", "equal-pair", "close-pair", "sub-unity"][(n - 2) % 4],
                    }
                )
    return out


# ----------------------------------------------------------------------------------------------------------
def _materials(case, rng):
    """Returns (dict name->Material in shuffled insertion order, sorted list of eps_xx, description)."""
    from fdtdx.materials import Material

    n = case["n"]
    mode = case["eps_mode"]
    lo = 0.5 if mode == "sub-unity" else 1.0
    eps = [float(x) for x in rng.uniform(lo, 20.0, n)]
    mu = [1.0] * n
    if mode == "equal-pair":
        eps[1] = eps[0]
        mu[1] = 1.5  # distinct material, same permittivity: order decided by the permeability
    elif mode == "close-pair":
        eps[1] = eps[0] * (1 + 1e-9)
    specs = []
    for i in range(n):
        if case["kind"] == "iso":
            perm = eps[i]
        else:
            perm = (eps[i], float(rng.uniform(1, 20)), float(rng.uniform(1, 20)))
        specs.append({"name": f"m{int(rng.integers(1000)):03d}_{i}", "perm": perm, "mu": mu[i]})
    order = rng.permutation(n)
    mats = {}
    for i in order:
        s = specs[int(i)]
        mats[s["name"]] = Material(permittivity=s["perm"], permeability=s["mu"])
    srt = sorted(specs, key=lambda s: ((s["perm"] if isinstance(s["perm"], float) else s["perm"][0]), s["mu"]))
    eps_sorted = [(s["perm"] if isinstance(s["perm"], float) else s["perm"][0]) for s in srt]
    desc = [{"name": specs[int(i)]["name"], "permittivity": specs[int(i)]["perm"], "permeability": specs[int(i)]["mu"]} for i in order]
    return mats, eps_sorted, desc


def _shapes(case, rng):
    n = case["n"]
    fixed = [
        ("depth==n", (3, 2, n)),
        ("depth!=n", (4, 4, n + 1)),
        ("all-ones", (1, 1, 1)),
        ("singleton@2", (3, 4, 1)),
        ("singleton@0", (1, 3, n + 2)),
        ("singleton@1", (n, 1, 3)),
        ("size2", (2, 2, 2)),
        ("first==n", (n, 2, 6)),
        ("two-singletons", (1, 1, 7)),
        ("depth==n,singleton@0", (1, 5, n)),
    ]
    k = case["nshape"]
    out = list(fixed[: min(k, len(fixed))])
    while len(out) < k:
        s = tuple(int(x) for x in rng.integers(1, 8, 3))
        tag = "rand:" + ("depth==n" if s[2] == n else "depth!=n") + (",has1" if 1 in s else "")
        out.append((tag, s))
    return out


def _values(vclass, shape, allowed, rng):
    """Hostile latent values for one array. `allowed` = numpy vector of allowed values (any order)."""
    import numpy as np

    a = np.asarray(allowed, float)
    lo, hi = float(a.min()), float(a.max())
    span = max(hi - lo, 1e-3)
    size = int(np.prod(shape))
    if vclass == "uniform":
        v = rng.uniform(lo - 0.3 * span, hi + 0.3 * span, size)
    elif vclass == "on-allowed":
        v = a[rng.integers(0, len(a), size)]
    elif vclass == "midpoints":
        s = np.sort(a)
        mids = (s[:-1] + s[1:]) / 2
        v = mids[rng.integers(0, len(mids), size)]
    elif vclass == "near-midpoints":
        s = np.sort(a)
        mids = (s[:-1] + s[1:]) / 2
        gaps = np.maximum(s[1:] - s[:-1], 1e-6)
        j = rng.integers(0, len(mids), size)
        v = mids[j] + rng.choice([-1.0, 1.0], size) * gaps[j] * 1e-3
    elif vclass == "out-of-range":
        v = np.where(rng.random(size) < 0.5, lo - rng.uniform(0.6, 50, size) * span, hi + rng.uniform(0.6, 50, size) * span)
    elif vclass == "huge":
        v = rng.choice([-1e300, 1e300, -1e12, 1e12], size)
    elif vclass == "neg-zero":
        v = rng.choice([-0.0, 0.0, -1e-320, 1e-320, -1e-17], size)
    else:
        raise ValueError(vclass)
    return np.asarray(v, np.float64).reshape(shape)


VCLASSES = ["uniform", "on-allowed", "midpoints", "near-midpoints", "out-of-range", "huge", "neg-zero"]


def _accepted(x, allowed):
    """Boolean (.., n): which indices are minimisers of |x - allowed_k| (ties and 1-ulp near-ties accepted)."""
    import numpy as np

    d = np.abs(x[..., None] - np.asarray(allowed, float))
    dmin = d.min(axis=-1, keepdims=True)
    return d <= dmin * (1 + 1e-12) + 1e-300


def _is_broadcast_error(e):
    s = f"{type(e).__name__}: {e}"
    return ("broadcast" in s.lower()) or ("incompatible shapes" in s.lower())


def run_case(case):
    import numpy as np

    from vf import bootstrap
    from vf.result import Res

    bootstrap.ensure()
    import jax
    import jax.numpy as jnp
    from fdtdx.config import SimulationConfig
    from fdtdx.core.grid import UniformGrid
    from fdtdx.objects.device.parameters.discretization import ClosestIndex
    from fdtdx.typing import ParameterType

    r = Res()
    rng = np.random.default_rng(case["seed"])
    mats, eps_sorted, desc = _materials(case, rng)
    n = case["n"]
    mapping = bool(case["mapping"])
    kind = case["kind"]
    if mapping:
        allowed = 1.0 / np.asarray(eps_sorted, float)  # index k <-> k-th material by ascending permittivity
    else:
        allowed = np.arange(n, dtype=float)
    cfg = SimulationConfig(time=100e-15, grid=UniformGrid(spacing=50e-9), backend="cpu")
    base_sig = (kind, n, "inv" if mapping else "plain")
    r.branch(f"mode:{kind}/{'inv' if mapping else 'plain'}")
    r.branch(f"eps:{case['eps_mode']}")

    # Deterministic mechanism classifier.  The known defect is: the isotropic table of inverse permittivities keeps
    # its component axis, shape (n, 1), and is broadcast against arr[..., None]; its fingerprint is a broadcasting
    # error naming the operand shape "(n, 1)" for an array whose last axis is neither 1 nor n.  Only when that
    # fingerprint is present are the three symptoms (broadcast error / all-zero indices / depth-1 input blown up
    # to depth n) attributed to it; every other failure stays unclassified.
    defect_fingerprint = False
    if mapping and kind == "iso":
        probe_shape = (2, 2, n + 1)
        tp = ClosestIndex(mapping_from_inverse_permittivities=True).init_module(
            config=cfg,
            materials=mats,
            matrix_voxel_grid_shape=probe_shape,
            single_voxel_size=(50e-9, 50e-9, 50e-9),
            output_shape={"p": probe_shape},
        )
        try:
            tp({"p": jnp.full(probe_shape, float(allowed[0]))})
        except Exception as e:  # noqa: BLE001
            defect_fingerprint = _is_broadcast_error(e) and f"({n}, 1)" in str(e)
        r.branch(f"classifier:fingerprint={'yes' if defect_fingerprint else 'no'}")

    for shape_tag, shape in _shapes(case, rng):
        two_keys = bool(rng.random() < 0.25)
        shapes = {"p": shape}
        if two_keys:
            shapes["q"] = tuple(int(x) for x in rng.integers(1, 5, 3))
        t = ClosestIndex(mapping_from_inverse_permittivities=mapping)
        t = t.init_module(
            config=cfg,
            materials=mats,
            matrix_voxel_grid_shape=shape,
            single_voxel_size=(50e-9, 50e-9, 50e-9),
            output_shape=shapes,
        )
        t = t.init_type({k: ParameterType.CONTINUOUS for k in shapes})
        want_type = ParameterType.BINARY if n == 2 else ParameterType.DISCRETE
        if any(v != want_type for v in t._output_type.values()):
            r.violate("output type is not BINARY for 2 / DISCRETE for >2 materials", {"n": n, "got": repr(t._output_type)})
        r.branch(f"shape:{shape_tag.split(':')[0] if shape_tag.startswith('rand') else shape_tag}")
        for vclass in VCLASSES:
            xs = {k: _values(vclass, s, allowed, rng) for k, s in shapes.items()}
            wit = {
                "materials": desc,
                "mapping_from_inverse_permittivities": mapping,
                "shape": list(shape),
                "value_class": vclass,
                "allowed_values_by_index": [float(a) for a in allowed],
            }
            if xs["p"].size <= 40:
                wit["input_p"] = xs["p"].tolist()
            sig = base_sig + (shape_tag, vclass)
            # ---- forward ---------------------------------------------------------------------------
            try:
                out = t({k: jnp.asarray(v) for k, v in xs.items()})
                out = {k: np.asarray(v) for k, v in out.items()}
            except Exception as e:  # noqa: BLE001
                mech = MECH_INV_ISO if (defect_fingerprint and _is_broadcast_error(e)) else None
                r.count("arrays_judged")
                r.violate(
                    f"ClosestIndex raised {type(e).__name__} on a valid latent array",
                    {**wit, "exception": f"{type(e).__name__}: {str(e)[:300]}"},
                    mechanism=mech,
                    sig=sig + ("raise",),
                )
                continue
            if set(out) != set(xs):
                r.violate("output keys differ from input keys", {**wit, "got_keys": sorted(out)})
                continue
            n_viol_before = len(r.violations) + r.counters.get("violations_dropped", 0)
            for k, x in xs.items():
                y = out[k]
                r.count("arrays_judged")
                acc = _accepted(x, allowed)
                want_any = acc.argmax(-1)  # one accepted index per voxel (for classification / witness only)
                nontrivial = len(np.unique(want_any)) > 1 or vclass in ("huge", "out-of-range", "neg-zero")
                if y.shape != x.shape:
                    all_zero = bool(np.all(y == 0))
                    mech = MECH_INV_ISO if (defect_fingerprint and all_zero and y.shape[:2] == x.shape[:2]) else None
                    r.violate(
                        "output shape differs from input shape",
                        {**wit, "key": k, "in_shape": list(x.shape), "out_shape": list(y.shape)},
                        mechanism=mech,
                        sig=sig + ("shape",),
                    )
                    continue
                r.count("voxels_judged", x.size)
                integer = np.isfinite(y) & (y == np.round(y)) & (y >= 0) & (y <= n - 1)
                yi = np.where(integer, y, 0).astype(int)
                good = integer & np.take_along_axis(acc, yi[..., None], axis=-1)[..., 0]
                ties = int((acc.sum(-1) > 1).sum())
                if ties:
                    r.count("tie_voxels", ties)
                if good.all():
                    r.ok(sig + ("value",) if nontrivial else None)
                else:
                    idx = tuple(int(i) for i in np.argwhere(~good)[0])
                    # classifier: the (n,1) table broadcast against arr[...,None] makes argmin run over a size-1 axis
                    all_zero = bool(np.all(y == 0))
                    mech = MECH_INV_ISO if (defect_fingerprint and all_zero) else None
                    r.violate(
                        "returned index is not a nearest allowed value",
                        {
                            **wit,
                            "key": k,
                            "index": list(idx),
                            "x": float(x[idx]),
                            "got": float(y[idx]),
                            "accepted": [int(j) for j in np.flatnonzero(acc[idx])],
                            "fraction_wrong": float((~good).mean()),
                            "output_all_zero": all_zero,
                        },
                        mechanism=mech,
                        sig=sig + ("value",),
                    )
            # ---- gradient: VJP with random cotangent must be the cotangent itself ------------------------
            fwd_bad = (len(r.violations) + r.counters.get("violations_dropped", 0)) != n_viol_before
            if vclass in ("uniform", "midpoints", "huge") and not fwd_bad:
                w = {k: rng.normal(size=s) for k, s in shapes.items()}

                def loss(p):
                    o = t(p)
                    return sum(jnp.sum(jnp.asarray(w[k]) * o[k]) for k in o)

                try:
                    g = jax.grad(loss)({k: jnp.asarray(v) for k, v in xs.items()})
                except Exception as e:  # noqa: BLE001
                    mech = MECH_INV_ISO if (defect_fingerprint and _is_broadcast_error(e)) else None
                    r.count("gradients_judged")
                    r.violate(
                        f"gradient through ClosestIndex raised {type(e).__name__}",
                        {**wit, "exception": f"{type(e).__name__}: {str(e)[:300]}"},
                        mechanism=mech,
                        sig=sig + ("grad-raise",),
                    )
                    continue
                for k in xs:
                    r.count("gradients_judged")
                    r.check_close(
                        "grad",
                        np.asarray(g[k]),
                        w[k],
                        1e-12,
                        what="gradient is not passed through unchanged (VJP(w) != w)",
                        witness={**wit, "key": k},
                        sig=sig + ("grad",),
                    )
    r.sample = {
        "materials": desc,
        "mapping": mapping,
        "allowed_values_by_index": [float(a) for a in allowed],
        "example": {"x": 0.5 * float(allowed[0] + allowed[1]), "accepted": [0, 1]},
    }
    return r.to_dict()

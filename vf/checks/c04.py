"""C04 — time-reversal gradients equal exact (checkpointed) autodiff gradients.

Differential monitor: the same scene, same cotangents; jax.grad of <cot, detector outputs> w.r.t.
inverse permittivity / permeability under GradientConfig('reversible', k reversible checkpoints) and
under GradientConfig('checkpointed').  Compared on every cell outside the PML slabs.  A trace monitor on
the backward() calls made inside the custom VJP asserts the reverse sweep visits T-1..0 exactly once and
never a negative step.
"""

from __future__ import annotations

PROPERTY = "C04"
RULE = (
    "seeded scenes as C03 (PML subsets incl. none, other faces pec/pmc/periodic/none) with 1-3 detectors out of "
    "field/energy/poynting/phasor (random boxes incl. adjacent to PML, random switches, exact interpolation on/off), "
    "randomly perturbed material arrays, random cotangents, num_checkpoints_reversible in {0, random, T-1}; "
    "conductive scenes only with a checkpoint at every step. distinct = (PML face set, detector kinds, checkpoint "
    "class, magnetic, lossy, material tier); non-trivial iff max|g_ref| > 0"
)
REQUIRED_COUNTERS = ["gradient_pairs", "vjp_backward_events"]
ASSUMPTIONS = [
    "reference = GradientConfig(method='checkpointed') autodiff on the same placed scene",
    "lossless Recorder(modules=[]); default PML grading; gradients compared relative to max|g_ref| over cells outside PML",
]
CASE_TIMEOUT = {"quick": 1200, "thorough": 3000}


def cases(tier, rng):
    n = 12 if tier == "quick" else 84
    out = []
    for i in range(n):
        T = int(rng.integers(10, 20 if tier == "quick" else 50))
        lossy = bool(i % 7 == 3)
        kc = ["zero", "random", "all"][i % 3] if not lossy else "all"
        out.append(
            {
                "seed": int(rng.integers(1 << 30)),
                "steps": T,
                "pml": ["some", "all", "some", None][i % 4],
                "thin_interior": False,
                "init_fields": False,
                "ckpt_class": kc,
                "lossy": lossy,
            }
        )
    return out


def run_case(case):
    from vf import bootstrap
    from vf.result import Res

    bootstrap.ensure()
    r = Res()
    _one(case, r)
    return r.to_dict()


def _scene(sc):
    import numpy as np

    from vf import gen

    rng = np.random.default_rng(sc["seed"])
    scene = gen.random_scene(
        rng,
        steps=sc["steps"],
        interior=(4, 6),
        boundaries=("pec", "pmc", "periodic", "none"),
        pml=sc["pml"],
        pml_thickness=(1, 3),
        materials=("iso" if rng.random() < 0.5 else "diag") if sc["lossy"] else "any_lossless",
        lossy=sc["lossy"],
        n_sources=(1, 3),
        source_kinds=("dipole", "mdipole", "tilted_dipole", "uniform", "gaussian"),
        detectors=("field", "energy", "poynting", "phasor"),
        n_detectors=(1, 3),
        grid=("uniform", "uniform", "rect"),
    )
    T = sc["steps"]
    # the first source is always on from step 0 with the default CW profile, so that the detectors see a signal and
    # the reference gradient is not trivially zero
    if scene["sources"]:
        scene["sources"][0]["switch"] = None
        scene["sources"][0]["profile"] = None
        scene["meta"]["switch_kinds"][0] = "default"
        scene["meta"]["profile_kinds"][0] = "default"
    if sc["ckpt_class"] == "zero":
        k = 0
    elif sc["ckpt_class"] == "all":
        k = T - 1
    else:
        k = int(rng.integers(1, max(2, T - 1)))
    return scene, rng, k


def _one(sc, r):
    import copy

    import jax
    import jax.numpy as jnp
    import numpy as np

    import fdtdx
    from vf import hooks, scenes, sim

    scene, rng, k = _scene(sc)
    meta = scene["meta"]
    T = sc["steps"]
    s_rev = copy.deepcopy(scene)
    s_rev["gradient"] = {"method": "reversible", "num_ckpt_rev": k}
    s_ckp = copy.deepcopy(scene)
    s_ckp["gradient"] = {"method": "checkpointed", "num_checkpoints": int(rng.integers(1, T + 1))}
    b_rev = scenes.build(s_rev)
    b_ckp = scenes.build(s_ckp)
    shape = tuple(scene["shape"])
    mask = sim.pml_mask(b_rev, shape)

    # perturbed material arrays (same for both variants)
    ie0 = b_rev["arrays"].inv_permittivities
    im0 = b_rev["arrays"].inv_permeabilities
    ie = jnp.asarray(np.asarray(ie0) * rng.uniform(0.7, 1.0, size=ie0.shape))
    mu_is_arr = isinstance(im0, jax.Array) and im0.ndim > 0
    im = jnp.asarray(np.asarray(im0) * rng.uniform(0.7, 1.0, size=im0.shape)) if mu_is_arr else im0
    if ie0.shape[0] == 9:
        # keep tensors symmetric: perturb with one factor per cell
        f = rng.uniform(0.7, 1.0, size=(1,) + ie0.shape[1:])
        ie = jnp.asarray(np.asarray(ie0) * f)
        if mu_is_arr and im0.shape[0] == 9:
            im = jnp.asarray(np.asarray(im0) * rng.uniform(0.7, 1.0, size=(1,) + im0.shape[1:]))

    # random cotangents per detector array
    cots = {}
    for dn, st in b_rev["arrays"].detector_states.items():
        for kk, v in st.items():
            c = rng.standard_normal(v.shape)
            if jnp.iscomplexobj(v):
                c = c + 1j * rng.standard_normal(v.shape)
            cots[(dn, kk)] = jnp.asarray(c)
    key = jax.random.PRNGKey(7)

    def make_loss(built):
        def loss(ie_, im_):
            arr = built["arrays"].aset("inv_permittivities", ie_)
            if mu_is_arr:
                arr = arr.aset("inv_permeabilities", im_)
            _, out = fdtdx.run_fdtd(arrays=arr, objects=built["objects"], config=built["config"], key=key, show_progress=False)
            tot = 0.0
            for (dn, kk), c in cots.items():
                tot = tot + jnp.sum(jnp.real(jnp.conj(c) * out.detector_states[dn][kk]))
            return tot

        return loss

    argn = (0, 1) if mu_is_arr else (0,)
    g_ref_f = jax.jit(jax.value_and_grad(make_loss(b_ckp), argnums=argn))
    v_ref, g_ref = g_ref_f(ie, im)
    # natural scales for the case "reference gradient exactly zero"
    _, out_plain = jax.jit(lambda a: fdtdx.run_fdtd(arrays=a, objects=b_ckp["objects"], config=b_ckp["config"], key=key, show_progress=False))(
        b_ckp["arrays"].aset("inv_permittivities", ie)
    )
    cmax = max([float(jnp.abs(c).max()) for c in cots.values()] + [0.0])
    omax = max([float(jnp.abs(out_plain.detector_states[dn][kk]).max()) for (dn, kk) in cots] + [0.0])
    fmax = max(float(jnp.abs(out_plain.fields.E).max()), 376.73 * float(jnp.abs(out_plain.fields.H).max()))
    zero_ref_floor = 1e-9 * cmax * omax + 1e-12 * cmax * fmax**2
    with hooks.trace_forward() as log:
        g_rev_f = jax.jit(jax.value_and_grad(make_loss(b_rev), argnums=argn))
        v_rev, g_rev = g_rev_f(ie, im)
        jax.block_until_ready(g_rev)
        jax.effects_barrier()
    rev_steps = [e[1] for e in log.of("backward")]
    r.count("vjp_backward_events", len(rev_steps))
    r.count("gradient_pairs", len(argn))
    det_kinds = tuple(sorted(meta["detector_kinds"]))
    sig = (tuple(meta["pml_faces"]), det_kinds, sc["ckpt_class"], meta["magnetic"], meta["lossy"], meta["material_tier"])
    for f in meta["pml_faces"]:
        r.branch("pml:" + f)
    for d in meta["detector_kinds"]:
        r.branch("det:" + d)
    r.branch("ckpt:" + sc["ckpt_class"])
    r.branch("tier:" + meta["material_tier"] + ("+lossy" if meta["lossy"] else ""))
    r.branch("grid:" + scene["grid"]["kind"])
    wit = {"case": sc, "meta": meta, "shape": list(shape), "k": k}
    near_pml_tensor = sim.full_tensor_near_pml(b_rev, ie, im)
    if near_pml_tensor:
        r.branch("full_tensor_near_pml")

    # trace spec on the reverse sweep inside the VJP
    if sorted(rev_steps) != list(range(T)):
        neg = [t for t in rev_steps if t < 0]
        r.violate(
            "reverse sweep inside the custom VJP does not visit steps T-1..0 exactly once each"
            + (" (negative step executed)" if neg else ""),
            {**wit, "visited": sorted(rev_steps)[:80]},
            mechanism="reverse-sweep-extra-step-minus-one" if sorted(rev_steps) == list(range(-1, T)) else None,
            sig=sig,
        )
    else:
        r.ok(None)

    # forward values
    r.check_close("loss", np.asarray(v_rev), np.asarray(v_ref), 1e-9, witness=wit, sig=None)
    tol = 1e-8 if (meta["lossy"] or meta["material_tier"] == "full") else 1e-9
    names = ["inv_permittivities", "inv_permeabilities"]
    for i in range(len(argn)):
        gr = np.asarray(g_ref[i]) * mask[None]
        gv = np.asarray(g_rev[i]) * mask[None]
        scale = float(np.abs(gr).max())
        if not np.all(np.isfinite(gv)):
            r.violate(f"reversible gradient w.r.t. {names[i]} is not finite", wit, sig=sig)
            continue
        if scale == 0:
            # the reference is exactly zero (the detectors saw nothing yet): the reversible gradient may carry the
            # round-off residue of the reverse reconstruction (observed 5e-38 for |E| ~ 3e-4), nothing more
            if float(np.abs(gv).max()) <= zero_ref_floor:
                r.ok(None)
            else:
                r.violate(
                    f"reference gradient {names[i]} is zero but reversible one is not",
                    {**wit, "max_abs_reversible": float(np.abs(gv).max()), "floor": zero_ref_floor},
                    sig=sig,
                )
            continue
        diff = np.abs(gv - gr)
        err = float(diff.max()) / scale
        r.worst("worst_rel_err_" + names[i], err)
        if err <= tol:
            r.ok(sig)
            continue
        idx = np.unravel_index(int(np.argmax(diff)), diff.shape)
        # deterministic classifier: is every wrong cell in the first interior layer next to a PML slab?
        wrong = diff > tol * scale
        near = _first_layer_next_to_pml(mask)
        near2 = sim.near_pml(b_rev, 2)
        nine_comp = any(np.asarray(x).ndim == 4 and np.asarray(x).shape[0] == 9 for x in (ie, im))
        mech = None
        if sorted(rev_steps) == list(range(-1, T)) and wrong.any() and not (wrong & ~near[None]).any():
            mech = "reverse-sweep-extra-step-minus-one"
        elif sorted(rev_steps) == list(range(T)) and nine_comp and meta["pml_faces"] and (near_pml_tensor or not (wrong & ~near2[None]).any()):
            # 9-component runs: the anisotropic stencil (and with it the gradient w.r.t. the off-diagonal entries of
            # every cell) reads curl values two cells away, i.e. inside the un-reconstructed PML for cells next to it
            mech = "full-tensor-near-pml"
        r.violate(
            f"reversible gradient w.r.t. {names[i]} differs from checkpointed autodiff: rel err {err:.3e}",
            {**wit, "array": names[i], "index": [int(x) for x in idx], "got": float(gv[idx]), "want": float(gr[idx]), "rel_err": err,
             "wrong_cells": int(wrong.sum()), "wrong_cells_not_adjacent_to_pml": int((wrong & ~near[None]).sum())},
            mechanism=mech,
            sig=sig,
        )
    r.sample = {"case": sc, "meta": meta, "k": k, "loss": float(v_ref), "max|g_ref|": float(np.abs(np.asarray(g_ref[0])).max())}


def _first_layer_next_to_pml(mask):
    """cells outside PML that touch a PML cell along an axis (6-neighbourhood)."""
    import numpy as np

    pml = ~mask
    near = np.zeros_like(mask)
    for a in range(3):
        for sh in (1, -1):
            rolled = np.roll(pml, sh, axis=a)
            sl = [slice(None)] * 3
            sl[a] = 0 if sh == 1 else -1
            rolled[tuple(sl)] = False
            near |= rolled
    return near & mask

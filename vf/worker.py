"""Long-lived worker: reads one JSON case per line on stdin, answers one `RESULT <json>` line each.

fd 1 is re-pointed at stderr so that nothing fdtdx / tqdm / jax prints can corrupt the protocol.
"""

from __future__ import annotations

import importlib
import json
import os
import sys
import time
import traceback


def _classify_exception(exc: BaseException) -> tuple[str, str]:
    """'violated' when the exception came out of the code under test, 'inconclusive' otherwise."""
    from vf import bootstrap
    from vf.result import HarnessInconclusive, Violation

    if isinstance(exc, Violation):
        return "violated", str(exc)
    if isinstance(exc, (HarnessInconclusive, bootstrap.TreeOriginError, MemoryError)):
        return "inconclusive", f"{type(exc).__name__}: {exc}"
    tb = traceback.extract_tb(exc.__traceback__)
    src = os.path.realpath(bootstrap.REPO_SRC) + os.sep
    in_repo = any(os.path.realpath(fr.filename).startswith(src) for fr in tb)
    return ("violated" if in_repo else "inconclusive"), f"{type(exc).__name__}: {exc}"


def main():
    proto = os.fdopen(os.dup(1), "w", buffering=1)
    os.dup2(2, 1)
    sys.stdout = sys.stderr
    mod_name = sys.argv[1]
    sys.path.insert(0, os.path.dirname(os.path.dirname(os.path.abspath(__file__))))
    try:
        mod = importlib.import_module(f"vf.checks.{mod_name}")
        if hasattr(mod, "worker_init"):
            mod.worker_init()
        proto.write("READY\n")
    except BaseException as e:  # noqa: BLE001
        traceback.print_exc()
        proto.write("FATAL " + json.dumps({"error": f"{type(e).__name__}: {e}"}) + "\n")
        return
    for line in sys.stdin:
        line = line.strip()
        if not line:
            continue
        if line == "QUIT":
            break
        case = json.loads(line)
        t0 = time.time()
        try:
            res = mod.run_case(case)
            if not isinstance(res, dict):
                res = res.to_dict()
        except BaseException as e:  # noqa: BLE001
            status, msg = _classify_exception(e)
            tb = traceback.format_exc()
            sys.stderr.write(tb)
            res = {
                "status": status,
                "evals": 1,
                "sigs": [],
                "counters": {},
                "witness": {"exception": msg, "traceback_tail": tb.splitlines()[-12:]},
                "mechanism": getattr(e, "mechanism", None),
            }
        res["wall_s"] = round(time.time() - t0, 3)
        res["case_id"] = case.get("id")
        proto.write("RESULT " + json.dumps(res, default=_json_default) + "\n")
    proto.close()


def _json_default(o):
    try:
        import numpy as np

        if isinstance(o, np.generic):
            return o.item()
        if isinstance(o, np.ndarray):
            return o.tolist()
    except Exception:
        pass
    try:
        return float(o)
    except Exception:
        return repr(o)


if __name__ == "__main__":
    main()

"""Per-property manifest text.  `python -m vf.registry` regenerates MANIFEST.json from this table and
from which `vf/checks/cNN.py` modules exist (a property without a module is listed under
not_applicable with the reason below)."""

from __future__ import annotations

import json
import os

ROOT = os.path.dirname(os.path.dirname(os.path.abspath(__file__)))

# id -> (technique, level text, level note)
R: dict[str, tuple[str, str, str]] = {}


def reg(pid, technique, text, note):
    R[pid] = (technique, text, note)


_TB = "CPython, JAX/XLA CPU float64 numerics, numpy; scenes are built through the public place_objects/apply_params"

reg("C01", "runtime invariant monitor at every time step (energy functional computed from the hooked state)",
    "Seeded closed-domain scenes (all wall/periodic/Bloch mixes, size-1 axes, stretched grids, diagonal materials) are stepped with the real forward(); the discrete Yee energy is asserted constant (1e-9) or non-increasing (lossy) at every step. Held-on-K-executions, not a proof.",
    _TB + "; on stretched grids each Yee component is weighted by its own primal/dual control volume (see DESIGN C01)")
reg("C02", "metamorphic runtime monitor: backward(forward(s)) == s on recorded and random wall-consistent states",
    "Every step of seeded runs over boundary/material/source/switch mixes is undone with the real backward() and compared to the pre-step state; tolerance scaled by the loss number the generator bounds.",
    _TB)
reg("C03", "trace monitor on forward/backward hooks + per-step differential against the recorded forward trajectory",
    "Forward trajectories are recorded through a hook on forward(); the reverse sweep (manual backward steps, full_backward and the sweep inside the custom VJP) is compared at every step on cells outside the PML; the trace spec forbids repeated, skipped or negative reverse steps.",
    _TB + "; lossless Recorder(modules=[])")
reg("C04", "differential runtime monitor: reversible VJP vs checkpointed autodiff on the same scene and cotangents, plus reverse-sweep trace spec",
    "Seeded scenes (PML subsets, detectors of every differentiable kind, random cotangents, every admissible number of reversible checkpoints) are differentiated both ways; gradients w.r.t. inverse permittivity/permeability are compared on all cells outside the PML.",
    _TB + "; checkpointed autodiff is the reference")
reg("C05", "exhaustive runtime walk of the slice partition + differential runs under every gradient strategy with a forward-step trace monitor",
    "The slice-boundary function is evaluated for every (T,k) up to a bound (exhaustive); seeded scenes are run with no/checkpointed/reversible gradient configs and compared bit-for-bit-ish (1e-12) while a hook asserts each step 0..T-1 executed exactly once.",
    _TB)
reg("C06", "history monitor: random run/reset/poison/partial-run histories on one container, differential against single-call runs",
    "Random partitions of [0,T) through custom_fdtd_forward and random histories (run, reset, reuse, partial, NaN/Inf poisoning) over one container must reproduce the single-call result and leave no time-dependent state after reset().",
    _TB)
reg("C07", "trace monitor on stopping-condition evaluations + reference predicate from the documented rule",
    "A delegating wrapper logs every evaluation (t, continue?) of the real condition; the halt step must be the first stop, within max_steps/total and not before min_steps; the halted state equals a plain run of that length.",
    _TB)
reg("C08", "metamorphic runtime monitor: cyclic axis relabelling of the scene description",
    "Scenes are rotated x->y->z on the description; fields and raw detector records of the rotated runs must be the rotated records of the original.",
    _TB)
reg("C09", "metamorphic runtime monitor: N-cell periodic/Bloch domain vs tiled m*N supercell",
    "forward() on a domain and on its tiled supercell with Bloch phase per copy must agree cell for cell at every step.",
    _TB)
reg("C10", "metamorphic runtime monitor: superposition and scaling of sources / initial state",
    "Runs with each source alone, all together with random amplitude factors and with an initial state must superpose in fields and linear detector records and scale quadratically in energy/flux records.",
    _TB)
reg("C11", "differential runtime monitor: real vs forced-complex storage",
    "The same scene with use_complex_fields None/True: real parts equal, imaginary parts exactly zero, all detector arrays equal.",
    _TB + "; mode-overlap / field-projection detectors not driven")
reg("C12", "threshold monitor on the library's own energy / field detectors vs a large reference domain",
    "Pulsed zero-net-charge dipoles in PML boxes (thickness 8..20): residual energy < 1e-6 of peak, interior record vs large reference domain < 1e-4 relative energy.",
    _TB + "; reference domain = 12 extra cells margin + 20-cell PML")
reg("C13", "threshold monitor on Poynting flux detectors in front of / behind plane sources",
    "All six directions, random polarisations/resolutions, CW and pulsed: backward/forward power < 1e-3 (uniform) or < 0.1 (Gaussian, r>=0.3 lambda).",
    _TB)
reg("C14", "exhaustive schedule model check against an independent predicate + twin-run / row-snapshot monitors in real runs",
    "OnOffSwitch on-lists and index maps are compared with a predicate written from the documentation over a parameter grid; in runs, source-removed twins must be bit-identical at inactive steps and detector rows must change exactly at active steps in order.",
    _TB)
reg("C15", "differential runtime monitor against an independent numpy co-location stencil",
    "FieldDetector rows after real forward steps on random fields vs a numpy oracle with boundary-appropriate halos, for every edge/corner contact class of the detector box, both interior fast path and edge fallback.",
    _TB)
reg("C16", "differential runtime monitor between detector families of one run",
    "Reduced vs spatial records, +/- direction, component selection, closed surface vs six faces, inverse phasor subtraction, on uniform and stretched grids.",
    _TB)
reg("C17", "differential runtime monitor: phasor states vs windowed DFT of the FieldDetector history of the same run",
    "Every phasor-family detector is compared with the DFT sum computed from the recorded field history (frequencies, strides, windows, switches, both scaling modes).",
    _TB + "; apodization weights are stored in float32 by fdtdx, windowed cases judged at 1e-5")
reg("C18", "differential runtime monitor of apply_params against a per-cell numpy oracle, over parameter histories",
    "Continuous / discrete / etched devices with isotropic, diagonal and full tensors: per-cell materials vs oracle, outside-device cells bit-identical, history independence.",
    _TB)
reg("C19", "differential runtime monitor against nearest-value oracle incl. gradient pass-through",
    "ClosestIndex on random arrays / material sets / shapes vs argmin oracle (ties accept both).",
    _TB)
reg("C20", "runtime invariant monitors on projection outputs and gradients",
    "Range, monotonicity, fixed points, beta=0/inf limits, finite gradients, agreement of smoothed and plain projection in interface-free cells.",
    _TB)
reg("C21", "runtime algebraic monitors (invariance, idempotence, mean preservation)",
    "Each symmetry transform on random arrays/shapes.", _TB)
reg("C22", "runtime algebraic monitors (affinity, constants, range, mirror commutation)",
    "GaussianSmoothing2D on random designs/paddings.", _TB)
reg("C23", "differential runtime monitor against BFS connectivity oracle on random and adversarial designs",
    "RemoveFloatingMaterial == BFS component from the bottom; ConnectHolesAndStructures leaves no floating material and no enclosed background.",
    _TB)
reg("C24", "differential runtime monitor against box-majority and column-enumeration oracles",
    "Binary median filter vs sliding-window majority under the configured padding; pillar discretisation vs enumerated allowed columns (any minimiser accepted).",
    _TB)
reg("C25", "runtime monitor with morphological-opening oracle and termination watchdog",
    "BrushConstraint2D outputs are binary and both phases are unions of in-domain brush placements.", _TB)
reg("C26", "runtime monitor recomputing every constraint from the resolved slices + icontract postconditions on grid helpers",
    "Random and bounded-exhaustive constraint systems; every successful placement is re-judged constraint by constraint.", _TB)
reg("C27", "metamorphic runtime monitor: permutations of object and constraint lists",
    "Identical success/failure and identical slices under random permutations.", _TB)
reg("C28", "differential runtime monitor against a numpy painter",
    "Material arrays after place_objects vs painter over (placement_order, list index).", _TB)
reg("C29", "differential runtime monitor: object state after apply_params vs fresh apply against post-device arrays",
    "All per-axis interval relations between device and source/detector boxes.", _TB)
reg("C30", "exhaustive runtime walk of recorder pipelines against an interpolation oracle",
    "Recorder with LinearReconstructEveryK / DtypeConversion: compress a random history, decompress every t>=start.", _TB)
reg("C31", "metamorphic runtime monitor: export -> import -> place, compare placements and arrays",
    "Random serialisable scenes.", _TB)
reg("C32", "exhaustive-over-symmetry-tuples runtime monitor against parity/mirror oracle",
    "unfold_fields / unfold_detector_states on random arrays.", _TB)
reg("C33", "differential runtime monitor: reduced-domain run unfolded vs full-domain run",
    "Electric-plane symmetry on each axis with parity-consistent random fields, within the light cone.", _TB)
reg("C34", "differential runtime monitor of symmetric placement bookkeeping against interval arithmetic",
    "Random volumes / symmetry tuples / object boxes.", _TB)
reg("C35", "differential runtime monitor against analytic pole models + root scan",
    "Random Lorentz/Drude/critical-point poles.", _TB)
reg("C36", "per-step recurrence monitor + long-run boundedness monitor with von-Neumann reference model",
    "Random dispersive scenes; accepted passive media stepped 1e4 times in closed boxes.", _TB)
reg("C37", "differential runtime monitor against brute-force oracles + icontract contracts",
    "RectilinearGrid helpers on random edge arrays.", _TB)
reg("C38", "metamorphic runtime monitor: equivalent grid descriptions",
    "UniformGrid vs RectilinearGrid.uniform vs QuasiUniformGrid with equal spacings.", _TB)
reg("C39", "differential runtime monitor against tensor algebra oracles", "Material normalisation / ordering.", _TB)
reg("C40", "icontract snapshot/ensure contracts on TreeClass.aset under random nested updates",
    "Deep structural snapshots before/after.", _TB)
reg("C41", "runtime monitors on wave descriptions and temporal profiles", "Random parameters.", _TB)
reg("C42", "differential subprocess runs under emulated host device counts",
    "XLA host platform device count 1/2/4.", _TB)
reg("C43", "differential runtime monitor against analytic inclusion predicates",
    "Spheres, cylinders, polygons on uniform and stretched grids.", _TB)


# ids whose check has been validated on the unchanged tree (quick tier silent, evidence valid)
READY = {f"C{i:02d}" for i in range(1, 44)}


def build_manifest():
    checks = []
    na = []
    props = [json.loads(l) for l in open(os.path.join(ROOT, "properties.jsonl"))]
    for p in props:
        pid = p["id"]
        mod = os.path.join(ROOT, "vf", "checks", pid.lower() + ".py")
        if not os.path.exists(mod) or pid not in R or pid not in READY:
            na.append({"property_id": pid, "reason": "check not built yet in this revision of /verif (planned in DESIGN.md section 5)"})
            continue
        tech, text, note = R[pid]
        checks.append(
            {
                "property_id": pid,
                "quick_cmd": f"./check {pid} --tier quick",
                "thorough_cmd": f"./check {pid} --tier thorough",
                "evidence_file": f"evidence/{pid}.json",
                "replay_cmd_template": f"./check {pid} --replay {{path}}",
                "engine": "vf",
                "level_claimed": {"category": "exploration", "text": text, "design_ref": f"DESIGN.md section 5, {pid}"},
                "level_note": note,
                "technique": tech,
            }
        )
    return {
        "version": 1,
        "setup_cmd": "/venv/bin/python -m pip install --quiet --no-index --find-links /opt/veriftools/wheels --target /verif/.deps icontract || true",
        "hooks": {
            "guard": "FDTDX_VERIF",
            "enable": "no source hooks: checks import fdtdx from /repo/src (import is the build) and wrap module attributes from the harness; FDTDX_VERIF=1 is exported by ./check but read by nothing in /repo",
            "baseline_off_cmd": "cd /repo && /venv/bin/python -m pytest -ra -q -p no:cacheprovider --timeout=900 --continue-on-collection-errors",
            "source_commits": [],
            "add_only": True,
        },
        "engines": [
            {
                "name": "vf",
                "path": "vf/",
                "serves_properties": [c["property_id"] for c in checks],
                "kind_free_text": "runtime monitoring harness: seeded workloads over the real fdtdx code in worker processes, monitors/oracles per property, three-valued verdicts, evidence writer",
            }
        ],
        "checks": checks,
        "notes": "Exit codes: 0 held (KNOWN-FINDING lines possible), 1 VIOLATION, 2 INCONCLUSIVE. VERIF_SEED seeds all workloads.",
        "not_applicable": na,
    }


if __name__ == "__main__":
    m = build_manifest()
    with open(os.path.join(ROOT, "MANIFEST.json"), "w") as f:
        json.dump(m, f, indent=1)
    print(f"MANIFEST.json: {len(m['checks'])} checks, {len(m['not_applicable'])} not_applicable")

"""C17 — phasor detectors compute the windowed discrete Fourier transform.

Differential monitor inside ONE real run: every phasor-family detector state is compared with
    scale * sum_{t in kept} w(t) * f(t) * exp(i*omega*t*dt)
computed from the FieldDetector history f(t) recorded over the same region in the same run; the phasor Poynting
detectors' post-processing is compared with Re(E x H*) of those phasors integrated with face areas.
"""

from __future__ import annotations

PROPERTY = "C17"
RULE = (
    "seeded closed / PML scenes, uniform or stretched grid, two dipoles, T = 20..60; one box with PhasorDetector "
    "(random component subset, reduce on/off), one plane with PhasorPoyntingFluxDetector (both directions, scalar and "
    "all-component), one box with ClosedSurfacePhasorPoyntingFluxDetector (outward/inward); 1-3 frequencies; "
    "dft_subsample in {1,2,5,'auto'}; apodization in {none, Gaussian, Tukey alpha 0/.5/1}; random detector switches; "
    "scaling continuous / pulse. distinct = (detector kind, stride, window, scaling, switch kind, grid); non-trivial "
    "iff the expected phasor is non-zero"
)
REQUIRED_COUNTERS = ["phasor_states_compared", "flux_values_compared"]
ASSUMPTIONS = [
    "kept steps = every stride-th active step of the detector's switch; window evaluated at t*dt from the documented formulas",
    "float64/complex128 detectors, rtol 1e-9 relative to the largest expected entry",
    "a PhasorDetector's record slots follow the fixed order Ex,Ey,Ez,Hx,Hy,Hz restricted to the listed components "
    "(the order FieldDetector uses and the update loop implements), also when the subset is listed in another order",
]
CASE_TIMEOUT = {"quick": 1200, "thorough": 3000}


def cases(tier, rng):
    n = 12 if tier == "quick" else 80
    out = []
    for i in range(n):
        out.append({"seed": int(rng.integers(1 << 30)), "grid": ["uniform", "rect"][i % 2], "pml": bool(i % 3 == 0), "steps": int(rng.integers(20, 60))})
    return out


def run_case(case):
    from vf import bootstrap
    from vf.result import Res

    bootstrap.ensure()
    r = Res()
    _one(case, r)
    return r.to_dict()


def _window_values(w, t):
    import numpy as np

    if not w:
        return np.ones_like(t)
    if w["kind"] == "gaussian":
        return np.exp(-((t - w["center_time"]) ** 2) / (2.0 * w["sigma_time"] ** 2))
    start, end, alpha = w["start_time"], w["end_time"], w.get("alpha", 0.5)
    x = (t - start) / (end - start)
    inr = (x >= 0) & (x <= 1)
    if alpha <= 0:
        return np.where(inr, 1.0, 0.0)
    half = alpha / 2
    left = 0.5 * (1 + np.cos(np.pi * (x / half - 1)))
    right = 0.5 * (1 + np.cos(np.pi * ((x - 1) / half + 1)))
    win = np.where(x < half, left, np.where(x > 1 - half, right, 1.0))
    return np.where(inr, win, 0.0)


def _on_list(sw, T, dt):
    import math

    if not sw:
        return [True] * T
    if "fixed_on_time_steps" in sw:
        return [t in set(sw["fixed_on_time_steps"]) for t in range(T)]
    start = sw.get("start_time", 0.0)
    end = sw.get("end_time", math.inf)
    iv = sw.get("interval", 1)
    return [(start <= t * dt <= end) and t % iv == 0 for t in range(T)]


def _one(c, r):
    import numpy as np

    from vf import gen, scenes

    rng = np.random.default_rng(c["seed"])
    spacing = 50e-9
    tpml = 2 if c["pml"] else 0
    inner = [int(rng.integers(5, 8)) for _ in range(3)]
    shape = [n + 2 * tpml for n in inner]
    T = c["steps"]
    s = scenes.default_scene(shape=shape, steps=T, spacing=spacing)
    if c["pml"]:
        for f in scenes.FACES:
            s["faces"][f] = {"type": "pml", "thickness": tpml}
    else:
        for a in "xyz":
            k = ["pec", "pmc", "periodic", "none"][int(rng.integers(4))]
            s["faces"][f"min_{a}"] = {"type": k}
            s["faces"][f"max_{a}"] = {"type": k}
    if c["grid"] == "rect":
        edges = []
        for a in range(3):
            w = spacing * np.exp(rng.uniform(0, np.log(2.5), size=shape[a]))
            if tpml:
                w[: tpml + 1] = w[tpml]
                w[-tpml - 1 :] = w[-tpml - 1]
            e = np.concatenate([[0.0], np.cumsum(w)])
            edges.append([float(x) for x in e - e[-1] / 2])
        s["grid"] = {"kind": "rect", "edges": edges}
    wl = float(rng.uniform(8, 12)) * spacing
    s["sources"] = [
        {"kind": "dipole", "lo": [tpml + int(rng.integers(0, n)) for n in inner], "polarization": int(rng.integers(3)), "wavelength": wl},
        {"kind": "dipole", "lo": [tpml + int(rng.integers(0, n)) for n in inner], "polarization": int(rng.integers(3)), "wavelength": wl * 0.7, "source_type": "magnetic"},
    ]
    dt_nom = 0.99 * spacing / (np.sqrt(3) * 299792458.0)
    lo, hi = [], []
    for a in range(3):
        l = int(rng.integers(tpml, tpml + inner[a] - 2))
        h = int(rng.integers(l + 2, tpml + inner[a] + 1))
        lo.append(l)
        hi.append(h)
    pa = int(rng.integers(3))
    plo, phi = list(lo), list(hi)
    phi[pa] = plo[pa] + 1
    exact = bool(rng.integers(2))
    wls = [wl, wl * 0.7, wl * 1.4][: int(rng.integers(1, 4))]
    comps_all = ["Ex", "Ey", "Ez", "Hx", "Hy", "Hz"]

    def opts():
        w = [None, {"kind": "gaussian", "center_time": float(rng.uniform(0.3, 0.7)) * T * dt_nom, "sigma_time": float(rng.uniform(0.1, 0.4)) * T * dt_nom},
             {"kind": "tukey", "start_time": float(rng.uniform(0.0, 0.2)) * T * dt_nom, "end_time": float(rng.uniform(0.7, 1.2)) * T * dt_nom, "alpha": float(rng.choice([0.0, 0.5, 1.0]))}][int(rng.integers(3))]
        sw = gen.random_detector_switch(rng, T, dt_nom)
        if sw and "end_time" in sw and sw["end_time"] < 0.3 * T * dt_nom:
            sw = None
        return {"window": w, "dft_subsample": [1, 2, 5, "auto"][int(rng.integers(4))], "scaling_mode": ["continuous", "pulse"][int(rng.integers(2))], "switch": sw}

    dets = [
        {"kind": "field", "name": "hist_box", "lo": lo, "hi": hi, "exact": exact},
        {"kind": "field", "name": "hist_plane", "lo": plo, "hi": phi, "exact": exact},
    ]
    specs = {}
    sub = [x for x in comps_all if rng.random() < 0.6] or ["Hy"]
    if len(sub) > 1 and rng.random() < 0.6:
        # the subset is *listed* in another order; the record slots keep the fixed (Ex..Hz) order of the listed
        # components, exactly as FieldDetector's do (see ASSUMPTIONS)
        sub = [sub[i] for i in rng.permutation(len(sub))]
    for j in range(2):
        o = opts()
        d = {"kind": "phasor", "name": f"ph{j}", "lo": lo, "hi": hi, "components": sub if j == 0 else comps_all, "wavelengths": wls, "reduce": bool(j == 1 and rng.integers(2)), "exact": exact, **o}
        dets.append(d)
        specs[d["name"]] = d
    for j, (dirn, ka) in enumerate((("+", False), ("-", True))):
        o = opts()
        d = {"kind": "phasor_poynting", "name": f"pp{j}", "lo": plo, "hi": phi, "axis": pa, "direction": dirn, "keep_all": ka, "wavelengths": wls, "exact": exact, **o}
        dets.append(d)
        specs[d["name"]] = d
    for j, orient in enumerate(("outward", "inward")):
        o = opts()
        d = {"kind": "closed_phasor_poynting", "name": f"cs{j}", "lo": lo, "hi": hi, "orientation": orient, "wavelengths": wls, "exact": exact, **o}
        dets.append(d)
        specs[d["name"]] = d
    s["detectors"] = dets
    try:
        built = scenes.build(s)
    except Exception as e:  # noqa: BLE001
        if "apodization window sums to" in str(e):
            r.branch("rejected:window_outside_recording")
            r.ok(None)
            r.count("phasor_states_compared", 0)
            return
        raise
    st = scenes.run(built)
    config = built["config"]
    dt = float(config.time_step_duration)
    D = scenes.detector_arrays(st[1])
    placed = {o.name: o for o in built["objects"].detectors}
    grid = config.resolved_grid
    wd = [np.asarray(grid.cell_widths(a), dtype=np.float64) for a in range(3)]
    hist = {"box": D["hist_box/fields"], "plane": D["hist_plane/fields"]}  # (T,6,*region)
    tt = np.arange(T) * dt
    r.branch("grid:" + c["grid"])

    def expected_phasors(d, region):
        on = _on_list(d.get("switch"), T, dt)
        stride = d["dft_subsample"]
        if stride == "auto":
            fmax = max(299792458.0 / w for w in d["wavelengths"])
            stride = max(1, int(np.floor(1.0 / (12 * fmax * dt))))
        active = [t for t in range(T) if on[t]]
        kept = active[::stride]
        w = _window_values(d.get("window"), tt)
        wsum = float(sum(w[t] for t in kept))
        scale = 2.0 / wsum if d["scaling_mode"] == "continuous" else float(stride)
        f = hist[region]
        out, out_nowin = [], []
        for wlv in d["wavelengths"]:
            om = 2 * np.pi * 299792458.0 / wlv
            acc = np.zeros(f.shape[1:], dtype=complex)
            acc0 = np.zeros(f.shape[1:], dtype=complex)
            for t in kept:
                acc = acc + w[t] * f[t] * np.exp(1j * om * t * dt)
                acc0 = acc0 + f[t] * np.exp(1j * om * t * dt)
            out.append(scale * acc)
            out_nowin.append(scale * acc0)
        expected_phasors.nowin = np.stack(out_nowin)  # same scale, window weight dropped from the sum
        return np.stack(out), stride, wsum, len(kept)

    def area(lo_, hi_, axis):
        ws = [wd[a][lo_[a] : hi_[a]] if a != axis else np.ones(hi_[a] - lo_[a]) for a in range(3)]
        return ws[0][:, None, None] * ws[1][None, :, None] * ws[2][None, None, :]

    def vol(lo_, hi_):
        return wd[0][lo_[0] : hi_[0], None, None] * wd[1][None, lo_[1] : hi_[1], None] * wd[2][None, None, lo_[2] : hi_[2]]

    def poynting(ph):  # (nf,6,*sp) -> (nf,3,*sp)
        E, H = ph[:, :3], np.conj(ph[:, 3:])
        return np.real(np.stack([E[:, 1] * H[:, 2] - E[:, 2] * H[:, 1], E[:, 2] * H[:, 0] - E[:, 0] * H[:, 2], E[:, 0] * H[:, 1] - E[:, 1] * H[:, 0]], axis=1))

    for name, d in specs.items():
        region = "plane" if d["kind"] == "phasor_poynting" else "box"
        ph, stride, wsum, nkept = expected_phasors(d, region)
        sw = d.get("switch")
        sig = (d["kind"], d["dft_subsample"], (d.get("window") or {}).get("kind", "none"), d["scaling_mode"], "default" if not sw else "+".join(sorted(sw)), c["grid"])
        wit = {"case": c, "detector": {k: v for k, v in d.items() if k not in ("lo", "hi")}, "box": [d["lo"], d["hi"]], "stride": stride, "kept_steps": nkept, "window_sum": wsum, "dt": dt}
        r.branch(f"{d['kind']}:window={sig[2]}")
        r.branch(f"stride:{d['dft_subsample']}")
        if int(placed[name]._dft_stride) != stride:
            r.violate("resolved DFT stride differs from the documented rule", {**wit, "got": int(placed[name]._dft_stride)}, sig=sig)
        if d["kind"] == "phasor":
            idx = sorted(["Ex", "Ey", "Ez", "Hx", "Hy", "Hz"].index(x) for x in d["components"])
            if idx != [["Ex", "Ey", "Ez", "Hx", "Hy", "Hz"].index(x) for x in d["components"]]:
                r.branch("components_listed_out_of_order")
            want = ph[:, idx]
            if d.get("reduce"):
                V = vol(d["lo"], d["hi"])
                want = (want * V[None, None]).sum(axis=(2, 3, 4)) / V.sum()
            r.count("phasor_states_compared")
            r.check_close("phasor", D[f"{name}/phasor"][0], want, 1e-9, witness=wit, sig=sig)
        elif d["kind"] == "phasor_poynting":
            r.count("phasor_states_compared")
            r.check_close("phasor", D[f"{name}/phasor"][0], ph, 1e-9, witness=wit, sig=sig)
            S = poynting(ph)
            if d["direction"] == "-":
                S = -S
            if d["keep_all"]:
                A3 = np.stack([area(d["lo"], d["hi"], a) for a in range(3)])
                want = (S * A3[None]).sum(axis=(2, 3, 4))
            else:
                want = (S[:, pa] * area(d["lo"], d["hi"], pa)[None]).sum(axis=(1, 2, 3))
            if d["scaling_mode"] == "continuous":
                want = 0.5 * want
            got = np.asarray(placed[name].compute_poynting_flux(st[1].detector_states[name]))
            r.count("flux_values_compared")
            r.check_close("phasor_poynting_flux", got, want, 1e-9, witness=wit, sig=sig)
        else:
            # per-face phasors and the net flux
            ph_nowin = expected_phasors.nowin
            net = np.zeros(len(d["wavelengths"]))
            bad = False
            active = [a for a in range(3) if d["hi"][a] - d["lo"][a] > 1]
            for a in active:
                for side, sgn in (("min", -1.0), ("max", 1.0)):
                    slc = [slice(None)] * 5
                    slc[a + 2] = slice(0, 1) if side == "min" else slice(-1, None)
                    face = ph[tuple(slc)]
                    # deterministic classifier: the observed face equals the sum with the window weight dropped
                    gotf = D[f"{name}/phasor_axis{a}_{side}"][0]
                    fn = ph_nowin[tuple(slc)]
                    mech = None
                    if d.get("window") and gotf.shape == fn.shape and float(np.abs(gotf - fn).max()) <= 1e-9 * max(float(np.abs(fn).max()), 1e-300):
                        mech = "closed-surface-phasor-ignores-apodization"
                    r.count("phasor_states_compared")
                    ok = r.check_close("phasor_face", D[f"{name}/phasor_axis{a}_{side}"][0], face, 1e-9, witness={**wit, "face": f"{a}{side}"}, mechanism=mech, sig=sig)
                    bad = bad or not ok
                    flo, fhi = list(d["lo"]), list(d["hi"])
                    if side == "min":
                        fhi[a] = flo[a] + 1
                    else:
                        flo[a] = fhi[a] - 1
                    net = net + sgn * (poynting(face)[:, a] * area(flo, fhi, a)[None]).sum(axis=(1, 2, 3))
            if d["orientation"] == "inward":
                net = -net
            if d["scaling_mode"] == "continuous":
                net = 0.5 * net
            got = np.asarray(placed[name].compute_net_flux(st[1].detector_states[name]))
            r.count("flux_values_compared")
            r.check_close("closed_surface_net_flux", got, net, 1e-9, witness=wit, mechanism="closed-surface-phasor-ignores-apodization" if (bad and mech) else None, sig=sig)
    r.sample = {"case": c, "detectors": {k: {kk: vv for kk, vv in v.items() if kk in ("kind", "dft_subsample", "window", "scaling_mode", "switch")} for k, v in specs.items()}}

"""C26 — whenever object placement succeeds, the final slices satisfy every constraint.

The real `fdtdx.resolve_object_constraints` (and `place_objects` for a subset) is run on
 (a) a bounded family walked completely (thorough) / strided (quick): 2-3 objects x constraint kind x anchor
     positions {-1,0,1} x margins {0, +-1 cell; real or index} x 4 grids (UniformGrid, explicit uniform edges,
     two stretched grids) x every quarter-cell coordinate for the coordinate constraints;
 (b) random systems of <= 8 objects built around a hidden feasible layout (so most succeed) with redundant and
     contradictory extras, forward references, merged multi-axis constraints, size-1/2 axes.
Each successful outcome is judged by `vf.oracles.placement_gen.verify`, which recomputes every documented rule
from the final slices by brute force (ties: every minimiser accepted).  icontract postconditions on
`RectilinearGrid.coord_to_index / bounds_for_center / bounds_for_anchor` stay attached during the runs.
"""

from __future__ import annotations

PROPERTY = "C26"
RULE = (
    "family: one system per parameter tuple (kind, grid, anchors, margin, sizes, axis); random: seeded systems around a "
    "hidden layout; an evaluation = one successful placement judged rule by rule; distinct = (source, grid kind, "
    "mode/family, set of constraint kinds used); non-trivial = success with >= 1 relational rule evaluated"
)
REQUIRED_COUNTERS = ["successes", "rules_checked", "contract_calls"]
ASSUMPTIONS = [
    "success = resolve_object_constraints returned no error message (this is what place_objects raises on)",
    "position/real-position rules minimise over the intervals that fit into the volume (bounds_for_anchor doc); "
    "targets farther than one cell from every candidate are counted in branches['clamped'] and not judged as violations",
    "size rule on non-uniform grids: cell count from the lower domain edge, exact edge match (1e-6 cell) else smallest "
    "covering count clamped to the axis (docstring of _real_length_to_grid_size)",
    "near-ties within 1e-9 of the smallest cell width accept both candidates",
]
CASE_TIMEOUT = {"quick": 600, "thorough": 1800}

# A target (other anchor + margin, real coordinate, extension target) that lies more than one whole cell away from
# every interval / edge of the volume cannot be "snapped": the solver silently clamps the object into the volume
# (e.g. `B.place_above(A)` with A touching the top wall puts B on top of A's cells).  The planned oracle (DESIGN C26)
# minimises over the intervals that fit, so this is counted (branches['clamped'], worst['max_residual_cells']) and
# not judged.  Set to True to judge it as a violation (mechanism "target-unreachable-clamped-into-volume").
CLAMPED_IS_VIOLATION = False


def EXHAUSTIVE(tier):
    return False  # the family is complete only in the thorough tier and the random part is sampled


def cases(tier, rng):
    from vf.oracles import placement_gen as G

    n_fam = len(G.family_params())
    out = []
    if tier == "quick":
        stride, nblk, nrand, per, nplace = 3, 8, 20, 90, 2
    else:
        stride, nblk, nrand, per, nplace = 1, 28, 260, 500, 14
    out.append({"kind": "regression"})
    idx = list(range(0, n_fam, stride))
    blk = (len(idx) + nblk - 1) // nblk
    for b in range(nblk):
        part = idx[b * blk : (b + 1) * blk]
        if part:
            out.append({"kind": "family", "first": part[0], "stride": stride, "count": len(part)})
    for _ in range(nrand):
        out.append({"kind": "random", "n": per})
    for _ in range(nplace):
        out.append({"kind": "place", "n": 5 if tier == "quick" else 12})
    return out


# ------------------------------------------------------------------------------------------------
_CONTRACT = {"installed": False, "log": [], "calls": 0}


def install_contracts(fdtdx):
    """icontract postconditions on the grid helpers the solver uses; failures are logged, not raised
    (the solver swallows exceptions raised while applying a constraint)."""
    if _CONTRACT["installed"]:
        return True
    from vf import bootstrap

    if not bootstrap.ensure_deps():
        return False
    import icontract
    import numpy as np

    RG = fdtdx.RectilinearGrid

    def _tol(e):
        return 1e-9 * float(np.min(np.diff(e)))

    def post_index(self, axis, coord, snap, result):
        e = np.asarray(self.edges(axis), dtype=np.float64)
        if not (0 <= result <= len(e) - 1):
            return snap != "nearest" and (result in (-1, len(e)))
        if snap == "nearest":
            d = np.abs(e - coord)
            return bool(d[result] <= d.min() + _tol(e))
        if snap == "lower":
            return bool(e[result] <= coord + _tol(e) and (result == len(e) - 1 or coord < e[result + 1] + _tol(e)))
        if snap == "upper":
            return bool(e[result] >= coord - _tol(e) and (result == 0 or coord > e[result - 1] - _tol(e)))
        return True

    def post_center(self, axis, center, size, result):
        e = np.asarray(self.edges(axis), dtype=np.float64)
        lo, hi = result
        if hi - lo != size or lo < 0 or hi > len(e) - 1:
            return False
        c = np.arange(0, len(e) - size)
        d = np.abs(0.5 * (e[c] + e[c + size]) - center)
        return bool(d[lo] <= d.min() + _tol(e))

    def post_anchor(self, axis, size, anchor, position, result):
        e = np.asarray(self.edges(axis), dtype=np.float64)
        lo, hi = result
        if hi - lo != size or lo < 0 or hi > len(e) - 1:
            return False
        c = np.arange(0, len(e) - size)
        d = np.abs(e[c] + 0.5 * (position + 1.0) * (e[c + size] - e[c]) - anchor)
        return bool(d[lo] <= d.min() + _tol(e))

    def wrap(name, post):
        orig = getattr(RG, name)
        checked = icontract.ensure(post)(orig)

        def wrapper(self, *a, **k):
            _CONTRACT["calls"] += 1
            try:
                return checked(self, *a, **k)
            except icontract.ViolationError as ex:
                out = orig(self, *a, **k)
                if len(_CONTRACT["log"]) < 20:
                    _CONTRACT["log"].append({"fn": name, "args": [_js(x) for x in a], "kwargs": {kk: _js(v) for kk, v in k.items()}, "result": _js(out), "edges": [float(x) for x in np.asarray(self.edges(a[0] if a else k["axis"]))], "msg": str(ex)[:200]})
                return out

        wrapper.__wrapped_by_verif__ = True
        setattr(RG, name, wrapper)

    wrap("coord_to_index", post_index)
    wrap("bounds_for_center", post_center)
    wrap("bounds_for_anchor", post_anchor)
    _CONTRACT["installed"] = True
    return True


def _js(x):
    try:
        if isinstance(x, (tuple, list)):
            return [_js(v) for v in x]
        return float(x) if not isinstance(x, (int, str)) else x
    except Exception:  # noqa: BLE001
        return repr(x)


def drain_contracts(r, witness):
    r.counters["contract_calls"] = r.counters.get("contract_calls", 0) + _CONTRACT["calls"]
    _CONTRACT["calls"] = 0
    for ent in _CONTRACT["log"]:
        r.violate(
            f"postcondition of RectilinearGrid.{ent['fn']} failed",
            {"call": ent, **witness},
            mechanism=f"grid-helper-postcondition:{ent['fn']}",
        )
    _CONTRACT["log"].clear()


# ------------------------------------------------------------------------------------------------
def _kinds(system):
    ks = sorted({c["k"] for c in system["constraints"]})
    for o in system["objects"]:
        if any(x is not None for x in o.get("rshape", [])):
            ks.append("rshape")
            break
    for o in system["objects"]:
        if any(x is not None for x in o.get("rpos", [])):
            ks.append("rpos")
            break
    return ",".join(ks)


def classify(fdtdx, system, slices, viol):
    """Deterministic mechanism key for one oracle violation.

    The split is made with fdtdx's own per-constraint consistency routines applied to the final state:
    if the solver's own rule rejects the state it returned as a success, the conflict was simply never
    looked at (the iteration stops as soon as every slice is known); otherwise the solver's rule and the
    documented rule differ."""
    from vf.oracles import placement_gen as G

    rule = viol["rule"]
    if "non-uniform" in viol.get("what", ""):
        return "index-space-constraint-accepted-on-nonuniform-grid"
    if rule == "real_position":
        return "partial-real-position-not-validated"
    try:
        bad = G.solver_self_check(fdtdx, system, slices)
    except Exception:  # noqa: BLE001
        return f"{rule}-violated-unclassified"
    if ("constraint" in viol and viol["constraint"] in bad["constraints"]) or (viol.get("object") in bad["objects"]):
        return "success-without-final-revalidation"
    return f"{rule}-rule-mismatch"


def judge(fdtdx, system, r, source, sig_extra=""):
    """Resolve one system with the real solver and judge it.  Returns (ok, slices)."""
    from vf.oracles import placement_gen as G

    plain = G.strip_meta(system)
    ok, slices, errs = G.resolve(fdtdx, plain)
    drain_contracts(r, {"system": plain})
    gk = "nonuniform" if system["nonuniform"] else system["grid"]["kind"]
    if not ok:
        r.count("failures")
        r.branch("failed:" + ("raised" if "__raised__" in errs else "errors"))
        return ok, slices
    r.count("successes")
    V, st = G.verify(plain, slices)
    r.count("rules_checked", st["rules"])
    r.worst("max_residual_cells", st["max_residual_cells"])
    if st["clamped"]:
        r.branch("clamped", st["clamped"])
    if st["ties"]:
        r.branch("ties", st["ties"])
    sig = f"{source}|{gk}|{sig_extra}|{_kinds(plain)}" if plain["constraints"] or _kinds(plain) else None
    if CLAMPED_IS_VIOLATION and st["clamped_items"] and not V:
        r.violate(
            "placement succeeded although a target is more than one cell away from every admissible position",
            {"system": plain, "slices": slices, "clamped": st["clamped_items"]},
            mechanism="target-unreachable-clamped-into-volume",
            sig=sig,
        )
        return ok, slices
    if not V:
        r.ok(sig)
        return ok, slices
    seen = set()
    for v in V:
        mech = classify(fdtdx, plain, slices, v)
        if mech in seen:
            continue
        seen.add(mech)
        rule = v["rule"]

        def still_bad(t, rule=rule):
            ok3, sl3, _ = G.resolve(fdtdx, t)
            if not ok3:
                return False
            return any(x["rule"] == rule for x in G.verify(t, sl3)[0])

        small = G.shrink(plain, still_bad, budget=60) if len(r.violations) < 3 else plain
        ok4, sl4, _ = G.resolve(fdtdx, small)
        v4 = [x for x in (G.verify(small, sl4)[0] if ok4 else []) if x["rule"] == rule][:1]
        r.violate(
            f"placement succeeded but {v['what']}",
            {"system": small, "slices": sl4 if ok4 else slices, "violated": v4 or [v], "original_violation": v},
            mechanism=mech,
            sig=sig,
        )
    drain_contracts(r, {"system": plain})
    return ok, slices


def run_case(case):
    import numpy as np

    from vf import bootstrap
    from vf.result import Res

    fdtdx = bootstrap.ensure()
    from vf.oracles import placement_gen as G

    r = Res()
    if not install_contracts(fdtdx):
        r.inconclusive("icontract not importable: grid helper postconditions not attached")
    rng = np.random.default_rng(case["seed"])
    if case["kind"] == "family":
        P = G.family_params()
        for j in range(case["count"]):
            p = P[case["first"] + j * case["stride"]]
            system = G.family_system(p)
            _check_grid_class(fdtdx, system, r)
            ok, sl = judge(fdtdx, system, r, "fam", f"{p['fam']}|ax{p['axis']}|{'3obj' if p['third'] else '2obj'}")
            r.branch(f"fam:{p['fam']}:{'ok' if ok else 'fail'}")
            if ok and r.sample is None and p["fam"] == "pos":
                r.sample = {"params": p, "slices": sl}
    elif case["kind"] == "random":
        for j in range(case["n"]):
            system = G.gen_system(rng)
            _check_grid_class(fdtdx, system, r)
            m = system["meta"]
            ok, sl = judge(fdtdx, system, r, "rnd", f"{m['mode']}|n{min(len(system['objects']), 4)}")
            r.branch(f"rnd:{m['mode']}:{m['grid_kind']}:{'ok' if ok else 'fail'}")
            for e in m["extras"]:
                r.branch(f"extra:{e}:{'ok' if ok else 'fail'}")
            if min(system["shape"]) <= 2:
                r.branch("thin-axis")
            if ok and r.sample is None and len(system["objects"]) >= 3:
                r.sample = {"system": G.strip_meta(system), "slices": sl}
    elif case["kind"] == "regression":
        # hand-written: a relation listed before / after the constraints that pin both of its objects
        for gk in ("uniform", "rect_uniform", "nonuniform_b"):
            for consistent in (True, False):
                for rel_first in (True, False):
                    system = G.pinned_pair_system(gk, consistent, rel_first)
                    ok, _ = judge(fdtdx, system, r, "reg", f"pinned-pair|{'consistent' if consistent else 'conflict'}|{'rel-first' if rel_first else 'rel-last'}")
                    r.branch(f"reg:{'consistent' if consistent else 'conflict'}:{'ok' if ok else 'fail'}")
        for size_first in (True, False):
            for conflict in (True, False):
                ok, _ = judge(fdtdx, G.rpos_conflict_system(size_first, conflict), r, "reg", f"rpos|{'conflict' if conflict else 'consistent'}")
                r.branch(f"reg:rpos:{'conflict' if conflict else 'consistent'}:{'ok' if ok else 'fail'}")
    else:
        _place(fdtdx, case, rng, r)
    return r.to_dict()


def _check_grid_class(fdtdx, system, r):
    if system["grid"]["kind"] != "rect":
        return
    from vf.oracles import placement_gen as G

    _, _, config = G.build(fdtdx, {**G.strip_meta(system), "objects": [], "constraints": []})
    if bool(config.has_nonuniform_grid) != bool(system["nonuniform"]):
        r.inconclusive(f"generator and fdtdx disagree on grid uniformity: {system['grid']}")


def _place(fdtdx, case, rng, r):
    """place_objects must agree with resolve_object_constraints: raise <-> errors, same slices."""
    import jax

    from vf.oracles import placement_gen as G

    for j in range(case["n"]):
        system = G.gen_system(rng, max_objects=4)
        plain = G.strip_meta(system)
        ok, slices = judge(fdtdx, system, r, "place", system["meta"]["mode"])
        objects, cons, config = G.build(fdtdx, plain)
        try:
            oc, _arr, _p, _cfg, _info = fdtdx.place_objects(object_list=objects, config=config, constraints=cons, key=jax.random.PRNGKey(0))
            placed_ok = True
        except ValueError as e:
            placed_ok = False
            msg = str(e)
        r.count("place_objects_calls")
        if placed_ok != ok:
            r.violate(
                "place_objects and resolve_object_constraints disagree on success",
                {"system": plain, "resolve_ok": ok, "place_ok": placed_ok, "message": None if placed_ok else msg[:300]},
                mechanism="place-objects-vs-resolve-success",
            )
            continue
        if not ok:
            r.branch("place:fail")
            continue
        got = {o.name: [list(x) for x in o.grid_slice_tuple] for o in oc.objects}
        if got != slices:
            r.violate("place_objects placed objects on different slices than resolve_object_constraints", {"system": plain, "placed": got, "resolved": slices}, mechanism="place-objects-vs-resolve-slices")
        else:
            r.ok(f"place|{system['meta']['grid_kind']}|{system['meta']['mode']}")
            r.branch("place:ok")

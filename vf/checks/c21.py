"""C21 — design symmetry transforms produce symmetric designs.

For every symmetry transform of fdtdx (Horizontal/Vertical/Point/Diagonal in 2D and 3D) and every option
(singleton axis position for the 2D ones, mirror_axis, diagonal_plane, min_min_to_max_max) the real transform
object is initialised through `init_module` and called on hostile arrays.  With S = the reflection / rotation /
transposition the transform is documented to enforce (written independently in numpy on the full 3D array):

    S(f(x)) == f(x)             exactly (bitwise)
    f(x_s) == x_s               exactly for x_s = max(x, S x) (an exactly S-symmetric array built without averaging)
    f(f(x)) == f(x)             exactly
    mean f(x) == mean x         to 1e-9 of max|x| (1e-5 for float32 inputs)
    f(x).shape == x.shape, same dict keys

Invalid option strings must be rejected (ValueError), not silently mapped to some symmetry.
"""

from __future__ import annotations

PROPERTY = "C21"
RULE = (
    "one case per transform configuration (5 two-dimensional x singleton axis in all 3 positions, 10 three-dimensional) "
    "x shapes (size-2 axes, odd/even, non-square where allowed, singleton axes in 3D, 1x1x1) x value classes (normal, "
    "uniform, magnitudes 1e-290..1e300 with signs, small integers, constant, one-hot, already symmetric, anti-symmetric) "
    "x dtype (float64, float32) x 1-2 dict keys; an evaluation is one judged identity on one array; non-trivial when "
    "S(x) != x (for 'symmetric input unchanged': when x_s is not constant); distinct = (config, singleton axis, shape, "
    "value class, dtype, identity)"
)
REQUIRED_COUNTERS = ["comparisons", "arrays_judged"]
ASSUMPTIONS = [
    "finite inputs with |x| <= 1e300 and no subnormal numbers (x + S(x) must not overflow; XLA:CPU flushes subnormals)",
    "2D transforms act on the two non-singleton axes in ascending order: 'horizontal' flips the first of them, "
    "'vertical' the second (as documented in the class docstrings)",
]
CASE_TIMEOUT = {"quick": 600, "thorough": 1800}

CONFIGS = (
    [("H2", {}), ("V2", {}), ("P2", {}), ("D2", {"mm": True}), ("D2", {"mm": False})]
    + [("H3", {"mirror_axis": "x"}), ("H3", {"mirror_axis": "y"}), ("V3", {}), ("P3", {})]
    + [("D3", {"plane": p, "mm": m}) for p in ("xy", "xz", "yz") for m in (True, False)]
)
PLANE_AXES = {"xy": (0, 1), "xz": (0, 2), "yz": (1, 2)}
VCLASSES = ["normal", "uniform", "wide", "ints", "const", "one-hot", "symmetric", "antisymmetric"]


def EXHAUSTIVE(tier):
    return False


def cases(tier, rng):
    out = []
    reps = 1 if tier == "quick" else 10
    for rep in range(reps):
        for name, opt in CONFIGS:
            out.append({"kind": "sym", "name": name, "opt": opt, "n_shapes": 8, "rep": rep})
    out.append({"kind": "reject"})
    return out


# ---------------------------------------------------------------------------------------------------------------
def _S(name, opt, axis):
    """The symmetry operation as a numpy function on the full 3D array (independent of the implementation)."""
    import numpy as np

    if name in ("H2", "V2", "P2", "D2"):
        p, q = [a for a in range(3) if a != axis]
        if name == "H2":
            return lambda a: np.flip(a, p)
        if name == "V2":
            return lambda a: np.flip(a, q)
        if name == "P2":
            return lambda a: np.flip(np.flip(a, p), q)
        if opt["mm"]:
            return lambda a: np.swapaxes(a, p, q)
        return lambda a: np.swapaxes(np.flip(np.flip(a, p), q), p, q)
    if name == "H3":
        ax = {"x": 0, "y": 1}[opt["mirror_axis"]]
        return lambda a: np.flip(a, ax)
    if name == "V3":
        return lambda a: np.flip(a, 2)
    if name == "P3":
        return lambda a: np.flip(a, (0, 1, 2))
    if name == "D3":
        p, q = PLANE_AXES[opt["plane"]]
        if opt["mm"]:
            return lambda a: np.swapaxes(a, p, q)
        return lambda a: np.swapaxes(np.flip(np.flip(a, p), q), p, q)
    raise ValueError(name)


def _make(name, opt):
    from fdtdx.objects.device.parameters import symmetries as sy

    if name == "H2":
        return sy.HorizontalSymmetry2D()
    if name == "V2":
        return sy.VerticalSymmetry2D()
    if name == "P2":
        return sy.PointSymmetry2D()
    if name == "D2":
        return sy.DiagonalSymmetry2D(min_min_to_max_max=opt["mm"])
    if name == "H3":
        return sy.HorizontalSymmetry3D(mirror_axis=opt["mirror_axis"])
    if name == "V3":
        return sy.VerticalSymmetry3D()
    if name == "P3":
        return sy.PointSymmetry3D()
    if name == "D3":
        return sy.DiagonalSymmetry3D(diagonal_plane=opt["plane"], min_min_to_max_max=opt["mm"])
    raise ValueError(name)


def _shapes(name, opt, n, rng):
    """List of (singleton_axis or None, shape3)."""
    if name in ("H2", "V2", "P2", "D2"):
        if name == "D2":
            planes = [(2, 2), (3, 3), (6, 6), (7, 7), (4, 4), (5, 5), (9, 9), (8, 8)]
        else:
            planes = [(2, 2), (2, 5), (5, 2), (3, 3), (4, 7), (6, 6), (7, 4), (3, 8)]
        out = []
        for i, pl in enumerate(planes[:n]):
            for axis in range(3):
                if i >= 2 and (i + axis) % 3 != 0:
                    continue  # every position for the two smallest shapes, one rotating position for the rest
                s = list(pl)
                s.insert(axis, 1)
                out.append((axis, tuple(s)))
        return out
    shapes = [(1, 1, 1), (2, 2, 2), (1, 4, 3), (3, 1, 3), (4, 4, 1), (3, 3, 3), (5, 5, 2), (2, 5, 5), (5, 2, 5), (4, 3, 5), (1, 1, 6), (6, 1, 1), (1, 6, 1)]
    if name == "D3":
        p, q = PLANE_AXES[opt["plane"]]
        shapes = [s for s in shapes if s[p] == s[q]]
        extra = [1, 1, 1]
        extra[p] = extra[q] = 4
        extra[3 - p - q] = 3
        shapes.append(tuple(extra))
    return [(None, s) for s in shapes[: max(n + 2, 6)]]


def _random_shapes(name, opt, n, rng):
    out = []
    for _ in range(n):
        if name in ("H2", "V2", "P2", "D2"):
            a, b = (int(v) for v in rng.integers(2, 13, 2))
            if name == "D2":
                b = a
            axis = int(rng.integers(3))
            s = [a, b]
            s.insert(axis, 1)
            out.append((axis, tuple(s)))
        else:
            s = [int(v) for v in rng.integers(1, 9, 3)]
            if name == "D3":
                p, q = PLANE_AXES[opt["plane"]]
                s[q] = s[p]
            out.append((None, tuple(s)))
    return out


def _values(vclass, shape, S, rng, dt):
    import numpy as np

    if vclass == "normal":
        a = rng.normal(size=shape)
    elif vclass == "uniform":
        a = rng.uniform(0, 1, shape)
    elif vclass == "wide":
        a = rng.choice([-1.0, 1.0], shape) * 10.0 ** rng.uniform(-290 if dt == np.float64 else -30, 300 if dt == np.float64 else 30, shape)
    elif vclass == "ints":
        a = rng.integers(-3, 4, shape).astype(float)
    elif vclass == "const":
        a = np.full(shape, float(rng.normal()))
    elif vclass == "one-hot":
        a = np.zeros(shape)
        a.reshape(-1)[int(rng.integers(a.size))] = 1.0
    elif vclass == "symmetric":
        b = rng.normal(size=shape)
        a = np.maximum(b, S(b))
    elif vclass == "antisymmetric":
        b = rng.normal(size=shape)
        a = b - S(b)
    else:
        raise ValueError(vclass)
    return np.ascontiguousarray(a, dtype=dt)


def run_case(case):
    import numpy as np

    from vf import bootstrap
    from vf.result import Res

    bootstrap.ensure()
    import jax.numpy as jnp
    from fdtdx.config import SimulationConfig
    from fdtdx.core.grid import UniformGrid
    from fdtdx.materials import Material

    r = Res()
    cfg = SimulationConfig(time=100e-15, grid=UniformGrid(spacing=50e-9), backend="cpu")
    mats = {"a": Material(permittivity=1.0), "b": Material(permittivity=4.0)}
    if case["kind"] == "reject":
        _reject(r, cfg, mats)
        return r.to_dict()

    rng = np.random.default_rng(case["seed"])
    name, opt = case["name"], case["opt"]
    cfg_tag = name + ("" if not opt else ":" + ",".join(f"{k}={v}" for k, v in sorted(opt.items())))
    r.branch(f"config:{cfg_tag}")
    shape_list = _shapes(name, opt, case["n_shapes"], rng)
    if case.get("rep", 0) > 0:
        shape_list = shape_list[:3] + _random_shapes(name, opt, 10, rng)
    for axis, shape in shape_list:
        S = _S(name, opt, axis)
        two_keys = bool(rng.random() < 0.2)
        shapes = {"p": shape}
        if two_keys:
            shapes["q"] = shape[::-1] if name not in ("D2", "D3") and (axis is None) else shape
        t = _make(name, opt).init_module(
            config=cfg, materials=mats, matrix_voxel_grid_shape=shape, single_voxel_size=(5e-8,) * 3, output_shape=shapes
        )
        r.branch(f"shape:{'x'.join(map(str, shape))}")
        if axis is not None:
            r.branch(f"singleton_axis:{axis}")
        for vclass in VCLASSES:
            for dt in (np.float64, np.float32) if vclass in ("normal", "wide", "symmetric") else (np.float64,):
                dtn = np.dtype(dt).name
                xs = {k: _values(vclass, s, S, rng, dt) for k, s in shapes.items()}
                call = lambda d: {k: np.asarray(v) for k, v in t({k: jnp.asarray(v) for k, v in d.items()}).items()}  # noqa: E731
                out = call(xs)
                if set(out) != set(xs):
                    r.violate("output keys differ from input keys", {"config": cfg_tag, "got": sorted(out)})
                    continue
                out2 = call(out)
                xsym = {k: np.maximum(v, S(v)) for k, v in xs.items()}
                outsym = call(xsym)
                for k, x in xs.items():
                    r.count("arrays_judged")
                    y = out[k]
                    wit = {"config": cfg_tag, "shape": list(x.shape), "singleton_axis": axis, "value_class": vclass, "dtype": dtn, "key": k}
                    if x.size <= 36:
                        wit["input"] = x.astype(float).tolist()
                    else:
                        wit["case_seed"] = case["seed"]
                    sig = (cfg_tag, axis, "x".join(map(str, x.shape)), vclass, dtn)
                    if y.shape != x.shape:
                        r.violate("output shape differs from input shape", {**wit, "out_shape": list(y.shape)}, sig=sig + ("shape",))
                        continue
                    if y.dtype != x.dtype:
                        r.branch(f"dtype_changed:{dtn}->{y.dtype.name}")
                    asym = not np.array_equal(S(x), x)
                    # 1 invariance
                    r.count("comparisons")
                    if np.array_equal(S(y), y) and np.all(np.isfinite(y)):
                        r.ok(sig + ("invariant",) if asym else None)
                    else:
                        d = np.abs(S(y).astype(float) - y.astype(float))
                        idx = tuple(int(i) for i in np.unravel_index(int(np.nanargmax(d)), d.shape))
                        r.violate(
                            "output is not exactly invariant under the symmetry operation",
                            {**wit, "index": list(idx), "out": float(y[idx]), "S(out)": float(S(y)[idx])},
                            sig=sig + ("invariant",),
                        )
                    # 2 symmetric input unchanged
                    r.count("comparisons")
                    xs_k, ys_k = xsym[k], outsym[k]
                    if ys_k.shape == xs_k.shape and np.array_equal(ys_k, xs_k):
                        r.ok(sig + ("fixes-symmetric",) if xs_k.max() > xs_k.min() else None)
                    else:
                        d = np.abs(ys_k.astype(float) - xs_k.astype(float)) if ys_k.shape == xs_k.shape else None
                        idx = tuple(int(i) for i in np.unravel_index(int(np.nanargmax(d)), d.shape)) if d is not None else ()
                        r.violate(
                            "an already symmetric input is changed",
                            {**wit, "symmetric_input": "max(x, S(x))", "index": list(idx), "in": float(xs_k[idx]) if d is not None else None, "out": float(ys_k[idx]) if d is not None else None},
                            sig=sig + ("fixes-symmetric",),
                        )
                    # 3 idempotent
                    r.count("comparisons")
                    if out2[k].shape == y.shape and np.array_equal(out2[k], y):
                        r.ok(sig + ("idempotent",) if asym else None)
                    else:
                        r.violate("transform is not idempotent", {**wit, "max_abs_diff": float(np.max(np.abs(out2[k].astype(float) - y.astype(float))))}, sig=sig + ("idempotent",))
                    # 4 mean
                    scale = float(np.max(np.abs(x.astype(float))))
                    tol = (1e-9 if dt == np.float64 else 1e-5) * scale
                    m_in, m_out = float(np.mean(x.astype(float))), float(np.mean(y.astype(float)))
                    r.count("comparisons")
                    r.worst("worst_rel_mean_err", abs(m_in - m_out) / scale if scale > 0 else 0.0)
                    if abs(m_in - m_out) <= tol:
                        r.ok(sig + ("mean",) if asym and scale > 0 else None)
                    else:
                        r.violate("array mean is not preserved", {**wit, "mean_in": m_in, "mean_out": m_out, "scale": scale}, sig=sig + ("mean",))
    r.sample = {"config": cfg_tag, "example_shape": list(shape), "value_classes": VCLASSES}
    return r.to_dict()


def _reject(r, cfg, mats):
    """Unknown option strings are documented to raise ValueError."""
    import numpy as np

    import jax.numpy as jnp
    from fdtdx.objects.device.parameters import symmetries as sy

    x = jnp.asarray(np.arange(27.0).reshape(3, 3, 3))
    for label, t in (
        ("H3:mirror_axis=z", sy.HorizontalSymmetry3D(mirror_axis="z")),
        ("H3:mirror_axis=X", sy.HorizontalSymmetry3D(mirror_axis="X")),
        ("D3:plane=yx", sy.DiagonalSymmetry3D(diagonal_plane="yx")),
        ("D3:plane=''", sy.DiagonalSymmetry3D(diagonal_plane="")),
    ):
        t = t.init_module(config=cfg, materials=mats, matrix_voxel_grid_shape=(3, 3, 3), single_voxel_size=(5e-8,) * 3, output_shape={"p": (3, 3, 3)})
        r.count("comparisons")
        r.count("arrays_judged")
        try:
            y = np.asarray(t({"p": x})["p"])
        except ValueError:
            r.ok(("reject", label))
            r.count("rejections")
            continue
        r.violate("invalid option accepted silently", {"config": label, "output_equals_input": bool(np.array_equal(y, np.asarray(x)))}, sig=("reject", label))
    r.sample = {"rejected": ["mirror_axis='z'", "diagonal_plane='yx'"]}

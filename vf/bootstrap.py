"""Worker-side bootstrap: make `import fdtdx` load /repo's *working tree*, in float64, one XLA thread.

The installed fdtdx in /venv/lib/.../site-packages is a stale copy; every check must observe the
code under /repo/src (or $VERIF_REPO/src).  `ensure()` is idempotent and must be called before any
`import jax` / `import fdtdx` in a worker process.
"""

from __future__ import annotations

import os
import subprocess
import sys

VERIF_ROOT = os.path.dirname(os.path.dirname(os.path.abspath(__file__)))
REPO = os.environ.get("VERIF_REPO", "/repo")
REPO_SRC = os.path.join(REPO, "src")
DEPS = os.path.join(VERIF_ROOT, ".deps")
GUARD = "FDTDX_VERIF"

_done = False


class TreeOriginError(RuntimeError):
    pass


def ensure_deps() -> bool:
    """Install icontract into /verif/.deps from the offline wheelhouse if it is not importable."""
    if DEPS not in sys.path:
        sys.path.insert(0, DEPS)
    try:
        import icontract  # noqa: F401

        return True
    except Exception:
        pass
    try:
        subprocess.run(
            [
                sys.executable,
                "-m",
                "pip",
                "install",
                "--quiet",
                "--no-index",
                "--find-links",
                "/opt/veriftools/wheels",
                "--target",
                DEPS,
                "icontract",
            ],
            check=True,
            stdout=subprocess.DEVNULL,
            stderr=subprocess.DEVNULL,
            timeout=300,
        )
        import importlib

        importlib.invalidate_caches()
        import icontract  # noqa: F401

        return True
    except Exception:
        return False


def ensure(x64: bool = True, devices: int | None = None):
    """Prepare the process and import fdtdx from the working tree.  Returns the fdtdx module."""
    global _done
    os.environ[GUARD] = "1"
    os.environ.setdefault("JAX_PLATFORMS", "cpu")
    # every token of XLA_FLAGS must be a --flag: XLA stops parsing at the first token that is not
    flags = os.environ.get("XLA_FLAGS", "").replace(" intra_op_parallelism_threads=1", "")
    if devices is not None and "xla_force_host_platform_device_count" not in flags:
        flags = f"--xla_force_host_platform_device_count={devices} " + flags
    if "xla_cpu_multi_thread_eigen" not in flags:
        flags += " --xla_cpu_multi_thread_eigen=false"
    os.environ["XLA_FLAGS"] = flags.strip()
    os.environ.setdefault("OMP_NUM_THREADS", "1")
    os.environ.setdefault("OPENBLAS_NUM_THREADS", "1")
    os.environ.setdefault("MKL_NUM_THREADS", "1")
    os.environ.setdefault("TF_CPP_MIN_LOG_LEVEL", "3")
    if sys.path[0] != REPO_SRC:
        if REPO_SRC in sys.path:
            sys.path.remove(REPO_SRC)
        sys.path.insert(0, REPO_SRC)
    if VERIF_ROOT not in sys.path:
        sys.path.insert(1, VERIF_ROOT)
    import jax

    if x64:
        jax.config.update("jax_enable_x64", True)
    import fdtdx

    origin = os.path.realpath(fdtdx.__file__)
    if not origin.startswith(os.path.realpath(REPO_SRC) + os.sep):
        raise TreeOriginError(f"fdtdx imported from {origin}, not from {REPO_SRC}")
    if not _done:
        try:
            from loguru import logger

            logger.remove()
        except Exception:
            pass
        import warnings

        warnings.filterwarnings("ignore", category=DeprecationWarning)
        _done = True
    return fdtdx

"""C03 — the full backward pass reconstructs the interior fields despite absorbing layers.

Forward trajectory recorded per step (lax.scan over the real forward with lossless interface
recording); then (a) manual backward steps with reset_fields=True are compared with the trajectory at
every step on all cells outside the PML slabs, (b) fdtdx.full_backward is compared at t=0 and traced:
the reverse sweep must visit T-1..0 exactly once each and never a negative step.
"""

from __future__ import annotations

PROPERTY = "C03"
RULE = (
    "seeded scenes: PML on a random non-empty subset of faces (thickness 1..4, also thicker than the interior), "
    "other faces pec/pmc/periodic/none, lossless non-dispersive iso/diag/full materials, 0-3 sources, random "
    "initial interior fields (zero in PML), uniform or rectilinear grid. distinct = (PML face set, thickness "
    "multiset, other axis kinds, material tier, source kinds, grid); non-trivial iff trajectory non-zero"
)
REQUIRED_COUNTERS = ["reverse_steps_compared", "backward_events"]
ASSUMPTIONS = [
    "lossless Recorder(modules=[]) ; default PML grading",
    "comparison restricted to cells outside all PML slabs, relative to the trajectory's max norm",
]
CASE_TIMEOUT = {"quick": 900, "thorough": 2400}


def cases(tier, rng):
    n_cases = 14 if tier == "quick" else 56
    per = 1 if tier == "quick" else 7
    out = []
    for i in range(n_cases):
        sc = []
        for j in range(per):
            sc.append(
                {
                    "seed": int(rng.integers(1 << 30)),
                    "steps": int(rng.integers(6, 30 if tier == "quick" else 60)),
                    "pml": "all" if (i + j) % 3 == 0 else "some",
                    "thin_interior": bool((i + j) % 5 == 0),
                    "init_fields": bool((i + j) % 2 == 0),
                }
            )
        out.append({"scenes": sc})
    return out


def run_case(case):
    from vf import bootstrap
    from vf.result import Res

    bootstrap.ensure()
    r = Res()
    for sc in case["scenes"]:
        _one(sc, r)
    return r.to_dict()


def make_scene(sc, detectors=(), n_detectors=(0, 0), magnetic=None):
    import numpy as np

    from vf import gen

    rng = np.random.default_rng(sc["seed"])
    scene = gen.random_scene(
        rng,
        steps=sc["steps"],
        interior=(2, 3) if sc.get("thin_interior") else (4, 7),
        boundaries=("pec", "pmc", "periodic", "none"),
        pml=sc["pml"],
        pml_thickness=(1, 4),
        materials="any_lossless",
        lossy=False,
        n_sources=(0, 3) if not sc.get("thin_interior") else (0, 1),
        source_kinds=("dipole", "mdipole", "tilted_dipole", "uniform", "gaussian") if not sc.get("thin_interior") else ("dipole", "mdipole"),
        detectors=detectors,
        n_detectors=n_detectors,
        magnetic=magnetic,
    )
    scene["gradient"] = {"method": "reversible"}
    return scene, rng


def _one(sc, r):
    import jax
    import jax.numpy as jnp
    import numpy as np

    import fdtdx
    from vf import hooks, scenes, sim

    scene, rng = make_scene(sc)
    meta = scene["meta"]
    built = scenes.build(scene)
    arrays, objects, config = built["arrays"], built["objects"], built["config"]
    T = sc["steps"]
    shape = tuple(scene["shape"])
    mask = sim.pml_mask(built, shape)
    key = jax.random.PRNGKey(3)
    if sc["init_fields"] or not scene["sources"]:
        E0, H0 = sim.random_fields(rng, arrays, objects, scale=1e-3)
        m = jnp.asarray(mask)[None]
        arrays = sim.set_fields(arrays, E0 * m, H0 * m)

    def fbody(state, _):
        new = sim.forward_step(state, built, key=key, record_boundaries=True)
        return new, (new[1].fields.E, new[1].fields.H)

    def bbody(state, _):
        new = sim.backward_step(state, built, key=key, reset_fields=True)
        return new, (new[0], new[1].fields.E, new[1].fields.H)

    @jax.jit
    def go(arr):
        st0 = (jnp.asarray(0, dtype=jnp.int32), arr)
        fin, (Es, Hs) = jax.lax.scan(fbody, st0, None, length=T)
        b0, (ts, Eb, Hb) = jax.lax.scan(bbody, fin, None, length=T)
        return fin, Es, Hs, ts, Eb, Hb

    fin, Es, Hs, ts, Eb, Hb = go(arrays)
    Es = np.concatenate([np.asarray(arrays.fields.E)[None], np.asarray(Es)])  # index t = state at time t
    Hs = np.concatenate([np.asarray(arrays.fields.H)[None], np.asarray(Hs)])
    ts, Eb, Hb = np.asarray(ts), np.asarray(Eb), np.asarray(Hb)
    scaleE = float(np.abs(Es).max())
    scaleH = float(np.abs(Hs).max())
    nontriv = scaleE > 0 or scaleH > 0
    sig = (
        tuple(meta["pml_faces"]),
        tuple(sorted(v.get("thickness", 0) for v in scene["faces"].values())),
        tuple(meta["axis_kinds"]),
        meta["material_tier"],
        tuple(sorted(meta["source_kinds"])),
        scene["grid"]["kind"],
    )
    for f in meta["pml_faces"]:
        r.branch("pml:" + f)
    for k in meta["source_kinds"]:
        r.branch("source:" + k)
    r.branch("tier:" + meta["material_tier"])
    r.branch("grid:" + scene["grid"]["kind"])
    if sc.get("thin_interior"):
        r.branch("pml_thicker_than_interior")
    wit = {"scene_params": sc, "meta": meta, "shape": list(shape)}
    mech = "full-tensor-near-pml" if sim.full_tensor_near_pml(built) else None
    if mech:
        r.branch("full_tensor_near_pml")
    tol = 1e-9 * (16.0 if meta["material_tier"] == "full" else 1.0)
    worst = 0.0
    bad = None
    for i in range(T):
        t = T - 1 - i
        if int(ts[i]) != t:
            r.violate("reverse sweep time index wrong", {**wit, "iteration": i, "got": int(ts[i]), "want": t}, sig=sig)
            return
        for name, got, want, sc_ in (("E", Eb[i], Es[t], scaleE), ("H", Hb[i], Hs[t], scaleH)):
            if sc_ == 0:
                continue
            err = float(np.abs((got - want) * mask[None]).max()) / sc_
            if not np.isfinite(err):
                err = float("inf")
            worst = max(worst, err)
            if err > tol and bad is None:
                idx = np.unravel_index(int(np.argmax(np.abs((got - want) * mask[None]))), got.shape)
                bad = {"field": name, "t": t, "rel_err": err, "index": [int(x) for x in idx]}
    r.count("reverse_steps_compared", T)
    r.worst("worst_rel_err_reverse", worst)
    if bad:
        r.violate(f"reverse step to t={bad['t']} does not reproduce forward {bad['field']} outside PML: {bad['rel_err']:.3e}", {**wit, **bad}, mechanism=mech, sig=sig)
    else:
        r.ok(sig if nontriv else None, n=T)

    # (b) full_backward with trace monitor
    with hooks.trace_forward() as log:
        st0 = jax.jit(lambda s: fdtdx.full_backward(state=s, objects=objects, config=config, key=key, record_detectors=False, reset_fields=True))(fin)
        jax.block_until_ready(st0)
        jax.effects_barrier()
    steps = sorted(e[1] for e in log.of("backward"))
    r.count("backward_events", len(steps))
    if steps != list(range(T)):
        r.violate("full_backward: reverse sweep does not visit T-1..0 exactly once each", {**wit, "visited": steps[:80]}, sig=sig)
    else:
        r.ok(None)
    if int(st0[0]) != 0:
        r.violate("full_backward final time step != 0", {**wit, "got": int(st0[0])}, sig=sig)
    for name, got, want, sc_ in (("E", np.asarray(st0[1].fields.E), Es[0], scaleE), ("H", np.asarray(st0[1].fields.H), Hs[0], scaleH)):
        if sc_ == 0:
            continue
        err = float(np.abs((got - want) * mask[None]).max()) / sc_
        r.worst("worst_rel_err_full_backward", err)
        if not (err <= tol):
            r.violate(f"full_backward does not reproduce initial {name} outside PML: {err:.3e}", {**wit, "field": name, "rel_err": err}, mechanism=mech, sig=sig)
        else:
            r.ok(sig if nontriv else None)
    r.sample = {"params": sc, "meta": meta, "shape": list(shape), "worst": worst}
